(* C06, last clause: the commuting diagram between the two models.

     infer_e : sexpr -> eres   (Model/CollectE.v, symbolic dimension inference)
     collect : qexpr -> cres   (Model/CollectQ.v, quantity construction)

   "whenever inference succeeds, replacing the symbols by non-zero quantities of their declared dimensions
    yields (function arguments being dimensionless) a quantity of that same dimension".

   Inst e q        : q is e with every dimensioned symbol replaced by a non-zero quantity of its dimension
   scopeb e        : the syntactic scope of the theorem (see /verif/design_notes/C06_diagram.md): non-empty argument
                     lists, 9-vector leaf dimensions, literal rational exponents, dimensionless functions with
                     dimensionless(-inferred) arguments, no SPlain / SDeriv, and `sum_ok` on every sum (the returned
                     sum is not literally 0 unless every term is).  `scopeb_full` is `scopeb` WITHOUT `sum_ok`;
                     the second half of the file proves the theorem for it (infer_then_collect_full)
   Fin q           : (from CollectQGlobal) every sub-expression of q has a finite value, leaf dimensions are
                     9-vectors, Min/Max have no literal Float(0.0) operand
   infer_then_collect :
     scopeb e = true -> Inst e q -> Fin q -> infer_e e = Ok (rv, d) ->
     exists v d', collect q = Ok (v, d') /\ v = value q /\ finite_val v = true /\ wf_dim d /\ wf_dim d' /\
                  (is_any v = true \/ deq d' d).
   Proof: induction on q with the invariant `diag` (additionally: the inference's "literally zero" test is sound
   for the instantiated value, and the returned expression is never zoo); Add/Min/Max through pairwise_equiv /
   sd_go_ok_iff / unique_dim_ok_iff, Mul through dprod and Permutation (the models group factors differently).
   infer_then_collect_full (= infer_then_collect_full_statement, scope scopeb_full) strengthens the invariant to
   `diagF`: when the inference returns a number rv, the collected value v satisfies val_eqb rv v = true.  The two
   models' arithmetic (groups nums/qtys/syms vs. in order, Qred, vpow up to Qeq) is compared through the abstraction
   qa : val -> option Q into a commutative monoid (fold_agree, mul_value, add_value, vpow_veq, vabs_veq). *)
From Coq Require Import List QArith ZArith Bool NArith Lia Permutation Qround Qpower Qabs.
From VP Require Import Base.Util Base.Dim Base.Val Model.CollectQ Model.CollectE
  Proofs.DimProofs Proofs.CollectQProofs Proofs.CollectEProofs Proofs.CollectQGlobal.
Import ListNotations.

(* ================================================================================================ *)
(* Definitions                                                                                       *)
(* ================================================================================================ *)

(* q instantiates e: every SDimSym d becomes a quantity of dimension d with ANY non-zero rational scale
   (each occurrence its own); everything else is kept.  SPlain and SDeriv have no instance. *)
Inductive Inst : sexpr -> qexpr -> Prop :=
| I_num v : is_number v = true -> Inst (SNum v) (QNum v)
| I_qty v d : Inst (SQty v d) (QQty v d)
| I_sym d x : qzero x = false -> Inst (SDimSym d) (QQty (VQ x) d)
| I_mul l l' : Forall2 Inst l l' -> Inst (SMul l) (QMul l')
| I_pow b x b' x' : Inst b b' -> Inst x x' -> Inst (SPow b x) (QPow b' x')
| I_add l l' : Forall2 Inst l l' -> Inst (SAdd l) (QAdd l')
| I_abs a a' : Inst a a' -> Inst (SAbs a) (QAbs a')
| I_min l l' : Forall2 Inst l l' -> Inst (SMin l) (QMin l')
| I_max l l' : Forall2 Inst l l' -> Inst (SMax l) (QMax l')
| I_fun d ov l l' : Forall2 Inst l l' -> Inst (SFun d l) (QFun ov l').

Definition nonempty {A} (l : list A) : bool := match l with [] => false | _ => true end.

(* the inferred dimension of an (inferable) expression is dimensionless *)
Definition infers_dimensionless (a : sexpr) : bool :=
  match infer_e a with Ok (_, ad) => dimensionless ad | Err _ => false end.

(* how the inference sees a classified argument: (returned expression, dimension) *)
Definition entry_of (c : cls) : val * dim :=
  match c with CNum v => (v, dzero) | CQty v d => (v, d) | CSymb r => r end.

(* every term of the sum is literally 0 / +-oo / nan for the inference *)
Definition all_terms_any (l : list sexpr) : bool :=
  match classify infer_e l with
  | Ok cs => forallb (fun c => is_any (fst (entry_of c))) cs
  | Err _ => false
  end.

(* the returned sum is not literally 0 / +-oo / nan -- unless every term is *)
Definition sum_ok (l : list sexpr) : bool :=
  match infer_e (SAdd l) with Ok (rv, _) => negb (is_any rv) | Err _ => true end || all_terms_any l.

(* the scope of the theorem *)
Fixpoint scopeb (e : sexpr) : bool :=
  match e with
  | SNum _ => true
  | SQty _ d => wf_dimb d
  | SDimSym d => wf_dimb d
  | SPlain => false
  | SMul l => nonempty l && forallb scopeb l
  | SPow b x => scopeb b && match x with SNum (VQ _) => true | _ => false end
  | SAdd l => nonempty l && forallb scopeb l && sum_ok l
  | SAbs a => scopeb a
  | SMin l => nonempty l && forallb scopeb l
  | SMax l => nonempty l && forallb scopeb l
  | SFun d l => wf_dimb d && dimensionless d && forallb scopeb l && forallb infers_dimensionless l
  | SDeriv _ _ _ => false
  end.

Lemma wf_dimb_wf d : wf_dimb d = true -> wf_dim d.
Proof. unfold wf_dimb, wf_dim. apply Nat.eqb_eq. Qed.

(* ================================================================================================ *)
(* Values in the finite fragment                                                                     *)
(* ================================================================================================ *)
Lemma qzero_mul_false x y : qzero x = false -> qzero y = false -> qzero (x * y) = false.
Proof.
  unfold qzero. intros Hx Hy. destruct (Qeq_bool (x * y) 0) eqn:E; [|reflexivity].
  apply Qeq_bool_iff in E. apply Qmult_integral in E as [E|E]; apply Qeq_bool_iff in E; congruence.
Qed.

Lemma vmul_nonany a b : finite_val a = true -> finite_val b = true ->
  is_any a = false -> is_any b = false -> is_any (vmul a b) = false.
Proof.
  destruct a as [x| | | | | | |], b as [y| | | | | | |]; intros Fa Fb Ha Hb;
    try discriminate Fa; try discriminate Fb; try discriminate Ha; try discriminate Hb; try reflexivity.
  - change (qzero (Qred (x * y)) = false). rewrite Qred_zero. apply qzero_mul_false; assumption.
  - change (qzero x = false) in Ha. cbn [vmul]. rewrite Ha. reflexivity.
  - change (qzero y = false) in Hb. cbn [vmul]. rewrite Hb. reflexivity.
Qed.

Lemma fold_vmul_finite vs : forall a, finite_val a = true -> Forall (fun v => finite_val v = true) vs ->
  finite_val (fold_left vmul vs a) = true.
Proof.
  induction vs as [|v r IH]; intros a Fa Fv; cbn [fold_left]; [exact Fa|].
  inversion Fv; subst. apply IH; [apply vmul_finite; assumption | assumption].
Qed.

(* a zero anywhere makes the product zero *)
Lemma fold_vmul_any vs : forall a, finite_val a = true -> Forall (fun v => finite_val v = true) vs ->
  (is_any a = true \/ Exists (fun v => is_any v = true) vs) -> is_any (fold_left vmul vs a) = true.
Proof.
  induction vs as [|v r IH]; intros a Fa Fv H; cbn [fold_left].
  - destruct H as [H|H]; [exact H | inversion H].
  - inversion Fv as [|? ? Fv0 Fr]; subst. apply IH; [apply vmul_finite; assumption | exact Fr |].
    destruct H as [H|H].
    + left. apply vmul_any_absorbs; assumption.
    + inversion H as [? ? H0|? ? H0]; subst; [left; apply vmul_any_absorbs_r; assumption | right; exact H0].
Qed.

(* no zero: the product is not zero *)
Lemma fold_vmul_nonany vs : forall a, finite_val a = true -> Forall (fun v => finite_val v = true) vs ->
  is_any a = false -> Forall (fun v => is_any v = false) vs -> is_any (fold_left vmul vs a) = false.
Proof.
  induction vs as [|v r IH]; intros a Fa Fv Ha Hv; cbn [fold_left]; [exact Ha|].
  inversion Fv; subst. inversion Hv; subst.
  apply IH; [apply vmul_finite; assumption | assumption | apply vmul_nonany; assumption | assumption].
Qed.

(* the returned expression of a product is literally zero only if a factor is *)
Lemma smul_any a b : is_any (smul a b) = true -> is_any a = true \/ is_any b = true.
Proof.
  destruct a as [x| | | | | | |], b as [y| | | | | | |]; cbn [smul]; intros H;
    try discriminate H;
    try (destruct (qzero x) eqn:E; [left; exact E | discriminate H]);
    try (destruct (qzero y) eqn:E; [right; exact E | discriminate H]).
  change (qzero (Qred (x * y)) = true) in H. rewrite Qred_zero in H.
  destruct (qzero x) eqn:Ex; [left; exact Ex|].
  destruct (qzero y) eqn:Ey; [right; exact Ey|]. rewrite (qzero_mul_false x y Ex Ey) in H. discriminate H.
Qed.

Lemma fold_smul_any vs : forall a, is_any (fold_left smul vs a) = true ->
  is_any a = true \/ Exists (fun v => is_any v = true) vs.
Proof.
  induction vs as [|v r IH]; intros a H; cbn [fold_left] in H; [left; exact H|].
  destruct (IH _ H) as [H1|H1]; [|right; right; exact H1].
  destruct (smul_any _ _ H1) as [H2|H2]; [left; exact H2 | right; left; exact H2].
Qed.

(* ================================================================================================ *)
(* The invariant and the relation between classified children and collected children                 *)
(* ================================================================================================ *)
(* c : how the inference sees a child; t : what the quantity construction collects for its instance *)
Definition crel (c : cls) (t : val * dim) : Prop :=
  finite_val (fst t) = true /\ wf_dim (snd t) /\ wf_dim (snd (entry_of c)) /\
  (is_any (fst t) = true \/ deq (snd t) (snd (entry_of c))) /\
  (is_any (fst (entry_of c)) = true -> is_any (fst t) = true) /\
  match c with CSymb _ => True | _ => fst (entry_of c) = fst t end.

Definition diag (q : qexpr) : Prop :=
  forall e rv d, Inst e q -> scopeb e = true -> Fin q -> infer_e e = Ok (rv, d) ->
    wf_dim d /\
    exists v d', collect q = Ok (v, d') /\ wf_dim d' /\
                 (is_any v = true \/ deq d' d) /\ (is_any rv = true -> is_any v = true) /\ rv <> VZoo.

Definition head_cls (c : sexpr -> eres) (a : sexpr) : result cls :=
  match a with
  | SQty v d => Ok (CQty v d)
  | SNum v => if is_number v then Ok (CNum v) else match c a with Ok x => Ok (CSymb x) | Err k => Err k end
  | _ => match c a with Ok x => Ok (CSymb x) | Err k => Err k end
  end.

Lemma classify_cons c a r :
  classify c (a :: r) =
  match head_cls c a with
  | Err k => Err k
  | Ok x => match classify c r with Err k => Err k | Ok xs => Ok (x :: xs) end
  end.
Proof. reflexivity. Qed.

Lemma diag_symb a a' x : diag a' -> Inst a a' -> scopeb a = true -> Fin a' ->
  infer_e a = Ok x -> exists t, collect a' = Ok t /\ crel (CSymb x) t.
Proof.
  intros Hd Hi Hs HF Hx. destruct x as [rv d].
  destruct (Hd a rv d Hi Hs HF Hx) as [Wd [v [d' [Hc [Wd' [Hdd [Hany _]]]]]]].
  exists (v, d'). split; [exact Hc|]. unfold crel. cbn [fst snd entry_of].
  repeat split; auto. rewrite (collect_value a' v d' Hc). apply Fin_finite. exact HF.
Qed.

Lemma head_cls_rel a a' x : diag a' -> Inst a a' -> scopeb a = true -> Fin a' ->
  head_cls infer_e a = Ok x -> exists t, collect a' = Ok t /\ crel x t.
Proof.
  intros Hd Hi Hs HF Hx.
  assert (Hgen : forall y, infer_e a = Ok y -> exists t, collect a' = Ok t /\ crel (CSymb y) t).
  { intros y Hy. eapply diag_symb; eassumption. }
  destruct Hi as [v Hn|v d|d x0 Hx0|l l' Hl|b e b' e' Hb He|l l' Hl|a0 a0' Ha|l l' Hl|l l' Hl|d ov l l' Hl];
    cbn [head_cls] in Hx.
  - rewrite Hn in Hx. inversion Hx; subst x. exists (v, dzero). cbn [collect]. rewrite Hn. split; [reflexivity|].
    inversion HF; subst. unfold crel. cbn [fst snd entry_of].
    repeat split; auto using dzero_wf. right. apply deq_refl.
  - inversion Hx; subst x. exists (v, d). split; [reflexivity|]. inversion HF; subst.
    unfold crel. cbn [fst snd entry_of]. repeat split; auto. right. apply deq_refl.
  - destruct (infer_e (SDimSym d)) as [y|k] eqn:E; [|discriminate]. inversion Hx; subst x. apply Hgen. reflexivity.
  - destruct (infer_e (SMul l)) as [y|k] eqn:E; [|discriminate]. inversion Hx; subst x. apply Hgen. reflexivity.
  - destruct (infer_e (SPow b e)) as [y|k] eqn:E; [|discriminate]. inversion Hx; subst x. apply Hgen. reflexivity.
  - destruct (infer_e (SAdd l)) as [y|k] eqn:E; [|discriminate]. inversion Hx; subst x. apply Hgen. reflexivity.
  - destruct (infer_e (SAbs a0)) as [y|k] eqn:E; [|discriminate]. inversion Hx; subst x. apply Hgen. reflexivity.
  - destruct (infer_e (SMin l)) as [y|k] eqn:E; [|discriminate]. inversion Hx; subst x. apply Hgen. reflexivity.
  - destruct (infer_e (SMax l)) as [y|k] eqn:E; [|discriminate]. inversion Hx; subst x. apply Hgen. reflexivity.
  - destruct (infer_e (SFun d l)) as [y|k] eqn:E; [|discriminate]. inversion Hx; subst x. apply Hgen. reflexivity.
Qed.

Lemma children_rel l' : Forall diag l' ->
  forall l cs, Forall2 Inst l l' -> forallb scopeb l = true -> Forall Fin l' ->
    classify infer_e l = Ok cs -> exists ts, map_res collect l' = Ok ts /\ Forall2 crel cs ts.
Proof.
  induction 1 as [|a' r' Ha Hr IH]; intros l cs Hi Hs HF Hc; inversion Hi as [|a ? r ? Hia Hir]; subst.
  - cbn in Hc. inversion Hc; subst. exists []. split; [reflexivity | constructor].
  - rewrite classify_cons in Hc. cbn [forallb] in Hs. apply andb_true_iff in Hs as [Hsa Hsr].
    inversion HF as [|? ? Fa Fr]; subst.
    destruct (head_cls infer_e a) as [x|k] eqn:Ex; [|discriminate].
    destruct (classify infer_e r) as [xs|k] eqn:Er; [|discriminate]. inversion Hc; subst cs.
    destruct (head_cls_rel a a' x Ha Hia Hsa Fa Ex) as [t [Ht Hrel]].
    destruct (IH r xs Hir Hsr Fr Er) as [ts [Hts Hrels]].
    exists (t :: ts). split; [cbn [map_res]; rewrite Ht, Hts; reflexivity | constructor; assumption].
Qed.

(* ================================================================================================ *)
(* Sums, Min, Max: the two models agree through the order-free characterisations                      *)
(* ================================================================================================ *)
Lemma group_perm cs : Permutation (map entry_of cs) (group_entries cs).
Proof.
  unfold group_entries. induction cs as [|c r IH]; [constructor|].
  cbn [map flat_map]. destruct c as [v|v d|x]; cbn [entry_of app].
  - apply perm_skip. exact IH.
  - eapply perm_trans; [apply perm_skip; exact IH|]. apply Permutation_middle.
  - eapply perm_trans; [apply perm_skip; exact IH|].
    rewrite !app_assoc. apply Permutation_middle.
Qed.

Lemma Forall2_in_r {A B} (R : A -> B -> Prop) l l' : Forall2 R l l' ->
  forall y, In y l' -> exists x, In x l /\ R x y.
Proof.
  induction 1 as [|x y0 l l' Hxy _ IH]; intros y Hy; [destruct Hy|].
  destruct Hy as [<-|Hy]; [exists x; split; [left; reflexivity | exact Hxy]|].
  destruct (IH y Hy) as [x' [Hi Hr]]. exists x'. split; [right; exact Hi | exact Hr].
Qed.

Lemma Forall2_in_l {A B} (R : A -> B -> Prop) l l' : Forall2 R l l' ->
  forall x, In x l -> exists y, In y l' /\ R x y.
Proof.
  induction 1 as [|x0 y l l' Hxy _ IH]; intros x Hx; [destruct Hx|].
  destruct Hx as [<-|Hx]; [exists y; split; [left; reflexivity | exact Hxy]|].
  destruct (IH x Hx) as [y' [Hi Hr]]. exists y'. split; [right; exact Hi | exact Hr].
Qed.

(* a collected term that is not of any dimension: the inference's entry is not either, same dimension *)
Lemma crel_nonany c t : crel c t -> is_any (fst t) = false ->
  is_any (fst (entry_of c)) = false /\ deq (snd t) (snd (entry_of c)).
Proof.
  intros [_ [_ [_ [Hd [Ha _]]]]] Hn. split.
  - destruct (is_any (fst (entry_of c))); [rewrite (Ha eq_refl) in Hn; discriminate | reflexivity].
  - destruct Hd as [Hd|Hd]; [congruence | exact Hd].
Qed.

Lemma sd_diagram cs ts d : Forall2 crel cs ts -> unique_dim cs = Ok d ->
  pairwise_equiv ts /\ wf_dim d /\ wf_dim (pick_dim ts) /\
  (Forall (fun t => is_any (fst t) = true) ts \/ deq (pick_dim ts) d).
Proof.
  intros Hrel Hu. unfold unique_dim in Hu.
  pose proof (unique_dim_of_terms _ _ Hu) as Hterms.
  apply unique_dim_ok_iff in Hu as [Hp Hd].
  assert (Hin : forall c, In c cs -> In (entry_of c) (group_entries cs)).
  { intros c Hc. eapply Permutation_in; [apply group_perm | apply in_map; exact Hc]. }
  assert (Wts : Forall (fun t => wf_dim (snd t)) ts).
  { apply Forall_forall. intros t Ht. destruct (Forall2_in_r _ _ _ Hrel t Ht) as [c [_ Hc]]. apply Hc. }
  split; [|split; [|split; [apply pick_dim_wf; exact Wts|]]].
  - intros t1 t2 H1 H2 N1 N2. unfold nonany in N1, N2.
    destruct (Forall2_in_r _ _ _ Hrel t1 H1) as [c1 [Hc1 R1]].
    destruct (Forall2_in_r _ _ _ Hrel t2 H2) as [c2 [Hc2 R2]].
    destruct (crel_nonany c1 t1 R1 N1) as [M1 D1]. destruct (crel_nonany c2 t2 R2 N2) as [M2 D2].
    pose proof (Hp _ _ (Hin c1 Hc1) (Hin c2 Hc2) M1 M2) as E. unfold equivalent_dims in *.
    apply deqb_deq in E. apply deqb_deq.
    eapply deq_trans; [exact D1|]. eapply deq_trans; [exact E|]. apply deq_sym. exact D2.
  - subst d. destruct (first_nonany (group_entries cs)) as [d0|] eqn:E; [|exact dzero_wf].
    destruct (first_nonany_in _ _ E) as [v0 [Hi _]].
    apply Permutation_in with (l' := map entry_of cs) in Hi; [|apply Permutation_sym, group_perm].
    apply in_map_iff in Hi as [c [Hc Hcin]]. destruct (Forall2_in_l _ _ _ Hrel c Hcin) as [t [_ R]].
    destruct R as [_ [_ [W _]]]. rewrite Hc in W. exact W.
  - unfold pick_dim. destruct (first_nonany ts) as [d1|] eqn:E.
    + right. destruct (first_nonany_in _ _ E) as [v1 [Hi Hn]].
      destruct (Forall2_in_r _ _ _ Hrel _ Hi) as [c [Hc R]].
      destruct (crel_nonany c _ R Hn) as [M D]. cbn [snd] in D.
      pose proof (Hterms _ (Hin c Hc) M) as Eq. unfold equivalent_dims in Eq. apply deqb_deq in Eq.
      eapply deq_trans; [exact D | apply deq_sym; exact Eq].
    + left. apply Forall_forall. intros t Ht. apply (first_nonany_none ts E t Ht).
Qed.

(* ================================================================================================ *)
(* Dimension algebra for products                                                                    *)
(* ================================================================================================ *)
Lemma dprod_wf ns : Forall wf_dim ns -> wf_dim (dprod ns).
Proof.
  induction 1 as [|n r Hn _ IH]; cbn [dprod fold_right]; [exact dzero_wf | apply dmul_wf; assumption].
Qed.

Lemma dprod_deq ns ns' : Forall2 deq ns ns' -> deq (dprod ns) (dprod ns').
Proof.
  induction 1 as [|n n' r r' Hn _ IH]; cbn [dprod fold_right]; [apply deq_refl | apply dmul_deq; assumption].
Qed.

Lemma dmul_dzero_l a : wf_dim a -> deq (dmul dzero a) a.
Proof. intros Hw. eapply deq_trans; [apply dmul_comm | apply dmul_dzero_r; exact Hw]. Qed.

Lemma dprod_app l1 l2 : Forall wf_dim l1 -> Forall wf_dim l2 ->
  deq (dprod (l1 ++ l2)) (dmul (dprod l1) (dprod l2)).
Proof.
  intros H1 H2. induction H1 as [|n r Hn Hr IH]; cbn [app].
  - change (dprod []) with dzero. apply deq_sym, dmul_dzero_l, dprod_wf. exact H2.
  - change (dprod (n :: r ++ l2)) with (dmul n (dprod (r ++ l2))).
    change (dprod (n :: r)) with (dmul n (dprod r)).
    eapply deq_trans; [apply dmul_deq; [apply deq_refl | exact IH]|]. apply deq_sym, dmul_assoc.
Qed.

Lemma dprod_zeros {A} (l : list A) : deq (dprod (map (fun _ => dzero) l)) dzero.
Proof.
  induction l as [|x r IH]; cbn [map]; [apply deq_refl|].
  change (deq (dmul dzero (dprod (map (fun _ => dzero) r))) dzero).
  eapply deq_trans; [apply dmul_deq; [apply deq_refl | exact IH]|]. apply dmul_dzero_l, dzero_wf.
Qed.

Lemma Forall_wf_zeros {A} (l : list A) : Forall wf_dim (map (fun _ : A => dzero) l).
Proof. induction l; cbn [map]; constructor; [exact dzero_wf | assumption]. Qed.

(* the inference's grouping: numbers, then quantities, then symbolic factors *)
Lemma group_dims cs :
  map snd (group_entries cs) =
  map (fun _ => dzero) (nums_of cs) ++ map snd (qtys_of cs) ++ map snd (syms_of cs).
Proof.
  unfold group_entries, qtys_of, syms_of. rewrite !map_app. f_equal.
  unfold nums_of. induction cs as [|c r IH]; [reflexivity|].
  cbn [flat_map]. rewrite !map_app, IH. destruct c; reflexivity.
Qed.

Lemma grouped_product A B Z : Forall wf_dim A -> Forall wf_dim B -> Forall wf_dim Z -> deq (dprod Z) dzero ->
  deq (dprod (Z ++ A ++ B)) (fold_left dmul B (fold_left dmul A dzero)).
Proof.
  intros HA HB HZ Hz.
  assert (WA : wf_dim (dprod A)) by (apply dprod_wf; exact HA).
  assert (WB : wf_dim (dprod B)) by (apply dprod_wf; exact HB).
  assert (E1 : deq (fold_left dmul A dzero) (dprod A)).
  { eapply deq_trans; [apply fold_left_dprod; [exact dzero_wf | exact HA]|]. apply dmul_dzero_l. exact WA. }
  assert (E2 : deq (fold_left dmul B (fold_left dmul A dzero)) (dmul (dprod A) (dprod B))).
  { eapply deq_trans; [apply fold_left_dprod; [apply fold_dmul_wf; [exact HA | exact dzero_wf] | exact HB]|].
    apply dmul_deq; [exact E1 | apply deq_refl]. }
  eapply deq_trans; [|apply deq_sym; exact E2].
  eapply deq_trans; [apply dprod_app; [exact HZ | apply Forall_app; split; assumption]|].
  eapply deq_trans; [apply dmul_deq; [exact Hz | apply dprod_app; assumption]|].
  apply dmul_dzero_l. apply dmul_wf; assumption.
Qed.

(* ================================================================================================ *)
(* Products                                                                                          *)
(* ================================================================================================ *)
Lemma crel_wf_entries cs ts : Forall2 crel cs ts ->
  Forall wf_dim (map snd (qtys_of cs)) /\ Forall wf_dim (map snd (syms_of cs)) /\ Forall wf_dim (map snd ts).
Proof.
  unfold qtys_of, syms_of.
  induction 1 as [|c t cs ts R _ [IH1 [IH2 IH3]]]; cbn [flat_map map]; [repeat split; constructor|].
  destruct R as [_ [Wt [Wc _]]].
  destruct c as [v|v d|[rv d]]; cbn [entry_of snd app map] in *; repeat split; try assumption;
    constructor; assumption.
Qed.

(* when no collected factor is of any dimension *)
Lemma crel_nonany_all cs ts : Forall2 crel cs ts -> Forall (fun t => is_any (fst t) = false) ts ->
  Forall (fun v => finite_val v = true /\ is_any v = false) (nums_of cs) /\
  Forall (fun q => finite_val (fst q) = true /\ is_any (fst q) = false) (qtys_of cs) /\
  Forall (fun s => is_any (fst s) = false) (syms_of cs) /\
  Forall2 deq (map snd ts) (map snd (map entry_of cs)).
Proof.
  unfold nums_of, qtys_of, syms_of.
  induction 1 as [|c t cs ts R _ IH]; intros Hn; cbn [flat_map map]; [repeat split; constructor|].
  inversion Hn as [|? ? Hn0 Hnr]; subst. destruct (IH Hnr) as [IH1 [IH2 [IH3 IH4]]].
  destruct (crel_nonany c t R Hn0) as [M D]. destruct R as [Ft [_ [_ [_ [_ Heq]]]]].
  destruct c as [v|v d|[rv d]]; cbn [entry_of fst snd app] in *; repeat split; try assumption;
    try (constructor; [|assumption]); cbn [fst snd]; try (split; congruence); try assumption.
Qed.

Lemma fold_cond_dmul qs : Forall (fun q : val * dim => is_any (fst q) = false) qs -> forall d0,
  fold_left (fun d q => if is_any (fst q) then d else dmul d (snd q)) qs d0 = fold_left dmul (map snd qs) d0.
Proof.
  induction 1 as [|q r Hq _ IH]; intros d0; cbn [fold_left map]; [reflexivity|]. rewrite Hq. apply IH.
Qed.

Lemma fold_cond_dmul_wf qs : Forall wf_dim (map snd qs) -> forall d0, wf_dim d0 ->
  wf_dim (fold_left (fun d (q : val * dim) => if is_any (fst q) then d else dmul d (snd q)) qs d0).
Proof.
  induction qs as [|q r IH]; intros Hw d0 H0; cbn [fold_left]; [exact H0|].
  cbn [map] in Hw. inversion Hw; subst. apply IH; [assumption|].
  destruct (is_any (fst q)); [exact H0 | apply dmul_wf; assumption].
Qed.

Lemma mul_of_wf cs ts : Forall2 crel cs ts -> wf_dim (snd (mul_of cs)).
Proof.
  intros R. destruct (crel_wf_entries cs ts R) as [Wq [Ws _]]. unfold mul_of.
  destruct (is_any _); cbn [snd]; [exact dzero_wf|].
  apply fold_dmul_wf; [exact Ws | apply fold_cond_dmul_wf; [exact Wq | exact dzero_wf]].
Qed.

Lemma Forall_and_l {A} (P Q : A -> Prop) l : Forall (fun x => P x /\ Q x) l -> Forall P l.
Proof. apply Forall_impl. intros a [H _]. exact H. Qed.
Lemma Forall_and_r {A} (P Q : A -> Prop) l : Forall (fun x => P x /\ Q x) l -> Forall Q l.
Proof. apply Forall_impl. intros a [_ H]. exact H. Qed.
Lemma Forall_map_fst {A B} (P : A -> Prop) (l : list (A * B)) :
  Forall (fun t => P (fst t)) l -> Forall P (map fst l).
Proof. induction 1; cbn [map]; constructor; assumption. Qed.

Lemma mul_diagram cs p ts0 : Forall2 crel cs (p :: ts0) ->
  is_any (fold_left vmul (map fst ts0) (fst p)) = false ->
  is_any (fst (mul_of cs)) = false /\ deq (fold_left dmul (map snd ts0) (snd p)) (snd (mul_of cs)).
Proof.
  intros R Hv.
  assert (Fts : Forall (fun t => finite_val (fst t) = true) (p :: ts0)).
  { apply Forall_forall. intros t Ht. destruct (Forall2_in_r _ _ _ R t Ht) as [c [_ Hc]]. apply Hc. }
  inversion Fts as [|? ? Fp Fts0]; subst.
  assert (Nts : Forall (fun t => is_any (fst t) = false) (p :: ts0)).
  { apply Forall_forall. intros t Ht. destruct (is_any (fst t)) eqn:E; [exfalso | reflexivity].
    rewrite fold_vmul_any in Hv; [discriminate Hv | exact Fp | apply Forall_map_fst; exact Fts0 |].
    destruct Ht as [<-|Ht]; [left; exact E | right]. apply Exists_exists. exists (fst t).
    split; [apply in_map; exact Ht | exact E]. }
  destruct (crel_nonany_all cs _ R Nts) as [N1 [N2 [N3 N4]]].
  destruct (crel_wf_entries cs _ R) as [Wq [Ws Wt]].
  assert (Hqf : is_any (fold_left vmul (map fst (qtys_of cs)) (fold_left vmul (nums_of cs) (VQ 1))) = false).
  { apply fold_vmul_nonany.
    - apply fold_vmul_finite; [reflexivity | eapply Forall_and_l; exact N1].
    - apply Forall_map_fst. eapply Forall_and_l. exact N2.
    - apply fold_vmul_nonany; [reflexivity | eapply Forall_and_l; exact N1 | reflexivity | eapply Forall_and_r; exact N1].
    - apply Forall_map_fst. eapply Forall_and_r. exact N2. }
  unfold mul_of. rewrite Hqf. cbn [fst snd]. split.
  - match goal with |- is_any ?x = false => destruct (is_any x) eqn:E; [exfalso | reflexivity] end.
    apply fold_smul_any in E as [E|E].
    + destruct (dimensionless _); [congruence | discriminate E].
    + apply Exists_exists in E as [x [Hx Ex]]. apply in_map_iff in Hx as [s [<- Hs]].
      rewrite Forall_forall in N3. rewrite (N3 s Hs) in Ex. discriminate Ex.
  - rewrite (fold_cond_dmul _ (Forall_and_r _ _ _ N2)).
    cbn [map] in Wt. inversion Wt as [|? ? Wp Wt0]; subst.
    eapply deq_trans; [apply fold_left_dprod; assumption|].
    change (dmul (snd p) (dprod (map snd ts0))) with (dprod (map snd (p :: ts0))).
    eapply deq_trans; [apply dprod_deq; exact N4|].
    eapply deq_trans; [apply dprod_perm, Permutation_map, group_perm|].
    rewrite group_dims. apply grouped_product; [exact Wq | exact Ws | apply Forall_wf_zeros | apply dprod_zeros].
Qed.

(* ================================================================================================ *)
(* Node lemmas                                                                                       *)
(* ================================================================================================ *)
Lemma sd_node comb l' ts cs d (P : val -> Prop) :
  map_res collect l' = Ok ts -> Forall2 crel cs ts -> unique_dim cs = Ok d ->
  (exists v, sd_val comb None ts = Some v) ->
  (forall a b y, P a -> P b -> comb a b = Some y -> P y) ->
  (forall x, P x -> is_any x = true) ->
  (Forall (fun t => is_any (fst t) = true) ts -> Forall (fun t => P (fst t)) ts) ->
  wf_dim d /\
  exists v d', sd_go collect comb None None dzero l' = Ok (v, d') /\ wf_dim d' /\ (is_any v = true \/ deq d' d).
Proof.
  intros Hts R Hu [v Hv] Hc Hany Hall.
  destruct (sd_diagram cs ts d R Hu) as [Hp [Wd [Wp Hd]]]. split; [exact Wd|].
  exists v, (pick_dim ts). split; [apply (sd_go_ok_iff collect comb l' ts v _ Hts); auto|].
  split; [exact Wp|]. destruct Hd as [Ha|Hd]; [left | right; exact Hd].
  apply Hany. apply (sd_val_closed comb P Hc ts None v I (Hall Ha) Hv).
Qed.

Lemma crel_finite cs ts : Forall2 crel cs ts -> Forall (fun t => finite_val (fst t) = true) ts.
Proof. induction 1 as [|c t cs ts R _ IH]; constructor; [apply R | exact IH]. Qed.

Lemma Forall2_nonempty {A B} (R : A -> B -> Prop) l l' : Forall2 R l l' -> nonempty l = true -> l' <> [].
Proof. intros H Hn. destruct H; [discriminate Hn | discriminate]. Qed.

Lemma finite_comparable v : finite_val v = true -> comparable v = true.
Proof. destruct v; intros H; try discriminate H; reflexivity. Qed.

Lemma fin_any_all ts : Forall (fun t : val * dim => finite_val (fst t) = true) ts ->
  Forall (fun t => is_any (fst t) = true) ts -> Forall (fun t => fin_any (fst t)) ts.
Proof.
  induction 1 as [|t r Ft _ IH]; intros H; [constructor|]. inversion H; subst.
  constructor; [split; assumption | apply IH; assumption].
Qed.

Lemma zero_q_all ts : Forall (fun t : val * dim => finite_val (fst t) = true) ts ->
  Forall (fun t => fst t <> VFloat0) ts ->
  Forall (fun t => is_any (fst t) = true) ts -> Forall (fun t => zero_q (fst t)) ts.
Proof.
  induction 1 as [|[v d] r Ft _ IH]; intros Hn H; [constructor|]. inversion H; subst. inversion Hn; subst.
  constructor; [|apply IH; assumption]. cbn [fst] in *.
  destruct v as [q| | | | | | |]; try discriminate; try congruence. exists q. auto.
Qed.

Lemma map_res_no_float0 l' ts : map_res collect l' = Ok ts ->
  Forall (fun t => value t <> VFloat0) l' -> Forall (fun t => fst t <> VFloat0) ts.
Proof.
  revert ts. induction l' as [|a r IH]; intros ts H Hn; cbn [map_res] in H.
  - inversion H; constructor.
  - destruct (collect a) as [[af ad]|k] eqn:Ea; [|discriminate].
    destruct (map_res collect r) as [ts'|k]; [|discriminate]. inversion H; subst. inversion Hn; subst.
    constructor; [cbn [fst]; rewrite (collect_value a af ad Ea); assumption | apply IH; [reflexivity | assumption]].
Qed.

Lemma cmp_comb_closed g (P : val -> Prop) : (forall a b, P a -> P b -> P (g a b)) ->
  forall a b y, P a -> P b -> cmp_comb g a b = Some y -> P y.
Proof.
  intros Hg a b y Ha Hb H. unfold cmp_comb in H. destruct (comparable a && comparable b); inversion H; subst.
  apply Hg; assumption.
Qed.

Lemma comb_add_closed a b y : fin_any a -> fin_any b -> comb_add a b = Some y -> fin_any y.
Proof. intros Ha Hb H. inversion H; subst. apply vadd_fin_any; assumption. Qed.

(* ---- applied functions -------------------------------------------------------------------------- *)
Lemma infer_fun_inv d l r : infer_e (SFun d l) = Ok r ->
  r = (VSym, d) /\ Forall (fun a => exists y, infer_e a = Ok y) l.
Proof.
  cbn [infer_e]. induction l as [|a l IH]; intros H.
  - inversion H. split; [reflexivity | constructor].
  - destruct (infer_e a) as [y|k] eqn:E; [|discriminate H]. destruct (IH H) as [H1 H2].
    split; [exact H1 | constructor; [exists y; exact E | exact H2]].
Qed.

Lemma fun_children l' ov : Forall diag l' -> forall l, Forall2 Inst l l' ->
  forallb scopeb l = true -> forallb infers_dimensionless l = true -> Forall Fin l' ->
  fun_go collect ov l' = Ok (ov, dzero).
Proof.
  induction 1 as [|a' r' Ha _ IH]; intros l Hi Hs Hdl HF; inversion Hi as [|a ? r ? Hia Hir]; subst; [reflexivity|].
  cbn [forallb] in Hs, Hdl. apply andb_true_iff in Hs as [Hsa Hsr]. apply andb_true_iff in Hdl as [Hda Hdr].
  inversion HF as [|? ? Fa Fr]; subst. unfold infers_dimensionless in Hda.
  destruct (infer_e a) as [[rv ad]|k] eqn:E; [|discriminate Hda].
  destruct (Ha a rv ad Hia Hsa Fa E) as [_ [v [d' [Hc [_ [Hd _]]]]]].
  cbn [fun_go]. rewrite Hc.
  assert (Hok : is_any v || dimensionless d' = true).
  { destruct Hd as [Hd|Hd]; [rewrite Hd; reflexivity|]. rewrite (dimensionless_deq _ _ Hd), Hda. apply orb_true_r. }
  rewrite Hok. apply (IH r); assumption.
Qed.

(* ---- values: zoo and absolute value --------------------------------------------------------------- *)
Lemma smul_not_zoo a b : smul a b <> VZoo.
Proof.
  destruct a as [x| | | | | | |], b as [y| | | | | | |]; cbn [smul]; try discriminate;
    try (destruct (qzero x); discriminate); try (destruct (qzero y); discriminate).
Qed.

Lemma fold_smul_zoo vs : forall a, fold_left smul vs a = VZoo -> a = VZoo.
Proof.
  induction vs as [|v r IH]; intros a H; cbn [fold_left] in H; [exact H|].
  apply IH in H. exfalso. exact (smul_not_zoo _ _ H).
Qed.

Lemma crel_group_finite cs ts : Forall2 crel cs ts ->
  Forall (fun v => finite_val v = true) (nums_of cs) /\
  Forall (fun v => finite_val v = true) (map fst (qtys_of cs)).
Proof.
  unfold nums_of, qtys_of.
  induction 1 as [|c t cs ts R _ [IH1 IH2]]; cbn [flat_map map]; [split; constructor|].
  destruct R as [Ft [_ [_ [_ [_ Heq]]]]].
  destruct c as [v|v d|[rv d]]; cbn [entry_of fst snd app map] in *; split; try assumption;
    constructor; try assumption; congruence.
Qed.

Lemma mul_of_not_zoo cs ts : Forall2 crel cs ts -> fst (mul_of cs) <> VZoo.
Proof.
  intros R. destruct (crel_group_finite cs ts R) as [F1 F2].
  assert (Fq : finite_val (fold_left vmul (map fst (qtys_of cs)) (fold_left vmul (nums_of cs) (VQ 1))) = true).
  { apply fold_vmul_finite; [apply fold_vmul_finite; [reflexivity | exact F1] | exact F2]. }
  unfold mul_of. destruct (is_any _) eqn:E; cbn [fst]; intros H.
  - rewrite H in E. discriminate E.
  - apply fold_smul_zoo in H. destruct (dimensionless _); [rewrite H in Fq; discriminate Fq | discriminate H].
Qed.

Lemma Qabs_zero q : qzero (Qabs q) = true -> qzero q = true.
Proof.
  unfold qzero. rewrite !Qeq_bool_iff. destruct q as [n dn]. unfold Qeq, Qabs. cbn. lia.
Qed.

Lemma vabs_any_inv a : is_any (vabs a) = true -> is_any a = true \/ a = VZoo.
Proof.
  destruct a as [q| | | | | | |]; cbn [vabs]; intros H; try discriminate H; try (left; reflexivity);
    try (right; reflexivity).
  left. change (qzero (Qred (Qabs q)) = true) in H. rewrite Qred_zero in H. apply Qabs_zero. exact H.
Qed.

(* ================================================================================================ *)
(* The invariant holds at every node                                                                 *)
(* ================================================================================================ *)
Lemma diag_num v0 : diag (QNum v0).
Proof.
  intros e rv d Hi Hs HF He. inversion Hi as [v Hn| | | | | | | | |]; subst. inversion HF; subst.
  cbn [infer_e] in He. inversion He; subst. split; [exact dzero_wf|].
  exists rv, dzero. cbn [collect]. rewrite Hn.
  repeat split; auto using dzero_wf; [right; apply deq_refl | intros ->; discriminate].
Qed.

Lemma diag_qty v0 d0 : diag (QQty v0 d0).
Proof.
  intros e rv d Hi Hs HF He.
  assert (Fv : finite_val v0 = true /\ wf_dim d0) by (inversion HF; subst; split; assumption).
  destruct Fv as [Fv Wd0].
  assert (Hrd : rv = VSym /\ d = d0).
  { inversion Hi; subst; cbn [infer_e] in He; inversion He; subst; split; reflexivity. }
  destruct Hrd as [-> ->]. split; [exact Wd0|]. exists v0, d0. cbn [collect].
  repeat split; auto; try (right; apply deq_refl); discriminate.
Qed.

Lemma diag_abs a' : diag a' -> diag (QAbs a').
Proof.
  intros IH e rv d Hi Hs HF He. inversion Hi as [| | | | | |a ? Ha| | |]; subst. inversion HF as [| | | | | |? Fa Ff| | |]; subst.
  cbn [scopeb] in Hs. cbn [infer_e] in He. destruct (infer_e a) as [[av ad]|k] eqn:Ea; [|discriminate He].
  inversion He; subst. destruct (IH a av d Ha Hs Fa Ea) as [Wd [f [d' [Hc [Wd' [Hd [Hany Hz]]]]]]].
  split; [exact Wd|]. exists (vabs f), d'. cbn [collect]. rewrite Hc. repeat split; auto.
  - destruct Hd as [Hd|Hd]; [left; apply vabs_any; exact Hd | right; exact Hd].
  - intros H. apply vabs_any. apply Hany. destruct av; try discriminate H;
      (apply vabs_any_inv in H as [H|H]; [exact H | congruence]).
  - destruct av; cbn [vabs]; discriminate.
Qed.

Lemma diag_fun ov l' : Forall diag l' -> diag (QFun ov l').
Proof.
  intros IH e rv d Hi Hs HF He. inversion Hi as [| | | | | | | | |d0 ? l ? Hl]; subst.
  inversion HF as [| | | | | | | | |? ? Fl Fo]; subst.
  cbn [scopeb] in Hs. apply andb_true_iff in Hs as [Hs Hdl]. apply andb_true_iff in Hs as [Hs Hsl].
  apply andb_true_iff in Hs as [Hw Hd0]. apply wf_dimb_wf in Hw.
  apply infer_fun_inv in He as [He _]. inversion He; subst. split; [exact Hw|].
  exists ov, dzero. cbn [collect]. rewrite (fun_children l' ov IH l Hl Hsl Hdl Fl).
  repeat split; auto using dzero_wf; try discriminate.
  right. apply deq_sym. apply dimensionless_wf_dzero; assumption.
Qed.

Lemma diag_mul l' : Forall diag l' -> diag (QMul l').
Proof.
  intros IH e rv d Hi Hs HF He. inversion Hi as [| | |l ? Hl| | | | | |]; subst.
  assert (Fl : Forall Fin l') by (inversion HF; assumption).
  cbn [scopeb] in Hs. apply andb_true_iff in Hs as [Hne Hsl].
  cbn [infer_e] in He. destruct (classify infer_e l) as [cs|k] eqn:Ec; [|discriminate He].
  destruct (children_rel l' IH l cs Hl Hsl Fl Ec) as [ts [Hts R]].
  pose proof (mul_of_wf cs ts R) as Wd. pose proof (mul_of_not_zoo cs ts R) as Hz.
  inversion He as [Hm]. rewrite Hm in Wd, Hz. cbn [fst snd] in Wd, Hz. split; [exact Wd|].
  destruct l' as [|x xs]; [exfalso; exact (Forall2_nonempty _ _ _ Hl Hne eq_refl)|].
  cbn [map_res] in Hts. destruct (collect x) as [p|k] eqn:Ex; [|discriminate Hts].
  destruct (map_res collect xs) as [ts0|k] eqn:Exs; [|discriminate Hts]. inversion Hts; subst ts.
  destruct (collect_mul_spec x xs p ts0 Ex Exs) as [v [d' [Hc [Hv Hd]]]].
  pose proof (crel_finite _ _ R) as Fts. pose proof (Forall_inv Fts) as Fp. pose proof (Forall_inv_tail Fts) as Fts0.
  cbn beta in Fp. specialize (Hd Fp Fts0).
  destruct (collect_dim_claim (QMul (x :: xs)) HF) as [_ Hclaim]. destruct (Hclaim v d' Hc) as [Wd' _].
  exists v, d'. split; [exact Hc|]. split; [exact Wd'|].
  destruct (is_any v) eqn:Ev.
  - repeat split; auto.
  - destruct Hd as [Hd|Hd]; [discriminate Hd|].
    assert (Hv' : is_any (fold_left vmul (map fst ts0) (fst p)) = false) by (rewrite <- Hv; exact Ev).
    destruct (mul_diagram cs p ts0 R Hv') as [Hrv Hdd]. rewrite Hm in Hrv, Hdd. cbn [fst snd] in Hrv, Hdd.
    repeat split; auto.
    + right. eapply deq_trans; [exact Hd | exact Hdd].
    + intros H. congruence.
Qed.

Lemma crel_nonempty cs ts : Forall2 crel cs ts -> cs <> [] -> ts <> [].
Proof. intros H Hn. destruct H; [congruence | discriminate]. Qed.

Lemma classify_nonempty l cs : classify infer_e l = Ok cs -> nonempty l = true -> cs <> [].
Proof.
  destruct l as [|a r]; intros H Hn; [discriminate Hn|]. rewrite classify_cons in H.
  destruct (head_cls infer_e a); [|discriminate H]. destruct (classify infer_e r); [|discriminate H].
  inversion H. discriminate.
Qed.

(* ---- the returned sum is never zoo -------------------------------------------------------------- *)
Lemma vadd_finite a b : finite_val a = true -> finite_val b = true -> finite_val (vadd a b) = true.
Proof. destruct a, b; cbn; intros; try discriminate; reflexivity. Qed.

Lemma fold_vadd_finite vs : forall a, finite_val a = true -> Forall (fun v => finite_val v = true) vs ->
  finite_val (fold_left vadd vs a) = true.
Proof.
  induction vs as [|v r IH]; intros a Fa Fv; cbn [fold_left]; [exact Fa|].
  inversion Fv; subst. apply IH; [apply vadd_finite; assumption | assumption].
Qed.

Lemma sadd_not_zoo a b : sadd a b <> VZoo.
Proof. destruct a, b; cbn [sadd]; discriminate. Qed.

Lemma fold_sadd_zoo vs : forall a, fold_left sadd vs a = VZoo -> a = VZoo.
Proof.
  induction vs as [|v r IH]; intros a H; cbn [fold_left] in H; [exact H|].
  apply IH in H. exfalso. exact (sadd_not_zoo _ _ H).
Qed.

Lemma add_val_not_zoo cs ts d : Forall2 crel cs ts -> add_val cs d <> VZoo.
Proof.
  intros R H. destruct (crel_group_finite cs ts R) as [F1 F2]. unfold add_val in H.
  apply fold_sadd_zoo in H. destruct (dimensionless d); [|discriminate H].
  assert (Fq : finite_val (fold_left vadd (map fst (qtys_of cs)) (fold_left vadd (nums_of cs) (VQ 0))) = true).
  { apply fold_vadd_finite; [apply fold_vadd_finite; [reflexivity | exact F1] | exact F2]. }
  rewrite H in Fq. discriminate Fq.
Qed.

(* every term literally of any dimension for the inference: every collected term is zero *)
Lemma crel_all_any cs ts : Forall2 crel cs ts ->
  forallb (fun c => is_any (fst (entry_of c))) cs = true -> Forall (fun t => is_any (fst t) = true) ts.
Proof.
  induction 1 as [|c t cs ts R _ IH]; intros H; [constructor|]. cbn [forallb] in H.
  apply andb_true_iff in H as [H1 H2]. constructor; [apply R; exact H1 | apply IH; exact H2].
Qed.

Lemma diag_add l' : Forall diag l' -> diag (QAdd l').
Proof.
  intros IH e rv d Hi Hs HF He. inversion Hi as [| | | | |l ? Hl| | | |]; subst.
  assert (Fl : Forall Fin l') by (inversion HF; assumption).
  cbn [scopeb] in Hs. apply andb_true_iff in Hs as [Hs Hok]. apply andb_true_iff in Hs as [Hne Hsl].
  unfold sum_ok, all_terms_any in Hok. rewrite He in Hok.
  cbn [infer_e] in He. destruct (classify infer_e l) as [cs|k] eqn:Ec; [|discriminate He].
  destruct (unique_dim cs) as [d0|k] eqn:Eu; [|discriminate He]. injection He as Hrv Hd0. subst d0.
  destruct (children_rel l' IH l cs Hl Hsl Fl Ec) as [ts [Hts R]].
  pose proof (crel_finite _ _ R) as Fts.
  assert (Hne' : ts <> []) by (eapply crel_nonempty; [exact R | eapply classify_nonempty; eassumption]).
  destruct (sd_node comb_add l' ts cs d fin_any Hts R Eu
              (sd_val_add_total ts None (or_intror Hne')) comb_add_closed (fun x Hx => proj2 Hx)
              (fin_any_all ts Fts)) as [Wd [v [d' [Hc [Wd' Hd]]]]].
  split; [exact Wd|]. exists v, d'. cbn [collect]. split; [exact Hc|]. split; [exact Wd'|]. split; [exact Hd|].
  split.
  - intros Hany. rewrite Hany in Hok. cbn [negb orb] in Hok.
    apply (sd_go_ok_iff collect comb_add l' ts v d' Hts) in Hc as [_ [Hv _]].
    pose proof (crel_all_any cs ts R Hok) as Hall.
    exact (proj2 (sd_val_closed comb_add fin_any comb_add_closed ts None v I (fin_any_all ts Fts Hall) Hv)).
  - rewrite <- Hrv. eapply add_val_not_zoo. exact R.
Qed.

Lemma minmax_node g l' l rv d :
  (forall a b, comparable a = true -> comparable b = true -> comparable (g a b) = true) ->
  (forall a b, zero_q a -> zero_q b -> zero_q (g a b)) ->
  Forall diag l' -> Forall2 Inst l l' -> nonempty l = true -> forallb scopeb l = true ->
  Forall Fin l' -> Forall (fun t => value t <> VFloat0) l' ->
  match classify infer_e l with
  | Err k => Err k
  | Ok cs => match unique_dim cs with Err k => Err k | Ok d => Ok (VSym, d) end
  end = Ok (rv, d) ->
  wf_dim d /\
  exists v d', sd_go collect (cmp_comb g) None None dzero l' = Ok (v, d') /\ wf_dim d' /\
               (is_any v = true \/ deq d' d) /\ (is_any rv = true -> is_any v = true) /\ rv <> VZoo.
Proof.
  intros Hg Hz IH Hl Hne Hsl Fl Hnf He.
  destruct (classify infer_e l) as [cs|k] eqn:Ec; [|discriminate He].
  destruct (unique_dim cs) as [d0|k] eqn:Eu; [|discriminate He]. inversion He; subst d0 rv.
  destruct (children_rel l' IH l cs Hl Hsl Fl Ec) as [ts [Hts R]].
  pose proof (crel_finite _ _ R) as Fts.
  assert (Hne' : ts <> []) by (eapply crel_nonempty; [exact R | eapply classify_nonempty; eassumption]).
  assert (Hex : exists v, sd_val (cmp_comb g) None ts = Some v).
  { apply (sd_val_cmp_none g Hg). split; [exact Hne'|]. intros _.
    unfold all_comparable. eapply Forall_impl; [|exact Fts]. intros t Ht. apply finite_comparable. exact Ht. }
  destruct (sd_node (cmp_comb g) l' ts cs d zero_q Hts R Eu Hex (cmp_comb_closed g zero_q Hz) zero_q_any
              (zero_q_all ts Fts (map_res_no_float0 l' ts Hts Hnf))) as [Wd [v [d' [Hc [Wd' Hd]]]]].
  split; [exact Wd|]. exists v, d'. repeat split; auto; discriminate.
Qed.

Lemma diag_min l' : Forall diag l' -> diag (QMin l').
Proof.
  intros IH e rv d Hi Hs HF He. inversion Hi as [| | | | | | |l ? Hl| |]; subst.
  inversion HF as [| | | | | | |? Fl Hnf Ff| |]; subst.
  cbn [scopeb] in Hs. apply andb_true_iff in Hs as [Hne Hsl]. cbn [infer_e] in He. cbn [collect].
  rewrite comb_min_cmp. eapply minmax_node; eauto using vmin_comparable, vmin_zero_q.
Qed.

Lemma diag_max l' : Forall diag l' -> diag (QMax l').
Proof.
  intros IH e rv d Hi Hs HF He. inversion Hi as [| | | | | | | |l ? Hl|]; subst.
  inversion HF as [| | | | | | | |? Fl Hnf Ff|]; subst.
  cbn [scopeb] in Hs. apply andb_true_iff in Hs as [Hne Hsl]. cbn [infer_e] in He. cbn [collect].
  rewrite comb_max_cmp. eapply minmax_node; eauto using vmax_comparable, vmax_zero_q.
Qed.

(* ---- powers: when the returned power is literally 0 / oo / nan / zoo ------------------------------ *)
Lemma qzero_power_inv x n : qzero (Qpower x n) = true -> qzero x = true.
Proof.
  intros H. destruct (qzero x) eqn:E; [reflexivity | exfalso]. unfold qzero in *.
  apply Qeq_bool_iff in H. apply (Qpower_not_0 x n); [|exact H].
  intros Hx. apply Qeq_bool_iff in Hx. congruence.
Qed.

Lemma qred_frac_zero a b : qzero (Qred (a # b)) = true -> a = 0%Z.
Proof.
  rewrite Qred_zero. unfold qzero. rewrite Qeq_bool_iff. unfold Qeq. cbn. lia.
Qed.

Lemma qsqrt_zero_inv x r : qsqrt_exact x = Some r -> qzero r = true -> qzero x = true.
Proof.
  unfold qsqrt_exact. cbv zeta. destruct (Qnum (Qred x) <? 0)%Z; [discriminate|].
  remember (Z.sqrt (Qnum (Qred x))) as sn eqn:Hsn.
  remember (Z.to_pos (Z.sqrt (Z.pos (Qden (Qred x))))) as sd eqn:Hsd.
  destruct ((sn * sn =? Qnum (Qred x))%Z && _) eqn:E; [|discriminate].
  intros H Hr. assert (Hr' : qzero (Qred (sn # sd)) = true) by congruence.
  apply qred_frac_zero in Hr'. apply andb_true_iff in E as [E _]. apply Z.eqb_eq in E.
  unfold qzero. apply Qeq_bool_iff. rewrite <- (Qred_correct x). unfold Qeq. cbn. lia.
Qed.

Lemma vpow_any_inv bv q : is_any (vpow bv (VQ q)) = true -> is_any bv = true.
Proof.
  destruct bv as [x| | | | | | |]; try reflexivity; cbn [vpow]; intros H.
  - change (is_any (VQ x)) with (qzero x). destruct (qzero q); [discriminate H|].
    destruct (Qeq_bool x 1); [discriminate H|]. destruct (is_int q).
    + destruct (qzero x) eqn:Ex; [reflexivity|]. cbn [andb] in H.
      change (qzero (Qred (Qpower x (Qfloor q))) = true) in H. rewrite Qred_zero in H.
      rewrite (qzero_power_inv _ _ H) in Ex. discriminate Ex.
    + destruct (Qeq_bool (q * 2) (inject_Z (Qfloor (q * 2)))).
      * destruct (qsqrt_exact x) as [r|] eqn:Er; [|discriminate H].
        destruct (qzero r) eqn:Ez; [exact (qsqrt_zero_inv x r Er Ez)|]. cbn [andb] in H.
        change (qzero (Qred (Qpower r (Qfloor (q * 2)))) = true) in H. rewrite Qred_zero in H.
        rewrite (qzero_power_inv _ _ H) in Ez. discriminate Ez.
      * destruct (qzero x); [reflexivity | discriminate H].
  - destruct (qzero q); discriminate H.
  - destruct (qzero q); discriminate H.
  - destruct (qzero q); discriminate H.
Qed.

Lemma vpow_zoo_inv bv q : vpow bv (VQ q) = VZoo -> is_any bv = true /\ (Qnum q <? 0)%Z = true.
Proof.
  destruct bv as [x| | | | | | |]; cbn [vpow]; intros H; try (destruct (qzero q); discriminate H).
  - change (is_any (VQ x)) with (qzero x). destruct (qzero q); [discriminate H|].
    destruct (Qeq_bool x 1); [discriminate H|]. destruct (is_int q).
    + destruct (qzero x); [|discriminate H]. destruct (Qnum q <? 0)%Z; [split; reflexivity | discriminate H].
    + destruct (Qeq_bool (q * 2) (inject_Z (Qfloor (q * 2)))).
      * destruct (qsqrt_exact x) as [r|] eqn:Er; [|discriminate H].
        destruct (qzero r) eqn:Ez; [|discriminate H]. destruct (Qnum q <? 0)%Z; [|discriminate H].
        split; [exact (qsqrt_zero_inv x r Er Ez) | reflexivity].
      * destruct (qzero x); [|discriminate H]. destruct (Qnum q <? 0)%Z; [split; reflexivity | discriminate H].
  - destruct (qzero q); [discriminate H|]. destruct (Qnum q <? 0)%Z; [split; reflexivity | discriminate H].
  - destruct (qzero q); [discriminate H|]. destruct (Qnum q <? 0)%Z; discriminate H.
  - destruct (qzero q); [discriminate H|]. destruct (Qnum q <? 0)%Z; [discriminate H|].
    destruct (is_int q); [destruct (Z.even _)|]; discriminate H.
Qed.

Lemma qnum_neg_nonzero q : (Qnum q <? 0)%Z = true -> qzero q = false.
Proof.
  intros H. apply Z.ltb_lt in H. unfold qzero. destruct (Qeq_bool q 0) eqn:E; [|reflexivity].
  apply Qeq_bool_iff in E. unfold Qeq in E. cbn in E. lia.
Qed.

Lemma vpow_zero_neg bf q : finite_val bf = true -> is_any bf = true -> (Qnum q <? 0)%Z = true ->
  vpow bf (VQ q) = VZoo.
Proof.
  intros Fb Hb Hq. pose proof (qnum_neg_nonzero q Hq) as Hq0.
  destruct bf as [x| | | | | | |]; try discriminate Fb; try discriminate Hb; cbn [vpow]; rewrite Hq0.
  - change (qzero x = true) in Hb. assert (Hx : x == 0) by (apply Qeq_bool_iff; exact Hb).
    assert (H1 : Qeq_bool x 1 = false).
    { destruct (Qeq_bool x 1) eqn:E; [|reflexivity]. apply Qeq_bool_iff in E. rewrite Hx in E. discriminate E. }
    rewrite H1, Hb, Hq. cbn [andb]. rewrite (qsqrt_exact_zero x Hx).
    change (qzero 0) with true. cbn [andb].
    destruct (is_int q); [reflexivity|]. destruct (Qeq_bool (q * 2) _); reflexivity.
  - rewrite Hq. reflexivity.
Qed.

Lemma dimensionless_dzero : dimensionless dzero = true.
Proof. reflexivity. Qed.

Lemma diag_pow b' x' : diag b' -> diag (QPow b' x').
Proof.
  intros IH e rv d Hi Hs HF He. inversion Hi as [| | | |b x ? ? Hb Hx| | | | |]; subst.
  inversion HF as [| | | |? ? Fb Fx Ff| | | | |]; subst.
  cbn [scopeb] in Hs. apply andb_true_iff in Hs as [Hsb Hlit].
  destruct x as [xv| | | | | | | | | | |]; try discriminate Hlit. destruct xv as [q| | | | | | |]; try discriminate Hlit.
  inversion Hx; subst.
  cbn [infer_e] in He. rewrite dimensionless_dzero in He. cbn [negb] in He. rewrite andb_false_r in He.
  destruct (infer_e b) as [[bv bd]|k] eqn:Eb; [|discriminate He].
  destruct (dim_pow_expr bd (VQ q)) as [dd|] eqn:Ed; [|discriminate He]. injection He as Hrv' Hdd. subst dd.
  assert (Hcase : rv = VSym \/ rv = vpow bv (VQ q)) by (rewrite <- Hrv'; destruct bv; auto).
  clear Hrv'.
  destruct (IH b bv bd Hb Hsb Fb Eb) as [Wbd [bf [bd' [Hc [Wbd' [Hd [Hany3 _]]]]]]].
  change (dim_pow_val bd (VQ q) = Some d) in Ed.
  destruct (dim_pow_val_spec bd (VQ q) d Wbd Ed) as [Wd Dd]. split; [exact Wd|].
  destruct (dim_pow_val bd' (VQ q)) as [d'|] eqn:Ed'.
  2:{ unfold dim_pow_val in Ed'. destruct (dimensionless bd'); discriminate Ed'. }
  destruct (dim_pow_val_spec bd' (VQ q) d' Wbd' Ed') as [Wd' Dd'].
  pose proof (collect_value b' bf bd' Hc) as Hbf.
  assert (Fbf : finite_val bf = true) by (rewrite Hbf; apply Fin_finite; exact Fb).
  cbn [value] in Ff. rewrite <- Hbf in Ff.
  exists (vpow bf (VQ q)), d'. cbn [collect]. rewrite Hc. cbn [is_number].
  rewrite dimensionless_dzero, orb_true_r, Ed'.
  split; [reflexivity|]. split; [exact Wd'|]. split; [|split].
  - destruct Hd as [Hd|Hd].
    + destruct (qzero q) eqn:Eq.
      * right. assert (Hq : q == 0) by (apply Qeq_bool_iff; exact Eq).
        eapply deq_trans; [exact Dd'|]. eapply deq_trans; [apply dpow0_wf; assumption|].
        apply deq_sym. eapply deq_trans; [exact Dd | apply dpow0_wf; assumption].
      * left. apply vpow_zero_base; auto.
    + right. eapply deq_trans; [exact Dd'|]. apply deq_sym. eapply deq_trans; [exact Dd|].
      apply dpow_deq; [apply deq_sym; exact Hd | reflexivity].
  - intros Hany. destruct Hcase as [Hc1|Hc1]; rewrite Hc1 in Hany; [discriminate Hany|].
    pose proof (vpow_any_inv bv q Hany) as Hbv.
    destruct (qzero q) eqn:Eq.
    + exfalso. destruct bv; cbn [vpow] in Hany; try rewrite Eq in Hany; vm_compute in Hany; discriminate Hany.
    + apply vpow_zero_base; auto.
  - intros Hz. destruct Hcase as [Hz'|Hz']; rewrite Hz in Hz'; [discriminate Hz'|].
    symmetry in Hz'. apply vpow_zoo_inv in Hz' as [Hbv Hneg].
    rewrite (vpow_zero_neg bf q Fbf (Hany3 Hbv) Hneg) in Ff. discriminate Ff.
Qed.

(* ================================================================================================ *)
(* The theorem                                                                                       *)
(* ================================================================================================ *)
Theorem diag_all : forall q, diag q.
Proof.
  induction q as [v0|v0 d0|v0|l IH|b x IHb IHx|l IH|a IHa|l IH|l IH|ov l IH|] using qexpr_ind2.
  - apply diag_num.
  - apply diag_qty.
  - intros e rv d Hi. inversion Hi.
  - apply diag_mul; exact IH.
  - apply diag_pow; exact IHb.
  - apply diag_add; exact IH.
  - apply diag_abs; exact IHa.
  - apply diag_min; exact IH.
  - apply diag_max; exact IH.
  - apply diag_fun; exact IH.
  - intros e rv d Hi. inversion Hi.
Qed.

(* whenever inference succeeds on an expression in scope, building a quantity from any instantiation of its
   symbols by non-zero quantities of the declared dimensions (finite sub-values) is never refused, and the quantity
   has the inferred dimension -- unless its value is 0, which is compatible with every dimension *)
Theorem infer_then_collect : forall e q rv d,
  scopeb e = true -> Inst e q -> Fin q -> infer_e e = Ok (rv, d) ->
  exists v d', collect q = Ok (v, d') /\ v = value q /\ finite_val v = true /\ wf_dim d /\ wf_dim d' /\
               (is_any v = true \/ deq d' d).
Proof.
  intros e q rv d Hs Hi HF He.
  destruct (diag_all q e rv d Hi Hs HF He) as [Wd [v [d' [Hc [Wd' [Hd _]]]]]].
  pose proof (collect_value q v d' Hc) as Hv.
  exists v, d'. repeat split; auto. rewrite Hv. apply Fin_finite. exact HF.
Qed.

(* corollaries in the vocabulary of the task statement *)
Corollary infer_then_collect_erased : forall e q rv d,
  scopeb e = true -> Inst e q -> Fin q -> infer_e e = Ok (rv, d) ->
  exists v d', collect q = Ok (v, d') /\ (is_any v = true \/ deq (erase_angle d) (erase_angle d')).
Proof.
  intros e q rv d Hs Hi HF He.
  destruct (infer_then_collect e q rv d Hs Hi HF He) as [v [d' [Hc [_ [_ [_ [_ Hd]]]]]]].
  exists v, d'. split; [exact Hc|]. destruct Hd as [Hd|Hd]; [left; exact Hd | right].
  apply erase_angle_deq, deq_sym. exact Hd.
Qed.

(* the quantity constructor itself (Quantity(expr)) succeeds with that dimension *)
Corollary infer_then_quantity : forall e q rv d,
  scopeb e = true -> Inst e q -> Fin q -> infer_e e = Ok (rv, d) ->
  exists v d', quantity_ctor q None = Ok (v, d') /\ (is_any v = true \/ equivalent_dims d' d = true).
Proof.
  intros e q rv d Hs Hi HF He.
  destruct (infer_then_collect e q rv d Hs Hi HF He) as [v [d' [Hc [_ [Fv [_ [_ Hd]]]]]]].
  exists v, d'. split.
  - apply (proj1 (quantity_ctor_spec q None)); [exact Hc|]. destruct v; try discriminate Fv; reflexivity.
  - destruct Hd as [Hd|Hd]; [left; exact Hd | right; apply deqb_deq; exact Hd].
Qed.

(* ================================================================================================ *)
(* Non-vacuity and sharpness                                                                         *)
(* ================================================================================================ *)
Definition d_mass : dim := base 1.

(* 2 x^2 + (0 s) m + |x (-3 m)| + f(t / (4 s)) Max((1 m)^2, x y)        x, y : length, m : mass, t : time *)
Definition ex_e : sexpr :=
  SAdd [ SMul [SNum (VQ 2); SPow (SDimSym d_length) (SNum (VQ 2))];
         SMul [SQty (VQ 0) d_time; SDimSym d_mass];
         SAbs (SMul [SDimSym d_length; SQty (VQ (-3)) d_length]);
         SMul [SFun dzero [SMul [SDimSym d_time; SPow (SQty (VQ 4) d_time) (SNum (VQ (-1)))]];
               SMax [SPow (SQty (VQ 1) d_length) (SNum (VQ 2)); SMul [SDimSym d_length; SDimSym d_length]]] ].

(* x := 5 m (first occurrence), 1/2 m, 7 m ; m := 11 kg ; t := 2 s ; y := 3 m ; f(1/2) = 9 *)
Definition ex_q : qexpr :=
  QAdd [ QMul [QNum (VQ 2); QPow (QQty (VQ 5) d_length) (QNum (VQ 2))];
         QMul [QQty (VQ 0) d_time; QQty (VQ 11) d_mass];
         QAbs (QMul [QQty (VQ (1#2)) d_length; QQty (VQ (-3)) d_length]);
         QMul [QFun (VQ 9) [QMul [QQty (VQ 2) d_time; QPow (QQty (VQ 4) d_time) (QNum (VQ (-1)))]];
               QMax [QPow (QQty (VQ 1) d_length) (QNum (VQ 2)); QMul [QQty (VQ 7) d_length; QQty (VQ 3) d_length]]] ].

Example ex_scope : scopeb ex_e = true.
Proof. vm_compute. reflexivity. Qed.

Example ex_inst : Inst ex_e ex_q.
Proof. unfold ex_e, ex_q. repeat (first [ apply Forall2_nil | apply Forall2_cons | constructor | reflexivity ]). Qed.

Example ex_fin : Fin ex_q.
Proof.
  unfold ex_q.
  repeat (first [ apply Forall_nil | apply Forall_cons | constructor
                | (vm_compute; reflexivity) | discriminate ]).
Qed.

Example ex_values :
  match infer_e ex_e, collect ex_q with
  | Ok (rv, d), Ok (v, d') =>
      deqb d (dpow d_length 2) && deqb d' d && negb (is_any v) && val_eqb v (VQ (481 # 2))
  | _, _ => false
  end = true.
Proof. vm_compute. reflexivity. Qed.

(* the theorem applies to it *)
Example ex_applies : exists v d', collect ex_q = Ok (v, d') /\ (is_any v = true \/ deq d' (dpow d_length 2)).
Proof.
  destruct (infer_e ex_e) as [[rv d]|k] eqn:E; [|vm_compute in E; discriminate E].
  destruct (infer_then_collect ex_e ex_q rv d ex_scope ex_inst ex_fin E) as [v [d' [Hc [_ [_ [_ [_ Hd]]]]]]].
  exists v, d'. split; [exact Hc|]. destruct Hd as [Hd|Hd]; [left; exact Hd | right].
  eapply deq_trans; [exact Hd|]. apply deqb_deq. vm_compute in E. inversion E; subst. vm_compute. reflexivity.
Qed.

(* ---- hypotheses that cannot be dropped ------------------------------------------------------------ *)

(* (a) the exponent must be a literal rational: Min(0 m)^pi is inferred (dimensionless: a zero fixes no
       dimension) but refused by the quantity construction (the collected base keeps its length) *)
Example exponent_must_be_rational :
  let e := SPow (SMin [SQty (VQ 0) d_length]) (SNum VOther) in
  let q := QPow (QMin [QQty (VQ 0) d_length]) (QNum VOther) in
  Inst e q /\ Fin q /\ infer_e e = Ok (VSym, dzero) /\ collect q = Err E_UNSUPPORTED.
Proof.
  cbv zeta. split; [|split; [|split; vm_compute; reflexivity]].
  - repeat (first [ apply Forall2_nil | apply Forall2_cons | constructor | reflexivity ]).
  - repeat (first [ apply Forall_nil | apply Forall_cons | constructor | (vm_compute; reflexivity) | discriminate ]).
Qed.

(* (b) function arguments must be dimensionless: the inference only asks them to be inferable *)
Example function_arguments_dimensionless :
  let e := SFun dzero [SDimSym d_length] in
  let q := QFun (VQ 1) [QQty (VQ 5) d_length] in
  Inst e q /\ Fin q /\ infer_e e = Ok (VSym, dzero) /\ collect q = Err E_VALUE.
Proof.
  cbv zeta. split; [|split; [|split; vm_compute; reflexivity]].
  - repeat (first [ apply Forall2_nil | apply Forall2_cons | constructor | reflexivity ]).
  - repeat (first [ apply Forall_nil | apply Forall_cons | constructor | (vm_compute; reflexivity) | discriminate ]).
Qed.

(* (c) finite values: with an infinite scale factor the collected dimension of a product drops what was
       collected so far; the quantity is VOther (not of any dimension) and dimensionless, the inference says time *)
Example values_must_be_finite :
  let e := SMul [SQty VPInf d_length; SQty (VQ 1) d_time; SNum VOther] in
  let q := QMul [QQty VPInf d_length; QQty (VQ 1) d_time; QNum VOther] in
  scopeb e = true /\ Inst e q /\ infer_e e = Ok (VSym, d_time) /\ collect q = Ok (VOther, dzero) /\
  is_any VOther = false /\ deqb dzero d_time = false.
Proof.
  cbv zeta. split; [vm_compute; reflexivity|]. split; [|repeat split; vm_compute; reflexivity].
  repeat (first [ apply Forall2_nil | apply Forall2_cons | constructor | reflexivity ]).
Qed.

(* (d) no literal Float(0.0) under Min/Max (a clause of Fin; the model's Min(0.0, 0) is the coarse VOther) *)
Example no_float0_under_min :
  let e := SMin [SNum VFloat0; SQty (VQ 0) d_length] in
  let q := QMin [QNum VFloat0; QQty (VQ 0) d_length] in
  scopeb e = true /\ Inst e q /\ infer_e e = Ok (VSym, dzero) /\ collect q = Ok (VOther, d_length) /\
  deqb d_length dzero = false.
Proof.
  cbv zeta. split; [vm_compute; reflexivity|]. split; [|repeat split; vm_compute; reflexivity].
  repeat (first [ apply Forall2_nil | apply Forall2_cons | constructor | reflexivity ]).
Qed.

(* (e) argument lists are non-empty (SymPy never builds Add() / Mul() nodes) *)
Example empty_nodes_differ :
  infer_e (SAdd []) = Ok (VQ 0, dzero) /\ collect (QAdd []) = Err E_OTHER /\
  infer_e (SMul []) = Ok (VQ 1, dzero) /\ collect (QMul []) = Err E_OTHER.
Proof. repeat split; vm_compute; reflexivity. Qed.

(* (f) covered since sums whose terms are ALL literally zero are in scope: ((0 m) k + (0 s) x) + ((0 m) t)^2 + k *)
Definition ex2_e : sexpr :=
  SAdd [ SAdd [SMul [SQty (VQ 0) d_length; SDimSym d_mass]; SMul [SQty (VQ 0) d_time; SDimSym d_length]];
         SPow (SMul [SQty (VQ 0) d_length; SDimSym d_time]) (SNum (VQ 2));
         SDimSym d_mass ].
Definition ex2_q : qexpr :=
  QAdd [ QAdd [QMul [QQty (VQ 0) d_length; QQty (VQ 3) d_mass]; QMul [QQty (VQ 0) d_time; QQty (VQ 5) d_length]];
         QPow (QMul [QQty (VQ 0) d_length; QQty (VQ 2) d_time]) (QNum (VQ 2));
         QQty (VQ 4) d_mass ].

Example ex2_in_scope :
  scopeb ex2_e = true /\ Inst ex2_e ex2_q /\ Fin ex2_q /\
  infer_e ex2_e = Ok (VSym, d_mass) /\ collect ex2_q = Ok (VQ 4, d_mass).
Proof.
  split; [vm_compute; reflexivity|]. split; [|split; [|split; vm_compute; reflexivity]].
  - unfold ex2_e, ex2_q. repeat (first [ apply Forall2_nil | apply Forall2_cons | constructor | reflexivity ]).
  - unfold ex2_q.
    repeat (first [ apply Forall_nil | apply Forall_cons | constructor | (vm_compute; reflexivity) | discriminate ]).
Qed.

(* ---- what is NOT covered ---------------------------------------------------------------------------- *)

(* The scope clause `sum_ok` excludes sums whose returned expression cancels to a literal 0 although not every
   term is literally 0, e.g. (1 rad-free) + (-1): the conclusion still holds on such inputs (below), but proving
   it needs the two models' arithmetic (different grouping, Qred) to agree on whole numeric sub-trees; that is
   done in the last part of this file (infer_then_collect_full). *)
Example cancelling_sum_out_of_scope :
  let e := SAdd [SAdd [SQty (VQ 1) dzero; SNum (VQ (-1))]; SDimSym d_length] in
  let q := QAdd [QAdd [QQty (VQ 1) dzero; QNum (VQ (-1))]; QQty (VQ 2) d_length] in
  scopeb e = false /\ infer_e e = Ok (VSym, d_length) /\ collect q = Ok (VQ 2, d_length).
Proof. cbv zeta. repeat split; vm_compute; reflexivity. Qed.

Fixpoint scopeb_full (e : sexpr) : bool :=
  match e with
  | SNum _ => true
  | SQty _ d => wf_dimb d
  | SDimSym d => wf_dimb d
  | SPlain => false
  | SMul l => nonempty l && forallb scopeb_full l
  | SPow b x => scopeb_full b && match x with SNum (VQ _) => true | _ => false end
  | SAdd l => nonempty l && forallb scopeb_full l
  | SAbs a => scopeb_full a
  | SMin l => nonempty l && forallb scopeb_full l
  | SMax l => nonempty l && forallb scopeb_full l
  | SFun d l => wf_dimb d && dimensionless d && forallb scopeb_full l && forallb infers_dimensionless l
  | SDeriv _ _ _ => false
  end.

(* infer_then_collect without the `sum_ok` clause; proved below as infer_then_collect_full *)
Definition infer_then_collect_full_statement : Prop :=
  forall e q rv d,
    scopeb_full e = true -> Inst e q -> Fin q -> infer_e e = Ok (rv, d) ->
    exists v d', collect q = Ok (v, d') /\ v = value q /\ finite_val v = true /\ wf_dim d /\ wf_dim d' /\
                 (is_any v = true \/ deq d' d).

Print Assumptions infer_then_collect.
Print Assumptions infer_then_collect_erased.
Print Assumptions infer_then_quantity.
Print Assumptions ex_applies.


(* ================================================================================================ *)
(* Closing the gap: the two models' arithmetic agrees on numeric sub-trees                           *)
(* ================================================================================================ *)

(* finite values abstracted to  Some q (an exact rational; Float(0.0) is 0)  |  None (VOther: an unknown
   non-zero number) *)
Definition qa (v : val) : option Q :=
  match v with VQ x => Some x | VFloat0 => Some 0 | _ => None end.

Definition oeq (a b : option Q) : Prop :=
  match a, b with Some x, Some y => x == y | None, None => True | _, _ => False end.

Lemma oeq_refl a : oeq a a.
Proof. destruct a; cbn; [reflexivity | exact I]. Qed.
Lemma oeq_sym a b : oeq a b -> oeq b a.
Proof. destruct a, b; cbn; auto. intros H; symmetry; exact H. Qed.
Lemma oeq_trans a b c : oeq a b -> oeq b c -> oeq a c.
Proof. destruct a, b, c; cbn; try tauto. intros H1 H2. rewrite H1. exact H2. Qed.

Lemma veq_qa a b : finite_val a = true -> finite_val b = true -> (val_eqb a b = true <-> oeq (qa a) (qa b)).
Proof.
  destruct a as [x| | | | | | |], b as [y| | | | | | |]; intros Fa Fb; try discriminate Fa; try discriminate Fb;
    cbn [val_eqb qa oeq]; unfold qzero; rewrite ?Qeq_bool_iff; try tauto; try (split; [intros _; reflexivity | reflexivity]);
    try (split; intros H; [discriminate H | contradiction]).
  split; intros H; symmetry; exact H.
Qed.

(* a generic commutative monoid up to oeq: folds do not depend on the order *)
Section OFold.
  Variable op : option Q -> option Q -> option Q.
  Variable e : option Q.
  Hypothesis op_cong : forall a a' b b', oeq a a' -> oeq b b' -> oeq (op a b) (op a' b').
  Hypothesis op_comm : forall a b, oeq (op a b) (op b a).
  Hypothesis op_assoc : forall a b c, oeq (op (op a b) c) (op a (op b c)).
  Hypothesis op_unit : forall a, oeq (op e a) a.

  Definition ofold (l : list (option Q)) : option Q := fold_right op e l.

  Lemma ofold_perm l l' : Permutation l l' -> oeq (ofold l) (ofold l').
  Proof.
    induction 1 as [|x l l' _ IH|x y l|l l' l'' _ IH1 _ IH2]; cbn [ofold fold_right].
    - apply oeq_refl.
    - apply op_cong; [apply oeq_refl | exact IH].
    - fold (ofold l). eapply oeq_trans; [apply oeq_sym, op_assoc|].
      eapply oeq_trans; [apply op_cong; [apply op_comm | apply oeq_refl]|]. apply op_assoc.
    - eapply oeq_trans; eassumption.
  Qed.

  Lemma ofold_cong l l' : Forall2 oeq l l' -> oeq (ofold l) (ofold l').
  Proof. induction 1 as [|x y l l' Hxy _ IH]; cbn [ofold fold_right]; [apply oeq_refl | apply op_cong; assumption]. Qed.

  Lemma ofold_app l1 l2 : oeq (ofold (l1 ++ l2)) (op (ofold l1) (ofold l2)).
  Proof.
    induction l1 as [|x r IH]; cbn [app ofold fold_right].
    - apply oeq_sym, op_unit.
    - fold (ofold (r ++ l2)). fold (ofold r).
      eapply oeq_trans; [apply op_cong; [apply oeq_refl | exact IH]|]. apply oeq_sym, op_assoc.
  Qed.

  (* a left fold of a homomorphic value-level operation *)
  Variable f : val -> val -> val.
  Hypothesis f_fin : forall a b, finite_val a = true -> finite_val b = true -> finite_val (f a b) = true.
  Hypothesis f_hom : forall a b, finite_val a = true -> finite_val b = true -> oeq (qa (f a b)) (op (qa a) (qa b)).

  Lemma fold_left_hom vs : forall a, finite_val a = true -> Forall (fun v => finite_val v = true) vs ->
    oeq (qa (fold_left f vs a)) (op (qa a) (ofold (map qa vs))).
  Proof.
    induction vs as [|v r IH]; intros a Fa Fv; cbn [fold_left map ofold fold_right].
    - apply oeq_sym. eapply oeq_trans; [apply op_comm | apply op_unit].
    - inversion Fv as [|? ? Fv0 Fr]; subst. fold (ofold (map qa r)).
      eapply oeq_trans; [apply IH; [apply f_fin; assumption | exact Fr]|].
      eapply oeq_trans; [apply op_cong; [apply f_hom; assumption | apply oeq_refl]|]. apply op_assoc.
  Qed.

  (* the in-order fold of the collected values agrees with the fold, from the unit, of any permutation of
     values that are elementwise equal to them *)
  Variable e0 : val.
  Hypothesis e0_fin : finite_val e0 = true.
  Hypothesis e0_unit : qa e0 = e.

  Lemma fold_agree p r ve G :
    Forall (fun v => finite_val v = true) (p :: r) -> Forall (fun v => finite_val v = true) G ->
    Forall2 (fun a b => oeq (qa a) (qa b)) ve (p :: r) -> Permutation ve G ->
    oeq (qa (fold_left f G e0)) (qa (fold_left f r p)).
  Proof.
    intros Ft FG Hve HP. pose proof (Forall_inv Ft) as Fp. pose proof (Forall_inv_tail Ft) as Fr. cbn beta in Fp.
    eapply oeq_trans; [apply fold_left_hom; [exact e0_fin | exact FG]|]. rewrite e0_unit.
    eapply oeq_trans; [apply op_unit|].
    eapply oeq_trans; [apply ofold_perm, Permutation_map, Permutation_sym; exact HP|].
    eapply oeq_trans; [apply ofold_cong with (l' := map qa (p :: r))|].
    - clear - Hve. induction Hve; cbn [map]; constructor; assumption.
    - apply oeq_sym. apply fold_left_hom; assumption.
  Qed.
End OFold.

(* ---- sums ------------------------------------------------------------------------------------------ *)
Definition oplus (a b : option Q) : option Q :=
  match a, b with Some x, Some y => Some (x + y) | _, _ => None end.

Lemma oplus_cong a a' b b' : oeq a a' -> oeq b b' -> oeq (oplus a b) (oplus a' b').
Proof. destruct a, a', b, b'; cbn; try tauto. intros H1 H2. rewrite H1, H2. reflexivity. Qed.
Lemma oplus_comm a b : oeq (oplus a b) (oplus b a).
Proof. destruct a, b; cbn; auto. ring. Qed.
Lemma oplus_assoc a b c : oeq (oplus (oplus a b) c) (oplus a (oplus b c)).
Proof. destruct a, b, c; cbn; auto. ring. Qed.
Lemma oplus_unit a : oeq (oplus (Some 0) a) a.
Proof. destruct a; cbn; auto. ring. Qed.

Lemma vadd_hom a b : finite_val a = true -> finite_val b = true -> oeq (qa (vadd a b)) (oplus (qa a) (qa b)).
Proof.
  destruct a as [x| | | | | | |], b as [y| | | | | | |]; intros Fa Fb; try discriminate Fa; try discriminate Fb;
    cbn [vadd qa oplus oeq]; auto; try rewrite Qred_correct; try ring.
Qed.

(* ---- products: None is an unknown NON-ZERO number, so 0 * None = 0 ----------------------------------- *)
Definition omul (a b : option Q) : option Q :=
  match a, b with
  | Some x, Some y => Some (x * y)
  | Some x, None | None, Some x => if Qeq_bool x 0 then Some 0 else None
  | None, None => None
  end.

Lemma Qeq_bool_comp x y : x == y -> Qeq_bool x 0 = Qeq_bool y 0.
Proof.
  intros H. destruct (Qeq_bool x 0) eqn:E, (Qeq_bool y 0) eqn:F; try reflexivity.
  - apply Qeq_bool_iff in E. rewrite H in E. apply Qeq_bool_iff in E. congruence.
  - apply Qeq_bool_iff in F. rewrite <- H in F. apply Qeq_bool_iff in F. congruence.
Qed.

Lemma omul_cong a a' b b' : oeq a a' -> oeq b b' -> oeq (omul a b) (omul a' b').
Proof.
  destruct a as [x|], a' as [x'|], b as [y|], b' as [y'|]; cbn [oeq omul]; try tauto; intros H1 H2.
  - rewrite H1, H2. reflexivity.
  - rewrite (Qeq_bool_comp x x' H1). apply oeq_refl.
  - rewrite (Qeq_bool_comp y y' H2). apply oeq_refl.
Qed.

Lemma omul_comm a b : oeq (omul a b) (omul b a).
Proof. destruct a, b; cbn [omul]; try apply oeq_refl. cbn. ring. Qed.

Lemma omul_unit a : oeq (omul (Some 1) a) a.
Proof. destruct a; cbn; auto. ring. Qed.

Lemma Qeq_bool_mul x y : Qeq_bool (x * y) 0 = Qeq_bool x 0 || Qeq_bool y 0.
Proof.
  change (qzero (x * y) = qzero x || qzero y).
  destruct (qzero x) eqn:Ex; [cbn; apply qzero_mul_l; exact Ex|].
  destruct (qzero y) eqn:Ey; cbn.
  - unfold qzero in *. apply Qeq_bool_iff. apply Qeq_bool_iff in Ey. rewrite Ey. ring.
  - apply qzero_mul_false; assumption.
Qed.

Ltac ofin :=
  cbn [orb omul oeq]; rewrite ?Qeq_bool_mul;
  repeat (match goal with H : Qeq_bool ?x 0 = _ |- context [Qeq_bool ?x 0] => rewrite H end; cbn [orb omul oeq]);
  try exact I; try reflexivity;
  repeat match goal with H : Qeq_bool ?x 0 = true |- _ => apply Qeq_bool_iff in H; try rewrite H end;
  try ring.

Lemma omul_assoc a b c : oeq (omul (omul a b) c) (omul a (omul b c)).
Proof.
  destruct a as [x|], b as [y|], c as [z|]; cbn [omul].
  - cbn. ring.
  - destruct (Qeq_bool x 0) eqn:Ex, (Qeq_bool y 0) eqn:Ey; ofin.
  - destruct (Qeq_bool x 0) eqn:Ex, (Qeq_bool z 0) eqn:Ez; ofin.
  - destruct (Qeq_bool x 0) eqn:Ex; ofin.
  - destruct (Qeq_bool y 0) eqn:Ey, (Qeq_bool z 0) eqn:Ez; ofin.
  - destruct (Qeq_bool y 0) eqn:Ey; ofin.
  - destruct (Qeq_bool z 0) eqn:Ez; ofin.
  - exact I.
Qed.

Lemma vmul_hom a b : finite_val a = true -> finite_val b = true -> oeq (qa (vmul a b)) (omul (qa a) (qa b)).
Proof.
  destruct a as [x| | | | | | |], b as [y| | | | | | |]; intros Fa Fb; try discriminate Fa; try discriminate Fb;
    cbn [vmul qa omul]; unfold qzero;
    try (destruct (Qeq_bool x 0) eqn:Ex); try (destruct (Qeq_bool y 0) eqn:Ey); cbn [qa oeq];
    auto; try rewrite Qred_correct; try reflexivity; try ring.
Qed.

Definition vmul_agree := fold_agree omul (Some 1) omul_cong omul_comm omul_assoc omul_unit vmul vmul_finite vmul_hom
                           (VQ 1) eq_refl eq_refl.
Definition vadd_agree := fold_agree oplus (Some 0) oplus_cong oplus_comm oplus_assoc oplus_unit vadd vadd_finite vadd_hom
                           (VQ 0) eq_refl eq_refl.

(* ---- val_eqb on (finite) values ------------------------------------------------------------------------ *)
Lemma veq_refl v : val_eqb v v = true.
Proof. destruct v; cbn; try reflexivity. apply Qeq_bool_iff. reflexivity. Qed.

Lemma veq_finite_l a b : val_eqb a b = true -> finite_val b = true -> finite_val a = true.
Proof. destruct a, b; cbn; intros H F; try discriminate; reflexivity. Qed.

Lemma veq_any a b : val_eqb a b = true -> finite_val b = true -> is_any a = true -> is_any b = true.
Proof.
  destruct a as [x| | | | | | |], b as [y| | | | | | |]; cbn [val_eqb finite_val is_any]; intros H F Ha;
    try discriminate; try reflexivity; try exact H.
  unfold qzero in *. apply Qeq_bool_iff in H. apply Qeq_bool_iff in Ha. apply Qeq_bool_iff. rewrite <- H. exact Ha.
Qed.

Lemma fin_any_veq a b : fin_any a -> fin_any b -> val_eqb a b = true.
Proof.
  intros [Fa Ha] [Fb Hb]. apply veq_qa; [assumption | assumption|].
  destruct a as [x| | | | | | |], b as [y| | | | | | |]; try discriminate Fa; try discriminate Fb;
    try discriminate Ha; try discriminate Hb; cbn [qa oeq]; cbn [is_any] in *; unfold qzero in *;
    rewrite ?Qeq_bool_iff in *; try rewrite Ha; try rewrite Hb; reflexivity.
Qed.

(* ---- the returned sum: a number only if every symbolic term is, and then it is the vadd-fold ------------- *)
Lemma fold_sadd_sym l : fold_left sadd l VSym = VSym.
Proof. induction l as [|v r IH]; [reflexivity | exact IH]. Qed.

Lemma sadd_num a b : sadd a b <> VSym -> sadd a b = vadd a b /\ b <> VSym.
Proof. destruct a, b; cbn [sadd]; intros H; try congruence. split; [reflexivity | discriminate]. Qed.

Lemma fold_sadd_num l : forall b, fold_left sadd l b <> VSym ->
  fold_left sadd l b = fold_left vadd l b /\ Forall (fun x => x <> VSym) l.
Proof.
  induction l as [|v r IH]; intros b H; cbn [fold_left] in *; [split; [reflexivity | constructor]|].
  assert (Hs : sadd b v <> VSym) by (intros E; rewrite E, fold_sadd_sym in H; congruence).
  destruct (sadd_num b v Hs) as [E Hv]. destruct (IH _ H) as [IH1 IH2]. rewrite <- E.
  split; [exact IH1 | constructor; assumption].
Qed.

(* ---- the returned product ----------------------------------------------------------------------------- *)
Definition lit0 (v : val) : Prop := exists x, v = VQ x /\ qzero x = true.

Lemma smul_cases a b : smul a b <> VSym -> (lit0 a \/ lit0 b) \/ (smul a b = vmul a b /\ a <> VSym /\ b <> VSym).
Proof.
  destruct a as [x| | | | | | |], b as [y| | | | | | |]; cbn [smul]; intros H;
    try congruence;
    try (destruct (qzero x) eqn:E; [left; left; exists x; auto | congruence]);
    try (destruct (qzero y) eqn:E; [left; right; exists y; auto | congruence]).
  right. repeat split; discriminate.
Qed.

Lemma smul_lit0_l a b : lit0 a -> lit0 (smul a b).
Proof.
  intros [x [-> Hx]]. destruct b as [y| | | | | | |]; cbn [smul]; rewrite ?Hx; try (exists 0; split; reflexivity).
  exists (Qred (x * y)). split; [reflexivity|]. rewrite Qred_zero. apply qzero_mul_l. exact Hx.
Qed.

Lemma smul_lit0_r a b : lit0 b -> lit0 (smul a b).
Proof.
  intros [y [-> Hy]]. destruct a as [x| | | | | | |]; cbn [smul]; rewrite ?Hy; try (exists 0; split; reflexivity).
  exists (Qred (x * y)). split; [reflexivity|]. rewrite Qred_zero. unfold qzero in *.
  apply Qeq_bool_iff. apply Qeq_bool_iff in Hy. rewrite Hy. ring.
Qed.

Lemma fold_smul_lit0 l : forall b, lit0 b \/ Exists lit0 l -> lit0 (fold_left smul l b).
Proof.
  induction l as [|v r IH]; intros b H; cbn [fold_left].
  - destruct H as [H|H]; [exact H | inversion H].
  - apply IH. destruct H as [H|H]; [left; apply smul_lit0_l; exact H|].
    inversion H as [? ? H0|? ? H0]; subst; [left; apply smul_lit0_r; exact H0 | right; exact H0].
Qed.

Lemma fold_smul_sym l : Forall (fun v => ~ lit0 v) l -> fold_left smul l VSym = VSym.
Proof.
  induction 1 as [|v r Hv _ IH]; [reflexivity|]. cbn [fold_left].
  assert (E : smul VSym v = VSym).
  { destruct v as [y| | | | | | |]; cbn [smul]; try reflexivity.
    destruct (qzero y) eqn:Ey; [exfalso; apply Hv; exists y; auto | reflexivity]. }
  rewrite E. exact IH.
Qed.

Lemma smul_lit0_inv a b : lit0 (smul a b) -> lit0 a \/ lit0 b.
Proof.
  intros [z [E Hz]].
  assert (Hn : smul a b <> VSym) by (rewrite E; discriminate).
  destruct (smul_cases a b Hn) as [H|[E' _]]; [exact H|].
  destruct a as [x| | | | | | |], b as [y| | | | | | |]; cbn [smul] in E; try discriminate E;
    try (destruct (qzero x) eqn:Ex; [left; exists x; auto | discriminate E]);
    try (destruct (qzero y) eqn:Ey; [right; exists y; auto | discriminate E]).
  assert (Hz' : qzero (Qred (x * y)) = true) by congruence. clear Hz. rename Hz' into Hz. rewrite Qred_zero in Hz.
  destruct (qzero x) eqn:Ex; [left; exists x; auto|].
  destruct (qzero y) eqn:Ey; [right; exists y; auto|]. rewrite (qzero_mul_false x y Ex Ey) in Hz. discriminate Hz.
Qed.

Lemma fold_smul_num l : forall b, fold_left smul l b <> VSym ->
  (lit0 b \/ Exists lit0 l) \/
  (fold_left smul l b = fold_left vmul l b /\ Forall (fun x => x <> VSym) l /\ b <> VSym).
Proof.
  induction l as [|v r IH]; intros b H; cbn [fold_left] in *; [right; repeat split; [constructor | exact H]|].
  destruct (IH _ H) as [[H1|H1]|[H1 [H2 H3]]].
  - left. destruct (smul_lit0_inv b v H1) as [H0|H0]; [left; exact H0 | right; left; exact H0].
  - left. right. right. exact H1.
  - destruct (smul_cases b v H3) as [[H0|H0]|[E [Hb Hv]]].
    + left. left. exact H0.
    + left. right. left. exact H0.
    + right. rewrite <- E. repeat split; [exact H1 | constructor; assumption | exact Hb].
Qed.

(* ---- children, now also with the value relation ---------------------------------------------------------- *)
Definition crelF (c : cls) (t : val * dim) : Prop :=
  crel c t /\ (fst (entry_of c) <> VSym -> val_eqb (fst (entry_of c)) (fst t) = true).

Lemma crelF_crel cs ts : Forall2 crelF cs ts -> Forall2 crel cs ts.
Proof. induction 1 as [|c t cs ts [R _] _ IH]; constructor; assumption. Qed.

Lemma group_vals cs :
  map fst (group_entries cs) = nums_of cs ++ map fst (qtys_of cs) ++ map fst (syms_of cs).
Proof.
  unfold group_entries, qtys_of, syms_of. rewrite !map_app. f_equal.
  unfold nums_of. induction cs as [|c r IH]; [reflexivity|].
  cbn [flat_map]. rewrite !map_app, IH. destruct c; reflexivity.
Qed.

Lemma crelF_vals cs ts : Forall2 crelF cs ts -> Forall (fun r => fst r <> VSym) (syms_of cs) ->
  Forall2 (fun a b => oeq (qa a) (qa b)) (map fst (map entry_of cs)) (map fst ts) /\
  Forall (fun v => finite_val v = true) (map fst (map entry_of cs)).
Proof.
  unfold syms_of. induction 1 as [|c t cs ts [R Hv] _ IH]; intros Hs; cbn [map flat_map] in *; [split; constructor|].
  destruct R as [Ft [_ [_ [_ [_ Heq]]]]].
  destruct c as [v|v d|[rv d]]; cbn [entry_of fst snd app] in *.
  - destruct (IH Hs) as [IH1 IH2]. subst v. split; constructor; auto using oeq_refl.
  - destruct (IH Hs) as [IH1 IH2]. subst v. split; constructor; auto using oeq_refl.
  - inversion Hs as [|? ? Hr Hs']; subst. cbn [fst] in Hr. destruct (IH Hs') as [IH1 IH2].
    pose proof (Hv Hr) as E. pose proof (veq_finite_l _ _ E Ft) as Frv.
    split; constructor; auto. apply veq_qa; assumption.
Qed.

Lemma Forall_map_inv {A B} (f : A -> B) (P : B -> Prop) l : Forall P (map f l) -> Forall (fun x => P (f x)) l.
Proof. induction l as [|x r IH]; cbn [map]; intros H; [constructor|]. inversion H; subst. constructor; auto. Qed.

Lemma lit0_fin_any v : lit0 v -> fin_any v.
Proof. intros [x [-> Hx]]. split; [reflexivity | exact Hx]. Qed.

(* the shared end of the argument: values elementwise equal, group order a permutation *)
Lemma group_fold_perm cs : Permutation (map fst (map entry_of cs))
                             (nums_of cs ++ map fst (qtys_of cs) ++ map fst (syms_of cs)).
Proof. rewrite <- group_vals. apply Permutation_map, group_perm. Qed.

Lemma mul_value cs p ts0 : Forall2 crelF cs (p :: ts0) -> fst (mul_of cs) <> VSym ->
  val_eqb (fst (mul_of cs)) (fold_left vmul (map fst ts0) (fst p)) = true.
Proof.
  intros RF Hn. pose proof (crelF_crel _ _ RF) as R.
  pose proof (crel_finite _ _ R) as Fts. pose proof (Forall_inv Fts) as Fp. cbn beta in Fp.
  pose proof (Forall_map_fst (fun v => finite_val v = true) _ (Forall_inv_tail Fts)) as Fts0.
  pose proof (fold_vmul_finite _ _ Fp Fts0) as Fv.
  destruct (crel_group_finite cs _ R) as [F1 F2].
  assert (Fq : finite_val (fold_left vmul (map fst (qtys_of cs)) (fold_left vmul (nums_of cs) (VQ 1))) = true).
  { apply fold_vmul_finite; [apply fold_vmul_finite; [reflexivity | exact F1] | exact F2]. }
  (* if the collected product is not zero, neither is the returned expression (mul_diagram) *)
  assert (Hcontra : is_any (fst (mul_of cs)) = true -> fin_any (fold_left vmul (map fst ts0) (fst p))).
  { intros Ha. split; [exact Fv|]. destruct (is_any (fold_left vmul (map fst ts0) (fst p))) eqn:Ev; [reflexivity|].
    destruct (mul_diagram cs p ts0 R Ev) as [Hrv _]. congruence. }
  revert Hn Hcontra. unfold mul_of.
  destruct (is_any (fold_left vmul (map fst (qtys_of cs)) (fold_left vmul (nums_of cs) (VQ 1)))) eqn:Eq;
    cbn [fst]; intros Hn Hcontra.
  - apply fin_any_veq; [split; assumption | apply Hcontra; exact Eq].
  - destruct (fold_smul_num _ _ Hn) as [Hz|[E [Hs Hb]]].
    + pose proof (lit0_fin_any _ (fold_smul_lit0 _ _ Hz)) as Hfa.
      apply fin_any_veq; [exact Hfa | apply Hcontra; apply Hfa].
    + rewrite E. destruct (dimensionless _); [|congruence].
      assert (Hs' : Forall (fun r : val * dim => fst r <> VSym) (syms_of cs)) by (apply (Forall_map_inv fst (fun x => x <> VSym)); exact Hs).
      destruct (crelF_vals cs _ RF Hs') as [Hve Fve].
      pose proof (group_fold_perm cs) as HP.
      pose proof (Forall_perm _ _ _ HP Fve) as FG.
      pose proof (vmul_agree (fst p) (map fst ts0) _ _ (Forall_cons _ Fp Fts0) FG Hve HP) as Hag.
      rewrite !fold_left_app in Hag. apply veq_qa; [|exact Fv | exact Hag].
      rewrite <- !fold_left_app. apply fold_vmul_finite; [reflexivity | exact FG].
Qed.

Lemma add_value cs p ts0 d : Forall2 crelF cs (p :: ts0) -> add_val cs d <> VSym ->
  val_eqb (add_val cs d) (fold_left vadd (map fst ts0) (fst p)) = true.
Proof.
  intros RF Hn. pose proof (crelF_crel _ _ RF) as R.
  pose proof (crel_finite _ _ R) as Fts. pose proof (Forall_inv Fts) as Fp. cbn beta in Fp.
  pose proof (Forall_map_fst (fun v => finite_val v = true) _ (Forall_inv_tail Fts)) as Fts0.
  pose proof (fold_vadd_finite _ _ Fp Fts0) as Fv.
  revert Hn. unfold add_val. destruct (dimensionless d); intros Hn; [|rewrite fold_sadd_sym in Hn; congruence].
  destruct (fold_sadd_num _ _ Hn) as [E Hs]. rewrite E.
  assert (Hs' : Forall (fun r : val * dim => fst r <> VSym) (syms_of cs))
    by (apply (Forall_map_inv fst (fun x => x <> VSym)); exact Hs).
  destruct (crelF_vals cs _ RF Hs') as [Hve Fve].
  pose proof (group_fold_perm cs) as HP.
  pose proof (Forall_perm _ _ _ HP Fve) as FG.
  pose proof (vadd_agree (fst p) (map fst ts0) _ _ (Forall_cons _ Fp Fts0) FG Hve HP) as Hag.
  rewrite !fold_left_app in Hag. apply veq_qa; [|exact Fv | exact Hag].
  rewrite <- !fold_left_app. apply fold_vadd_finite; [reflexivity | exact FG].
Qed.

(* ---- absolute value ---------------------------------------------------------------------------------------- *)
Lemma vabs_veq a f : finite_val f = true -> val_eqb a f = true -> val_eqb (vabs a) (vabs f) = true.
Proof.
  intros Ff H. pose proof (veq_finite_l _ _ H Ff) as Fa.
  destruct a as [x| | | | | | |], f as [y| | | | | | |]; try discriminate Fa; try discriminate Ff; try discriminate H;
    cbn [vabs val_eqb] in *; try reflexivity; unfold qzero in *; rewrite Qeq_bool_iff in *;
    rewrite ?Qred_correct; try rewrite H; try reflexivity.
Qed.

(* ---- powers: vpow respects Qeq on the base (every output is Qred-canonical or a constant) ------------------- *)
Lemma Qeq_bool_comp1 x y c : x == y -> Qeq_bool x c = Qeq_bool y c.
Proof.
  intros H. destruct (Qeq_bool x c) eqn:E, (Qeq_bool y c) eqn:F; try reflexivity.
  - apply Qeq_bool_iff in E. rewrite H in E. apply Qeq_bool_iff in E. congruence.
  - apply Qeq_bool_iff in F. rewrite <- H in F. apply Qeq_bool_iff in F. congruence.
Qed.

Lemma vpow_Qeq x y q : x == y -> vpow (VQ x) (VQ q) = vpow (VQ y) (VQ q).
Proof.
  intros H.
  assert (E1 : Qeq_bool x 1 = Qeq_bool y 1) by (apply Qeq_bool_comp1; exact H).
  assert (E0 : qzero x = qzero y) by (apply Qeq_bool_comp1; exact H).
  assert (Es : qsqrt_exact x = qsqrt_exact y) by (unfold qsqrt_exact; rewrite (Qred_complete x y H); reflexivity).
  assert (Ep : forall n, Qred (Qpower x n) = Qred (Qpower y n)) by (intros n; apply Qred_complete; rewrite H; reflexivity).
  cbn [vpow]. rewrite E1, E0, Es, Ep. reflexivity.
Qed.

Lemma vpow_q0 a q : a <> VSym -> qzero q = true -> vpow a (VQ q) = VQ 1.
Proof. intros Ha Hq. destruct a; cbn [vpow]; rewrite ?Hq; try reflexivity. congruence. Qed.

Lemma vpow_zero_nonneg b q : finite_val b = true -> is_any b = true -> qzero q = false ->
  (Qnum q <? 0)%Z = false -> finite_val (vpow b (VQ q)) = true.
Proof.
  intros Fb Hb Hq Hn. destruct b as [x| | | | | | |]; try discriminate Fb; try discriminate Hb; cbn [vpow]; rewrite Hq, ?Hn.
  - destruct (Qeq_bool x 1); [reflexivity|]. rewrite !andb_false_r.
    destruct (is_int q); [reflexivity|]. destruct (Qeq_bool (q * 2) _).
    + destruct (qsqrt_exact x); [rewrite andb_false_r|]; reflexivity.
    + destruct (qzero x); reflexivity.
  - reflexivity.
Qed.

Lemma vpow_fin_any a b q : fin_any a -> fin_any b -> val_eqb (vpow a (VQ q)) (vpow b (VQ q)) = true.
Proof.
  intros [Fa Ha] [Fb Hb].
  assert (Na : a <> VSym) by (intros ->; discriminate Fa). assert (Nb : b <> VSym) by (intros ->; discriminate Fb).
  destruct (qzero q) eqn:Eq; [rewrite (vpow_q0 a q Na Eq), (vpow_q0 b q Nb Eq); reflexivity|].
  destruct (Qnum q <? 0)%Z eqn:En.
  - rewrite (vpow_zero_neg a q Fa Ha En), (vpow_zero_neg b q Fb Hb En). reflexivity.
  - pose proof (vpow_zero_nonneg a q Fa Ha Eq En) as F1. pose proof (vpow_zero_nonneg b q Fb Hb Eq En) as F2.
    apply fin_any_veq; split; auto; apply vpow_zero_base; auto.
Qed.

Lemma vpow_veq bv bf q : finite_val bf = true -> val_eqb bv bf = true ->
  val_eqb (vpow bv (VQ q)) (vpow bf (VQ q)) = true.
Proof.
  intros Ff H. pose proof (veq_finite_l _ _ H Ff) as Fv.
  destruct (is_any bf) eqn:Ea.
  - apply vpow_fin_any; split; auto.
    destruct bv as [x| | | | | | |], bf as [y| | | | | | |]; try discriminate Fv; try discriminate Ff; try discriminate H;
      try discriminate Ea; try reflexivity; cbn [val_eqb is_any] in *; try exact H.
    unfold qzero in *. rewrite Qeq_bool_iff in *. rewrite H. exact Ea.
  - destruct bv as [x| | | | | | |], bf as [y| | | | | | |]; try discriminate Fv; try discriminate Ff; try discriminate H;
      try discriminate Ea; try apply veq_refl.
    + cbn [val_eqb] in H. apply Qeq_bool_iff in H. rewrite (vpow_Qeq x y q H). apply veq_refl.
    + cbn [val_eqb is_any] in *. congruence.
Qed.

(* ================================================================================================ *)
(* The invariant without the sum_ok clause                                                           *)
(* ================================================================================================ *)
Definition diagF (q : qexpr) : Prop :=
  forall e rv d, Inst e q -> scopeb_full e = true -> Fin q -> infer_e e = Ok (rv, d) ->
    wf_dim d /\
    exists v d', collect q = Ok (v, d') /\ wf_dim d' /\
                 (is_any v = true \/ deq d' d) /\ (rv <> VSym -> val_eqb rv v = true).

Lemma diagF_symb a a' x : diagF a' -> Inst a a' -> scopeb_full a = true -> Fin a' ->
  infer_e a = Ok x -> exists t, collect a' = Ok t /\ crelF (CSymb x) t.
Proof.
  intros Hd Hi Hs HF Hx. destruct x as [rv d].
  destruct (Hd a rv d Hi Hs HF Hx) as [Wd [v [d' [Hc [Wd' [Hdd Hval]]]]]].
  assert (Fv : finite_val v = true) by (rewrite (collect_value a' v d' Hc); apply Fin_finite; exact HF).
  exists (v, d'). split; [exact Hc|]. unfold crelF, crel. cbn [fst snd entry_of].
  repeat split; auto. intros Ha. apply (veq_any rv v); auto. apply Hval. intros ->. discriminate Ha.
Qed.

Lemma head_clsF_rel a a' x : diagF a' -> Inst a a' -> scopeb_full a = true -> Fin a' ->
  head_cls infer_e a = Ok x -> exists t, collect a' = Ok t /\ crelF x t.
Proof.
  intros Hd Hi Hs HF Hx.
  assert (Hgen : forall y, infer_e a = Ok y -> exists t, collect a' = Ok t /\ crelF (CSymb y) t).
  { intros y Hy. eapply diagF_symb; eassumption. }
  destruct Hi as [v Hn|v d|d x0 Hx0|l l' Hl|b e b' e' Hb He|l l' Hl|a0 a0' Ha|l l' Hl|l l' Hl|d ov l l' Hl];
    cbn [head_cls] in Hx.
  - rewrite Hn in Hx. inversion Hx; subst x. exists (v, dzero). cbn [collect]. rewrite Hn. split; [reflexivity|].
    inversion HF; subst. unfold crelF, crel. cbn [fst snd entry_of].
    repeat split; auto using dzero_wf, veq_refl. right. apply deq_refl.
  - inversion Hx; subst x. exists (v, d). split; [reflexivity|]. inversion HF; subst.
    unfold crelF, crel. cbn [fst snd entry_of]. repeat split; auto using veq_refl. right. apply deq_refl.
  - destruct (infer_e (SDimSym d)) as [y|k] eqn:E; [|discriminate]. inversion Hx; subst x. apply Hgen. reflexivity.
  - destruct (infer_e (SMul l)) as [y|k] eqn:E; [|discriminate]. inversion Hx; subst x. apply Hgen. reflexivity.
  - destruct (infer_e (SPow b e)) as [y|k] eqn:E; [|discriminate]. inversion Hx; subst x. apply Hgen. reflexivity.
  - destruct (infer_e (SAdd l)) as [y|k] eqn:E; [|discriminate]. inversion Hx; subst x. apply Hgen. reflexivity.
  - destruct (infer_e (SAbs a0)) as [y|k] eqn:E; [|discriminate]. inversion Hx; subst x. apply Hgen. reflexivity.
  - destruct (infer_e (SMin l)) as [y|k] eqn:E; [|discriminate]. inversion Hx; subst x. apply Hgen. reflexivity.
  - destruct (infer_e (SMax l)) as [y|k] eqn:E; [|discriminate]. inversion Hx; subst x. apply Hgen. reflexivity.
  - destruct (infer_e (SFun d l)) as [y|k] eqn:E; [|discriminate]. inversion Hx; subst x. apply Hgen. reflexivity.
Qed.

Lemma children_relF l' : Forall diagF l' ->
  forall l cs, Forall2 Inst l l' -> forallb scopeb_full l = true -> Forall Fin l' ->
    classify infer_e l = Ok cs -> exists ts, map_res collect l' = Ok ts /\ Forall2 crelF cs ts.
Proof.
  induction 1 as [|a' r' Ha Hr IH]; intros l cs Hi Hs HF Hc; inversion Hi as [|a ? r ? Hia Hir]; subst.
  - cbn in Hc. inversion Hc; subst. exists []. split; [reflexivity | constructor].
  - rewrite classify_cons in Hc. cbn [forallb] in Hs. apply andb_true_iff in Hs as [Hsa Hsr].
    inversion HF as [|? ? Fa Fr]; subst.
    destruct (head_cls infer_e a) as [x|k] eqn:Ex; [|discriminate].
    destruct (classify infer_e r) as [xs|k] eqn:Er; [|discriminate]. inversion Hc; subst cs.
    destruct (head_clsF_rel a a' x Ha Hia Hsa Fa Ex) as [t [Ht Hrel]].
    destruct (IH r xs Hir Hsr Fr Er) as [ts [Hts Hrels]].
    exists (t :: ts). split; [cbn [map_res]; rewrite Ht, Hts; reflexivity | constructor; assumption].
Qed.

Lemma fun_childrenF l' ov : Forall diagF l' -> forall l, Forall2 Inst l l' ->
  forallb scopeb_full l = true -> forallb infers_dimensionless l = true -> Forall Fin l' ->
  fun_go collect ov l' = Ok (ov, dzero).
Proof.
  induction 1 as [|a' r' Ha _ IH]; intros l Hi Hs Hdl HF; inversion Hi as [|a ? r ? Hia Hir]; subst; [reflexivity|].
  cbn [forallb] in Hs, Hdl. apply andb_true_iff in Hs as [Hsa Hsr]. apply andb_true_iff in Hdl as [Hda Hdr].
  inversion HF as [|? ? Fa Fr]; subst. unfold infers_dimensionless in Hda.
  destruct (infer_e a) as [[rv ad]|k] eqn:E; [|discriminate Hda].
  destruct (Ha a rv ad Hia Hsa Fa E) as [_ [v [d' [Hc [_ [Hd _]]]]]].
  cbn [fun_go]. rewrite Hc.
  assert (Hok : is_any v || dimensionless d' = true).
  { destruct Hd as [Hd|Hd]; [rewrite Hd; reflexivity|]. rewrite (dimensionless_deq _ _ Hd), Hda. apply orb_true_r. }
  rewrite Hok. apply (IH r); assumption.
Qed.

Lemma diagF_num v0 : diagF (QNum v0).
Proof.
  intros e rv d Hi Hs HF He. inversion Hi as [v Hn| | | | | | | | |]; subst. inversion HF; subst.
  cbn [infer_e] in He. inversion He; subst. split; [exact dzero_wf|].
  exists rv, dzero. cbn [collect]. rewrite Hn.
  repeat split; auto using dzero_wf, veq_refl. right; apply deq_refl.
Qed.

Lemma diagF_qty v0 d0 : diagF (QQty v0 d0).
Proof.
  intros e rv d Hi Hs HF He.
  assert (Fv : finite_val v0 = true /\ wf_dim d0) by (inversion HF; subst; split; assumption).
  destruct Fv as [Fv Wd0].
  assert (Hrd : rv = VSym /\ d = d0).
  { inversion Hi; subst; cbn [infer_e] in He; inversion He; subst; split; reflexivity. }
  destruct Hrd as [-> ->]. split; [exact Wd0|]. exists v0, d0. cbn [collect].
  repeat split; auto; try (right; apply deq_refl).
Qed.

Lemma diagF_abs a' : diagF a' -> diagF (QAbs a').
Proof.
  intros IH e rv d Hi Hs HF He. inversion Hi as [| | | | | |a ? Ha| | |]; subst. inversion HF as [| | | | | |? Fa Ff| | |]; subst.
  cbn [scopeb_full] in Hs. cbn [infer_e] in He. destruct (infer_e a) as [[av ad]|k] eqn:Ea; [|discriminate He].
  injection He as Hrv Hd0. subst ad. destruct (IH a av d Ha Hs Fa Ea) as [Wd [f [d' [Hc [Wd' [Hd Hval]]]]]].
  assert (Ff' : finite_val f = true) by (rewrite (collect_value a' f d' Hc); apply Fin_finite; exact Fa).
  split; [exact Wd|]. exists (vabs f), d'. cbn [collect]. rewrite Hc. repeat split; auto.
  - destruct Hd as [Hd|Hd]; [left; apply vabs_any; exact Hd | right; exact Hd].
  - intros Hn. assert (Hav : av <> VSym) by (intros ->; congruence).
    assert (E : rv = vabs av) by (rewrite <- Hrv; destruct av; congruence).
    rewrite E. apply vabs_veq; auto.
Qed.

Lemma diagF_fun ov l' : Forall diagF l' -> diagF (QFun ov l').
Proof.
  intros IH e rv d Hi Hs HF He. inversion Hi as [| | | | | | | | |d0 ? l ? Hl]; subst.
  inversion HF as [| | | | | | | | |? ? Fl Fo]; subst.
  cbn [scopeb_full] in Hs. apply andb_true_iff in Hs as [Hs Hdl]. apply andb_true_iff in Hs as [Hs Hsl].
  apply andb_true_iff in Hs as [Hw Hd0]. apply wf_dimb_wf in Hw.
  apply infer_fun_inv in He as [He _]. inversion He; subst. split; [exact Hw|].
  exists ov, dzero. cbn [collect]. rewrite (fun_childrenF l' ov IH l Hl Hsl Hdl Fl).
  repeat split; auto using dzero_wf; try congruence.
  right. apply deq_sym. apply dimensionless_wf_dzero; assumption.
Qed.

Lemma diagF_mul l' : Forall diagF l' -> diagF (QMul l').
Proof.
  intros IH e rv d Hi Hs HF He. inversion Hi as [| | |l ? Hl| | | | | |]; subst.
  assert (Fl : Forall Fin l') by (inversion HF; assumption).
  cbn [scopeb_full] in Hs. apply andb_true_iff in Hs as [Hne Hsl].
  cbn [infer_e] in He. destruct (classify infer_e l) as [cs|k] eqn:Ec; [|discriminate He].
  destruct (children_relF l' IH l cs Hl Hsl Fl Ec) as [ts [Hts RF]]. pose proof (crelF_crel _ _ RF) as R.
  pose proof (mul_of_wf cs ts R) as Wd.
  injection He as Hm. rewrite Hm in Wd. cbn [snd] in Wd. split; [exact Wd|].
  destruct l' as [|x xs]; [exfalso; exact (Forall2_nonempty _ _ _ Hl Hne eq_refl)|].
  cbn [map_res] in Hts. destruct (collect x) as [p|k] eqn:Ex; [|discriminate Hts].
  destruct (map_res collect xs) as [ts0|k] eqn:Exs; [|discriminate Hts]. injection Hts as <-.
  destruct (collect_mul_spec x xs p ts0 Ex Exs) as [v [d' [Hc [Hv Hd]]]].
  pose proof (crel_finite _ _ R) as Fts. pose proof (Forall_inv Fts) as Fp. pose proof (Forall_inv_tail Fts) as Fts0.
  cbn beta in Fp. specialize (Hd Fp Fts0).
  destruct (collect_dim_claim (QMul (x :: xs)) HF) as [_ Hclaim]. destruct (Hclaim v d' Hc) as [Wd' _].
  exists v, d'. split; [exact Hc|]. split; [exact Wd'|]. split.
  - destruct (is_any v) eqn:Ev; [left; reflexivity|]. destruct Hd as [Hd|Hd]; [discriminate Hd|].
    assert (Hv' : is_any (fold_left vmul (map fst ts0) (fst p)) = false) by (rewrite <- Hv; exact Ev).
    destruct (mul_diagram cs p ts0 R Hv') as [_ Hdd]. rewrite Hm in Hdd. cbn [snd] in Hdd.
    right. eapply deq_trans; [exact Hd | exact Hdd].
  - intros Hn. rewrite Hv. pose proof (mul_value cs p ts0 RF) as Hmv. rewrite Hm in Hmv. cbn [fst] in Hmv.
    apply Hmv. exact Hn.
Qed.

Lemma diagF_pow b' x' : diagF b' -> diagF (QPow b' x').
Proof.
  intros IH e rv d Hi Hs HF He. inversion Hi as [| | | |b x ? ? Hb Hx| | | | |]; subst.
  inversion HF as [| | | |? ? Fb Fx Ff| | | | |]; subst.
  cbn [scopeb_full] in Hs. apply andb_true_iff in Hs as [Hsb Hlit].
  destruct x as [xv| | | | | | | | | | |]; try discriminate Hlit. destruct xv as [q| | | | | | |]; try discriminate Hlit.
  inversion Hx; subst.
  cbn [infer_e] in He. rewrite dimensionless_dzero in He. cbn [negb] in He. rewrite andb_false_r in He.
  destruct (infer_e b) as [[bv bd]|k] eqn:Eb; [|discriminate He].
  destruct (dim_pow_expr bd (VQ q)) as [dd|] eqn:Ed; [|discriminate He]. injection He as Hrv' Hdd. subst dd.
  assert (Hcase : rv = VSym \/ (bv <> VSym /\ rv = vpow bv (VQ q))).
  { rewrite <- Hrv'. destruct bv; auto; right; split; try reflexivity; discriminate. }
  clear Hrv'.
  destruct (IH b bv bd Hb Hsb Fb Eb) as [Wbd [bf [bd' [Hc [Wbd' [Hd Hval]]]]]].
  change (dim_pow_val bd (VQ q) = Some d) in Ed.
  destruct (dim_pow_val_spec bd (VQ q) d Wbd Ed) as [Wd Dd]. split; [exact Wd|].
  destruct (dim_pow_val bd' (VQ q)) as [d'|] eqn:Ed'.
  2:{ unfold dim_pow_val in Ed'. destruct (dimensionless bd'); discriminate Ed'. }
  destruct (dim_pow_val_spec bd' (VQ q) d' Wbd' Ed') as [Wd' Dd'].
  pose proof (collect_value b' bf bd' Hc) as Hbf.
  assert (Fbf : finite_val bf = true) by (rewrite Hbf; apply Fin_finite; exact Fb).
  cbn [value] in Ff. rewrite <- Hbf in Ff.
  exists (vpow bf (VQ q)), d'. cbn [collect]. rewrite Hc. cbn [is_number].
  rewrite dimensionless_dzero, orb_true_r, Ed'.
  split; [reflexivity|]. split; [exact Wd'|]. split.
  - destruct Hd as [Hd|Hd].
    + destruct (qzero q) eqn:Eq.
      * right. assert (Hq : q == 0) by (apply Qeq_bool_iff; exact Eq).
        eapply deq_trans; [exact Dd'|]. eapply deq_trans; [apply dpow0_wf; assumption|].
        apply deq_sym. eapply deq_trans; [exact Dd | apply dpow0_wf; assumption].
      * left. apply vpow_zero_base; auto.
    + right. eapply deq_trans; [exact Dd'|]. apply deq_sym. eapply deq_trans; [exact Dd|].
      apply dpow_deq; [apply deq_sym; exact Hd | reflexivity].
  - intros Hn. destruct Hcase as [Hc1|[Hbv Hc1]]; [congruence|]. rewrite Hc1.
    apply vpow_veq; [exact Fbf | apply Hval; exact Hbv].
Qed.

Lemma diagF_add l' : Forall diagF l' -> diagF (QAdd l').
Proof.
  intros IH e rv d Hi Hs HF He. inversion Hi as [| | | | |l ? Hl| | | |]; subst.
  assert (Fl : Forall Fin l') by (inversion HF; assumption).
  cbn [scopeb_full] in Hs. apply andb_true_iff in Hs as [Hne Hsl].
  cbn [infer_e] in He. destruct (classify infer_e l) as [cs|k] eqn:Ec; [|discriminate He].
  destruct (unique_dim cs) as [d0|k] eqn:Eu; [|discriminate He]. injection He as Hrv Hd0. subst d0.
  destruct (children_relF l' IH l cs Hl Hsl Fl Ec) as [ts [Hts RF]]. pose proof (crelF_crel _ _ RF) as R.
  pose proof (crel_finite _ _ R) as Fts.
  assert (Hne' : ts <> []) by (eapply crel_nonempty; [exact R | eapply classify_nonempty; eassumption]).
  destruct (sd_node comb_add l' ts cs d fin_any Hts R Eu
              (sd_val_add_total ts None (or_intror Hne')) comb_add_closed (fun x Hx => proj2 Hx)
              (fin_any_all ts Fts)) as [Wd [v [d' [Hc [Wd' Hd]]]]].
  split; [exact Wd|]. exists v, d'. cbn [collect]. split; [exact Hc|]. split; [exact Wd'|]. split; [exact Hd|].
  intros Hn. apply (sd_go_ok_iff collect comb_add l' ts v d' Hts) in Hc as [_ [Hv _]].
  destruct ts as [|p ts0]; [congruence|]. cbn [sd_val] in Hv.
  assert (Hg : forall a b y, comb_add a b = Some y -> y = vadd a b) by (intros a b y E; inversion E; reflexivity).
  rewrite (sd_val_fold comb_add vadd ts0 Hg (fst p) v).
  - rewrite <- Hrv. apply add_value; [exact RF | rewrite Hrv; exact Hn].
  - destruct p as [pf pd]. exact Hv.
Qed.

Lemma minmax_nodeF g l' l rv d :
  (forall a b, comparable a = true -> comparable b = true -> comparable (g a b) = true) ->
  (forall a b, zero_q a -> zero_q b -> zero_q (g a b)) ->
  Forall diagF l' -> Forall2 Inst l l' -> nonempty l = true -> forallb scopeb_full l = true ->
  Forall Fin l' -> Forall (fun t => value t <> VFloat0) l' ->
  match classify infer_e l with
  | Err k => Err k
  | Ok cs => match unique_dim cs with Err k => Err k | Ok d => Ok (VSym, d) end
  end = Ok (rv, d) ->
  wf_dim d /\
  exists v d', sd_go collect (cmp_comb g) None None dzero l' = Ok (v, d') /\ wf_dim d' /\
               (is_any v = true \/ deq d' d) /\ (rv <> VSym -> val_eqb rv v = true).
Proof.
  intros Hg Hz IH Hl Hne Hsl Fl Hnf He.
  destruct (classify infer_e l) as [cs|k] eqn:Ec; [|discriminate He].
  destruct (unique_dim cs) as [d0|k] eqn:Eu; [|discriminate He]. inversion He; subst d0 rv.
  destruct (children_relF l' IH l cs Hl Hsl Fl Ec) as [ts [Hts RF]]. pose proof (crelF_crel _ _ RF) as R.
  pose proof (crel_finite _ _ R) as Fts.
  assert (Hne' : ts <> []) by (eapply crel_nonempty; [exact R | eapply classify_nonempty; eassumption]).
  assert (Hex : exists v, sd_val (cmp_comb g) None ts = Some v).
  { apply (sd_val_cmp_none g Hg). split; [exact Hne'|]. intros _.
    unfold all_comparable. eapply Forall_impl; [|exact Fts]. intros t Ht. apply finite_comparable. exact Ht. }
  destruct (sd_node (cmp_comb g) l' ts cs d zero_q Hts R Eu Hex (cmp_comb_closed g zero_q Hz) zero_q_any
              (zero_q_all ts Fts (map_res_no_float0 l' ts Hts Hnf))) as [Wd [v [d' [Hc [Wd' Hd]]]]].
  split; [exact Wd|]. exists v, d'. repeat split; auto.
Qed.

Lemma diagF_min l' : Forall diagF l' -> diagF (QMin l').
Proof.
  intros IH e rv d Hi Hs HF He. inversion Hi as [| | | | | | |l ? Hl| |]; subst.
  inversion HF as [| | | | | | |? Fl Hnf Ff| |]; subst.
  cbn [scopeb_full] in Hs. apply andb_true_iff in Hs as [Hne Hsl]. cbn [infer_e] in He. cbn [collect].
  rewrite comb_min_cmp. eapply minmax_nodeF; eauto using vmin_comparable, vmin_zero_q.
Qed.

Lemma diagF_max l' : Forall diagF l' -> diagF (QMax l').
Proof.
  intros IH e rv d Hi Hs HF He. inversion Hi as [| | | | | | | |l ? Hl|]; subst.
  inversion HF as [| | | | | | | |? Fl Hnf Ff|]; subst.
  cbn [scopeb_full] in Hs. apply andb_true_iff in Hs as [Hne Hsl]. cbn [infer_e] in He. cbn [collect].
  rewrite comb_max_cmp. eapply minmax_nodeF; eauto using vmax_comparable, vmax_zero_q.
Qed.

Theorem diagF_all : forall q, diagF q.
Proof.
  induction q as [v0|v0 d0|v0|l IH|b x IHb IHx|l IH|a IHa|l IH|l IH|ov l IH|] using qexpr_ind2.
  - apply diagF_num.
  - apply diagF_qty.
  - intros e rv d Hi. inversion Hi.
  - apply diagF_mul; exact IH.
  - apply diagF_pow; exact IHb.
  - apply diagF_add; exact IH.
  - apply diagF_abs; exact IHa.
  - apply diagF_min; exact IH.
  - apply diagF_max; exact IH.
  - apply diagF_fun; exact IH.
  - intros e rv d Hi. inversion Hi.
Qed.

(* the full statement: no restriction on sums; moreover, when the inference returns a number, it is the value
   of the quantity (up to val_eqb) *)
Theorem infer_then_collect_full_values : forall e q rv d,
  scopeb_full e = true -> Inst e q -> Fin q -> infer_e e = Ok (rv, d) ->
  exists v d', collect q = Ok (v, d') /\ v = value q /\ finite_val v = true /\ wf_dim d /\ wf_dim d' /\
               (is_any v = true \/ deq d' d) /\ (rv <> VSym -> val_eqb rv v = true).
Proof.
  intros e q rv d Hs Hi HF He.
  destruct (diagF_all q e rv d Hi Hs HF He) as [Wd [v [d' [Hc [Wd' [Hd Hval]]]]]].
  pose proof (collect_value q v d' Hc) as Hv.
  exists v, d'. repeat split; auto. rewrite Hv. apply Fin_finite. exact HF.
Qed.

Theorem infer_then_collect_full : infer_then_collect_full_statement.
Proof.
  intros e q rv d Hs Hi HF He.
  destruct (infer_then_collect_full_values e q rv d Hs Hi HF He) as [v [d' [H1 [H2 [H3 [H4 [H5 [H6 _]]]]]]]].
  exists v, d'. repeat split; assumption.
Qed.

(* the formerly excluded input is now covered *)
Example cancelling_sum_now_covered :
  scopeb_full (SAdd [SAdd [SQty (VQ 1) dzero; SNum (VQ (-1))]; SDimSym d_length]) = true.
Proof. vm_compute. reflexivity. Qed.

Print Assumptions infer_then_collect_full.
Print Assumptions infer_then_collect_full_values.
