(* Lemmas about Model/CartVec.v: vector-space laws, dot / cross product laws, projection, unit vectors,
   zero-padding, refusal rules.  Also the tactics used by the generated correspondence lemmas (named corr_...). *)
From Coq Require Import Reals List NArith QArith Bool Lia Lra Psatz Field.
From VP Require Import Base.Util Base.RTac Model.CartVec.
Import ListNotations.
Local Open Scope R_scope.

(* ------------------------------------------------------------------------------------------------ *)
(* tactics for generated lemmas:  impl components = model applied to literal lists                   *)

Ltac cv_unfold :=
  cbv [vadd vsum vscale vsub vsub_n dot mag mag2 cross cross_opt unit project reject veq
       extend extend_two extend_gen extend_two_gen zip_with
       length Nat.max Nat.sub repeat app map combine fold_left fst snd] in *.

(* split an equation between two literal lists into its component equations *)
Ltac cv_list :=
  lazymatch goal with
  | |- @cons _ _ _ = @cons _ _ _ => apply (f_equal2 (@cons R)); [ | cv_list ]
  | |- @nil _ = @nil _ => reflexivity
  | _ => idtac
  end.

(* make the arguments of all `sqrt` syntactically equal when they are equal as polynomials *)
Ltac cv_sqrt_norm :=
  repeat match goal with
  | |- context [sqrt ?a] =>
      match goal with
      | |- context [sqrt ?b] =>
          lazymatch a with b => fail | _ => idtac end;
          replace (sqrt b) with (sqrt a) by (apply f_equal; ring)
      end
  end.

(* a denominator is non-zero because a hypothesis says that the same polynomial is *)
Ltac cv_nz :=
  repeat split;
  first
  [ assumption
  | match goal with
    | H : ?a <> 0 |- ?b <> 0 => let E := fresh in intro E; apply H; (replace a with b by ring); exact E
    end
  | match goal with
    | H : ?a <> 0 |- sqrt ?b <> 0 =>
        let E := fresh in
        intro E; apply H; apply sqrt_eq_0 in E;
        [ (replace a with b by ring); exact E | nra ]
    end
  | vp_nz1 ].

Ltac cv_scalar :=
  first
  [ reflexivity
  | solve [ ring ]
  | solve [ rewrite ?sqrt_0; ring ]
  | solve [ apply f_equal; ring ]
  | solve [ cv_sqrt_norm; ring ]
  | solve [ field; cv_nz ]
  | solve [ cv_sqrt_norm; field; cv_nz ]
  | solve [ vp_req ] ].

Ltac cv_corr := intros; cv_unfold; try apply (f_equal (@Some (list R))); cv_list; cv_scalar.

(* ------------------------------------------------------------------------------------------------ *)
(* structural characterisation of the list functions                                                 *)

Lemma extend_nil_0 (v : vec) : extend 0 v = v.
Proof. unfold extend, extend_gen. cbn. apply app_nil_r. Qed.

Lemma extend_le (n : nat) (v : vec) : (n <= length v)%nat -> extend n v = v.
Proof.
  intros H. unfold extend, extend_gen.
  replace (n - length v)%nat with 0%nat by lia. cbn. apply app_nil_r.
Qed.

Lemma extend_cons (n : nat) (x : R) (v : vec) : extend (S n) (x :: v) = x :: extend n v.
Proof. reflexivity. Qed.

Lemma extend_nil (n : nat) : extend n [] = repeat 0 n.
Proof. unfold extend, extend_gen. cbn. now rewrite Nat.sub_0_r. Qed.

Lemma extend_length (n : nat) (v : vec) : length (extend n v) = Nat.max n (length v).
Proof. unfold extend, extend_gen. rewrite app_length, repeat_length. lia. Qed.

Lemma nth_extend (n i : nat) (v : vec) : nth i (extend n v) 0 = nth i v 0.
Proof.
  unfold extend, extend_gen.
  destruct (Nat.lt_ge_cases i (length v)) as [H | H].
  - now rewrite app_nth1.
  - rewrite app_nth2 by exact H. rewrite (nth_overflow v) by exact H.
    generalize (i - length v)%nat as j. generalize (n - length v)%nat as k.
    induction k; intros [|j]; cbn; auto.
Qed.

Lemma zip_plus_zeros_l (b : vec) : zip_with Rplus (repeat 0 (length b)) b = b.
Proof. induction b as [|y b IH]; cbn; [reflexivity|]. now rewrite IH, Rplus_0_l. Qed.

Lemma zip_plus_zeros_r (a : vec) : zip_with Rplus a (repeat 0 (length a)) = a.
Proof. induction a as [|x a IH]; cbn; [reflexivity|]. now rewrite IH, Rplus_0_r. Qed.

Lemma vadd_nil_l (b : vec) : vadd [] b = b.
Proof.
  unfold vadd, extend_two, extend_two_gen, extend_gen. cbn [length Nat.max app].
  rewrite Nat.sub_0_r, Nat.sub_diag. cbn [repeat]. rewrite app_nil_r. apply zip_plus_zeros_l.
Qed.

Lemma vadd_nil_r (a : vec) : vadd a [] = a.
Proof.
  unfold vadd, extend_two, extend_two_gen, extend_gen. cbn [length app].
  rewrite Nat.max_0_r, Nat.sub_0_r, Nat.sub_diag. cbn [repeat]. rewrite app_nil_r. apply zip_plus_zeros_r.
Qed.

Lemma vadd_cons (x y : R) (a b : vec) : vadd (x :: a) (y :: b) = (x + y) :: vadd a b.
Proof. reflexivity. Qed.

Lemma vadd_length (a b : vec) : length (vadd a b) = Nat.max (length a) (length b).
Proof.
  revert b; induction a as [|x a IH]; intros b.
  - now rewrite vadd_nil_l.
  - destruct b as [|y b]; [now rewrite vadd_nil_r|]. rewrite vadd_cons. cbn [length Nat.max]. now rewrite IH.
Qed.

Lemma vscale_length (k : R) (v : vec) : length (vscale k v) = length v.
Proof. apply map_length. Qed.

Lemma vscale_cons (k x : R) (v : vec) : vscale k (x :: v) = k * x :: vscale k v.
Proof. reflexivity. Qed.

Lemma fold_plus_acc (l : list R) (acc : R) : fold_left Rplus l acc = acc + fold_left Rplus l 0.
Proof.
  revert acc; induction l as [|x l IH]; intros acc; cbn.
  - ring.
  - rewrite IH, (IH (0 + x)). ring.
Qed.

Lemma dot_nil_l (b : vec) : dot [] b = 0.
Proof. reflexivity. Qed.

Lemma dot_nil_r (a : vec) : dot a [] = 0.
Proof. destruct a; reflexivity. Qed.

Lemma dot_cons (x y : R) (a b : vec) : dot (x :: a) (y :: b) = x * y + dot a b.
Proof. unfold dot. cbn. rewrite fold_plus_acc. ring. Qed.

Lemma nth_vadd (i : nat) (a b : vec) : nth i (vadd a b) 0 = nth i a 0 + nth i b 0.
Proof.
  revert i b; induction a as [|x a IH]; intros i b.
  - rewrite vadd_nil_l. destruct i; cbn; ring.
  - destruct b as [|y b].
    + rewrite vadd_nil_r. destruct i; cbn; ring.
    + rewrite vadd_cons. destruct i; cbn; [reflexivity | apply IH].
Qed.

(* ------------------------------------------------------------------------------------------------ *)
(* equality up to zero padding                                                                       *)

Lemma veq_nth (a b : vec) : veq a b <-> forall i, nth i a 0 = nth i b 0.
Proof.
  unfold veq, extend_two, extend_two_gen. fold (extend (Nat.max (length a) (length b)) a).
  fold (extend (Nat.max (length a) (length b)) b).
  split.
  - intros H i. rewrite <- (nth_extend (Nat.max (length a) (length b)) i a), H. apply nth_extend.
  - intros H. apply (nth_ext _ _ 0 0).
    + rewrite !extend_length. lia.
    + intros i _. rewrite !nth_extend. apply H.
Qed.

Lemma veq_refl (a : vec) : veq a a.
Proof. apply veq_nth; reflexivity. Qed.

Lemma veq_sym (a b : vec) : veq a b -> veq b a.
Proof. rewrite !veq_nth. intros H i. symmetry. apply H. Qed.

Lemma veq_trans (a b c : vec) : veq a b -> veq b c -> veq a c.
Proof. rewrite !veq_nth. intros H1 H2 i. now rewrite H1. Qed.

Lemma veq_extend (n : nat) (a : vec) : veq (extend n a) a.
Proof. apply veq_nth. intros i. apply nth_extend. Qed.

Lemma veq_same_length (a b : vec) : length a = length b -> veq a b -> a = b.
Proof.
  intros L H. unfold veq, extend_two, extend_two_gen, extend_gen in H.
  rewrite <- L, Nat.max_id, Nat.sub_diag in H. cbn in H.
  now rewrite !app_nil_r in H.
Qed.

(* ------------------------------------------------------------------------------------------------ *)
(* addition: commutative, associative, zero, inverse                                                 *)

Lemma vadd_comm (a b : vec) : vadd a b = vadd b a.
Proof.
  revert b; induction a as [|x a IH]; intros b.
  - now rewrite vadd_nil_l, vadd_nil_r.
  - destruct b as [|y b]; [now rewrite vadd_nil_l, vadd_nil_r|].
    rewrite !vadd_cons, IH. f_equal. ring.
Qed.

Lemma vadd_assoc (a b c : vec) : vadd (vadd a b) c = vadd a (vadd b c).
Proof.
  revert b c; induction a as [|x a IH]; intros b c.
  - now rewrite !vadd_nil_l.
  - destruct b as [|y b]; [now rewrite vadd_nil_l, vadd_nil_r|].
    destruct c as [|z c]; [now rewrite !vadd_nil_r|].
    rewrite !vadd_cons, IH. f_equal. ring.
Qed.

Lemma vsum_two (a b : vec) : vsum a [b] = vadd a b.
Proof. reflexivity. Qed.

Lemma vsum_three (a b c : vec) : vsum a [b; c] = vadd (vadd a b) c.
Proof. reflexivity. Qed.

Lemma vsub_def (a b : vec) : vsub a b = vadd a (vscale (-1) b).
Proof. reflexivity. Qed.

Lemma vsub_self (a : vec) : vsub a a = repeat 0 (length a).
Proof.
  rewrite vsub_def. induction a as [|x a IH]; [reflexivity|].
  rewrite vscale_cons, vadd_cons, IH. cbn. f_equal. ring.
Qed.

(* (a + b) - b = a, up to the zero padding that the sum introduced *)
Lemma vsub_vadd (a b : vec) : vsub (vadd a b) b = extend (length b) a.
Proof.
  rewrite vsub_def. revert b; induction a as [|x a IH]; intros b.
  - rewrite vadd_nil_l, extend_nil. apply (vsub_self b).
  - destruct b as [|y b].
    + rewrite vadd_nil_r. cbn [vscale map]. rewrite vadd_nil_r. now rewrite extend_nil_0.
    + rewrite vadd_cons, vscale_cons, vadd_cons, IH. cbn [length]. rewrite extend_cons. f_equal. ring.
Qed.

Lemma vadd_vsub (a b : vec) : vadd (vsub a b) b = extend (length b) a.
Proof.
  rewrite vsub_def. revert b; induction a as [|x a IH]; intros b.
  - rewrite vadd_nil_l, extend_nil, vadd_comm. apply (vsub_self b).
  - destruct b as [|y b].
    + cbn [vscale map]. rewrite !vadd_nil_r. now rewrite extend_nil_0.
    + rewrite vscale_cons, !vadd_cons, IH. cbn [length]. rewrite extend_cons. f_equal. ring.
Qed.

Lemma vsub_vadd_veq (a b : vec) : veq (vsub (vadd a b) b) a.
Proof. rewrite vsub_vadd. apply veq_extend. Qed.

Lemma vsub_n_two (a b c : vec) : vsub_n a b [c] = vsub (vsub a b) c.
Proof.
  unfold vsub, vsub_n, vsum. cbn [fold_left].
  revert b c; induction a as [|x a IH]; intros b c.
  - rewrite !vadd_nil_l.
    revert c; induction b as [|y b IHb]; intros c.
    + now rewrite !vadd_nil_l.
    + destruct c as [|z c]; [now rewrite !vadd_nil_r|].
      rewrite vadd_cons, !vscale_cons, vadd_cons, IHb. f_equal. ring.
  - destruct b as [|y b].
    + rewrite vadd_nil_l. cbn [vscale map]. now rewrite vadd_nil_r.
    + destruct c as [|z c].
      * rewrite vadd_nil_r. cbn [vscale map]. now rewrite !vadd_nil_r.
      * rewrite vadd_cons, !vscale_cons, !vadd_cons, IH. f_equal. ring.
Qed.

(* ------------------------------------------------------------------------------------------------ *)
(* scaling                                                                                           *)

Lemma vscale_vadd (k : R) (a b : vec) : vscale k (vadd a b) = vadd (vscale k a) (vscale k b).
Proof.
  revert b; induction a as [|x a IH]; intros b.
  - cbn [vscale map]. now rewrite !vadd_nil_l.
  - destruct b as [|y b]; [cbn [vscale map]; now rewrite !vadd_nil_r|].
    rewrite vadd_cons, !vscale_cons, vadd_cons, IH. f_equal. ring.
Qed.

Lemma vscale_plus (k l : R) (a : vec) : vscale (k + l) a = vadd (vscale k a) (vscale l a).
Proof.
  induction a as [|x a IH]; [reflexivity|].
  rewrite !vscale_cons, vadd_cons, IH. f_equal. ring.
Qed.

Lemma vscale_vscale (k l : R) (a : vec) : vscale k (vscale l a) = vscale (k * l) a.
Proof.
  induction a as [|x a IH]; [reflexivity|].
  rewrite !vscale_cons, IH. f_equal. ring.
Qed.

Lemma vscale_one (a : vec) : vscale 1 a = a.
Proof.
  induction a as [|x a IH]; [reflexivity|]. rewrite vscale_cons, IH. f_equal. ring.
Qed.

Lemma vscale_vsub (k : R) (a b : vec) : vscale k (vsub a b) = vsub (vscale k a) (vscale k b).
Proof. rewrite !vsub_def, vscale_vadd, !vscale_vscale. do 2 f_equal. ring. Qed.

(* ------------------------------------------------------------------------------------------------ *)
(* dot product                                                                                       *)

Lemma dot_comm (a b : vec) : dot a b = dot b a.
Proof.
  revert b; induction a as [|x a IH]; intros b.
  - now rewrite dot_nil_l, dot_nil_r.
  - destruct b as [|y b]; [reflexivity|]. rewrite !dot_cons, IH. ring.
Qed.

Lemma dot_vadd_l (a b c : vec) : dot (vadd a b) c = dot a c + dot b c.
Proof.
  revert b c; induction a as [|x a IH]; intros b c.
  - rewrite vadd_nil_l, dot_nil_l. ring.
  - destruct b as [|y b]; [rewrite vadd_nil_r, dot_nil_l; ring|].
    destruct c as [|z c]; [rewrite !dot_nil_r; ring|].
    rewrite vadd_cons, !dot_cons, IH. ring.
Qed.

Lemma dot_vadd_r (a b c : vec) : dot a (vadd b c) = dot a b + dot a c.
Proof. rewrite dot_comm, dot_vadd_l, (dot_comm b), (dot_comm c). reflexivity. Qed.

Lemma dot_vscale_l (k : R) (a b : vec) : dot (vscale k a) b = k * dot a b.
Proof.
  revert b; induction a as [|x a IH]; intros b.
  - cbn [vscale map]. rewrite !dot_nil_l. ring.
  - destruct b as [|y b]; [rewrite !dot_nil_r; ring|].
    rewrite vscale_cons, !dot_cons, IH. ring.
Qed.

Lemma dot_vscale_r (k : R) (a b : vec) : dot a (vscale k b) = k * dot a b.
Proof. rewrite dot_comm, dot_vscale_l, dot_comm. reflexivity. Qed.

Lemma dot_vsub_l (a b c : vec) : dot (vsub a b) c = dot a c - dot b c.
Proof. rewrite vsub_def, dot_vadd_l, dot_vscale_l. ring. Qed.

(* missing components count as zero *)
Lemma dot_extend_l (n : nat) (a b : vec) : dot (extend n a) b = dot a b.
Proof.
  revert n b; induction a as [|x a IH]; intros n b.
  - rewrite extend_nil, dot_nil_l. revert b; induction n as [|n IHn]; intros b; [reflexivity|].
    destruct b as [|y b]; [reflexivity|]. cbn [repeat]. rewrite dot_cons, IHn. ring.
  - destruct n as [|n]; [now rewrite extend_nil_0|].
    rewrite extend_cons. destruct b as [|y b]; [now rewrite !dot_nil_r|].
    now rewrite !dot_cons, IH.
Qed.

Lemma dot_extend_r (n : nat) (a b : vec) : dot a (extend n b) = dot a b.
Proof. rewrite dot_comm, dot_extend_l. apply dot_comm. Qed.

Lemma dot_self_nonneg (v : vec) : 0 <= dot v v.
Proof.
  induction v as [|x v IH]; [rewrite dot_nil_l; lra|]. rewrite dot_cons. nra.
Qed.

Lemma dot_self_zero_iff (v : vec) : dot v v = 0 <-> Forall (fun x => x = 0) v.
Proof.
  induction v as [|x v IH]; [rewrite dot_nil_l; split; auto|].
  rewrite dot_cons. pose proof (dot_self_nonneg v) as P. split.
  - intros H. assert (x = 0) by nra. constructor; [assumption|]. apply IH. nra.
  - intros H. inversion H as [|? ? Hx Hv]; subst. apply IH in Hv. nra.
Qed.

Lemma mag2_dot (v : vec) : mag2 v = dot v v.
Proof. reflexivity. Qed.

(* the magnitude (a square root) squared is the self dot product *)
Lemma mag_sq (v : vec) : mag v * mag v = dot v v.
Proof. unfold mag. apply sqrt_sqrt, dot_self_nonneg. Qed.

Lemma mag_nonneg (v : vec) : 0 <= mag v.
Proof. apply sqrt_pos. Qed.

Lemma mag_vscale (k : R) (v : vec) : mag (vscale k v) = Rabs k * mag v.
Proof.
  unfold mag. rewrite dot_vscale_l, dot_vscale_r, <- Rmult_assoc.
  rewrite sqrt_mult_alt by nra. f_equal.
  replace (k * k) with (k²) by reflexivity. apply sqrt_Rsqr_abs.
Qed.

(* ------------------------------------------------------------------------------------------------ *)
(* cross product (at most three components, zero padded)                                             *)

Ltac len3 a H :=
  destruct a as [|? [|? [|? [|? ?]]]]; [ | | | | exfalso; cbn in H; lia ]; clear H.

Lemma cross_opt_some (a b : vec) :
  (length a <= 3)%nat -> (length b <= 3)%nat -> cross_opt a b = Some (cross a b).
Proof. intros Ha Hb. len3 a Ha; len3 b Hb; reflexivity. Qed.

Lemma cross_opt_none (a b : vec) :
  (3 < length a)%nat \/ (3 < length b)%nat -> cross_opt a b = None.
Proof.
  intros [H | H].
  - destruct a as [|? [|? [|? [|? ?]]]]; cbn in H; try lia.
    unfold cross_opt, extend_two, extend_two_gen, extend_gen. cbn. reflexivity.
  - destruct b as [|? [|? [|? [|? ?]]]]; cbn in H; try lia.
    unfold cross_opt, extend_two, extend_two_gen, extend_gen.
    destruct a as [|? [|? [|? [|? ?]]]]; cbn; reflexivity.
Qed.

Lemma cross_opt_defined (a b : vec) :
  ((length a <= 3)%nat -> (length b <= 3)%nat -> cross_opt a b = Some (cross a b)) /\
  ((3 < length a)%nat \/ (3 < length b)%nat -> cross_opt a b = None).
Proof. split; [apply cross_opt_some | apply cross_opt_none]. Qed.

Lemma cross_length (a b : vec) : (length a <= 3)%nat -> (length b <= 3)%nat -> length (cross a b) = 3%nat.
Proof. intros Ha Hb. len3 a Ha; len3 b Hb; reflexivity. Qed.

Lemma cross_antisym (a b : vec) :
  (length a <= 3)%nat -> (length b <= 3)%nat -> cross a b = vscale (-1) (cross b a).
Proof. intros Ha Hb. len3 a Ha; len3 b Hb; cv_unfold; cv_list; ring. Qed.

Lemma cross_self (a : vec) : (length a <= 3)%nat -> cross a a = [0; 0; 0].
Proof. intros Ha. len3 a Ha; cv_unfold; cv_list; ring. Qed.

Lemma cross_vadd_l (a b c : vec) :
  (length a <= 3)%nat -> (length b <= 3)%nat -> (length c <= 3)%nat ->
  cross (vadd a b) c = vadd (cross a c) (cross b c).
Proof. intros Ha Hb Hc. len3 a Ha; len3 b Hb; len3 c Hc; cv_unfold; cv_list; ring. Qed.

Lemma cross_vadd_r (a b c : vec) :
  (length a <= 3)%nat -> (length b <= 3)%nat -> (length c <= 3)%nat ->
  cross a (vadd b c) = vadd (cross a b) (cross a c).
Proof. intros Ha Hb Hc. len3 a Ha; len3 b Hb; len3 c Hc; cv_unfold; cv_list; ring. Qed.

Lemma cross_vscale_l (k : R) (a b : vec) :
  (length a <= 3)%nat -> (length b <= 3)%nat -> cross (vscale k a) b = vscale k (cross a b).
Proof. intros Ha Hb. len3 a Ha; len3 b Hb; cv_unfold; cv_list; ring. Qed.

Lemma cross_vscale_r (k : R) (a b : vec) :
  (length a <= 3)%nat -> (length b <= 3)%nat -> cross a (vscale k b) = vscale k (cross a b).
Proof. intros Ha Hb. len3 a Ha; len3 b Hb; cv_unfold; cv_list; ring. Qed.

Lemma cross_orth_l (a b : vec) :
  (length a <= 3)%nat -> (length b <= 3)%nat -> dot (cross a b) a = 0.
Proof. intros Ha Hb. len3 a Ha; len3 b Hb; cv_unfold; ring. Qed.

Lemma cross_orth_r (a b : vec) :
  (length a <= 3)%nat -> (length b <= 3)%nat -> dot (cross a b) b = 0.
Proof. intros Ha Hb. len3 a Ha; len3 b Hb; cv_unfold; ring. Qed.

Lemma cross_lagrange (a b : vec) :
  (length a <= 3)%nat -> (length b <= 3)%nat ->
  mag2 (cross a b) = mag2 a * mag2 b - dot a b * dot a b.
Proof. intros Ha Hb. len3 a Ha; len3 b Hb; cv_unfold; ring. Qed.

Lemma cross_extend_l (a b : vec) :
  (length a <= 3)%nat -> (length b <= 3)%nat -> cross (extend 3 a) b = cross a b.
Proof. intros Ha Hb. len3 a Ha; len3 b Hb; reflexivity. Qed.

Lemma cross_extend_r (a b : vec) :
  (length a <= 3)%nat -> (length b <= 3)%nat -> cross a (extend 3 b) = cross a b.
Proof. intros Ha Hb. len3 a Ha; len3 b Hb; reflexivity. Qed.

(* ------------------------------------------------------------------------------------------------ *)
(* projection, rejection, unit vector                                                                *)

Lemma vadd_p_v_minus_p (p v : vec) : vadd p (vadd v (vscale (-1) p)) = extend (length p) v.
Proof.
  rewrite <- vadd_assoc, (vadd_comm p v), vadd_assoc.
  change (vadd p (vscale (-1) p)) with (vsub p p). rewrite vsub_self.
  revert p; induction v as [|x v IH]; intros p.
  - now rewrite vadd_nil_l, extend_nil.
  - destruct p as [|y p]; [cbn [length repeat]; now rewrite vadd_nil_r, extend_nil_0|].
    cbn [length repeat]. rewrite vadd_cons, IH, extend_cons. f_equal. ring.
Qed.

Lemma project_length (v t : vec) : length (project v t) = length t.
Proof. apply vscale_length. Qed.

Lemma project_reject (v t : vec) : vadd (project v t) (reject v t) = extend (length t) v.
Proof. unfold reject. rewrite vadd_p_v_minus_p, project_length. reflexivity. Qed.

Lemma project_reject_veq (v t : vec) : veq (vadd (project v t) (reject v t)) v.
Proof. rewrite project_reject. apply veq_extend. Qed.

Lemma reject_orth (v t : vec) : dot t t <> 0 -> dot (reject v t) t = 0.
Proof.
  intros H. unfold reject, project. rewrite dot_vadd_l, !dot_vscale_l. field. exact H.
Qed.

Lemma project_parallel_dot (v t : vec) : dot t t <> 0 -> dot (project v t) t = dot v t.
Proof. intros H. unfold project. rewrite dot_vscale_l. field. exact H. Qed.

Lemma nonzero_dot (v : vec) : (exists x, In x v /\ x <> 0) -> dot v v <> 0.
Proof.
  intros [x [Hin Hx]] H. apply dot_self_zero_iff in H. rewrite Forall_forall in H. auto.
Qed.

Lemma unit_mag_dot (v : vec) : dot v v <> 0 -> mag (unit v) = 1.
Proof.
  intros H. unfold unit. rewrite mag_vscale.
  pose proof (dot_self_nonneg v) as P.
  assert (Hm : 0 < mag v) by (apply sqrt_lt_R0; lra).
  rewrite Rabs_pos_eq.
  - field. lra.
  - apply Rlt_le. apply Rdiv_lt_0_compat; lra.
Qed.

Lemma unit_mag (v : vec) : (exists x, In x v /\ x <> 0) -> mag (unit v) = 1.
Proof. intros H. apply unit_mag_dot, nonzero_dot, H. Qed.

Lemma unit_length (v : vec) : length (unit v) = length v.
Proof. apply vscale_length. Qed.

(* ------------------------------------------------------------------------------------------------ *)
(* equal_vectors on rationals                                                                        *)

Lemma veqbQ_spec (a b : list Q) :
  veqbQ a b = true <-> forall i, (nth i a 0 == nth i b 0)%Q.
Proof.
  unfold veqbQ, extend_two_gen.
  set (n := Nat.max (length a) (length b)).
  assert (La : length (extend_gen 0%Q n a) = n)
    by (unfold extend_gen; rewrite app_length, repeat_length; lia).
  assert (Lb : length (extend_gen 0%Q n b) = n)
    by (unfold extend_gen; rewrite app_length, repeat_length; lia).
  assert (Nx : forall (v : list Q) i, nth i (extend_gen 0%Q n v) 0%Q = nth i v 0%Q).
  { intros v i. unfold extend_gen.
    destruct (Nat.lt_ge_cases i (length v)) as [H | H].
    - now rewrite app_nth1.
    - rewrite app_nth2 by exact H. rewrite (nth_overflow v) by exact H.
      generalize (i - length v)%nat as j. generalize (n - length v)%nat as k.
      induction k; intros [|j]; cbn; auto. }
  rewrite forallb_forall. split.
  - intros H i. rewrite <- (Nx a i), <- (Nx b i).
    destruct (Nat.lt_ge_cases i n) as [Hi | Hi].
    + apply Qeq_bool_iff.
      apply (H (nth i (extend_gen 0%Q n a) 0%Q, nth i (extend_gen 0%Q n b) 0%Q)).
      rewrite <- combine_nth by lia. apply nth_In. rewrite combine_length. lia.
    + rewrite !nth_overflow by lia. reflexivity.
  - intros H [x y] Hin. cbn [fst snd]. apply Qeq_bool_iff.
    apply (In_nth _ _ (0%Q, 0%Q)) in Hin. destruct Hin as [i [Hi E]].
    rewrite combine_nth in E by lia. inversion E. rewrite !Nx. apply H.
Qed.

(* ------------------------------------------------------------------------------------------------ *)
(* refusal rules                                                                                     *)

Lemma add2_accept_iff (l r : vshape) :
  add2_outcome l r = Accept <->
  same_sys (fst l) (fst r) = true /\ is_cart (fst l) = true /\ is_cart (fst r) = true.
Proof.
  unfold add2_outcome.
  destruct (same_sys (fst l) (fst r)), (is_cart (fst l)), (is_cart (fst r)); cbn; intuition discriminate.
Qed.

Lemma add_accept_iff (l r : vshape) :
  fst (add_outcome [l; r]) = Accept <->
  same_sys (fst l) (fst r) = true /\ is_cart (fst l) = true /\ is_cart (fst r) = true.
Proof.
  rewrite <- add2_accept_iff. cbn. destruct (add2_outcome l r); cbn; intuition discriminate.
Qed.

Lemma sub_accept_iff (l r : vshape) :
  sub_outcome [l; r] = Accept <->
  same_sys (fst l) (fst r) = true /\ is_cart (fst l) = true /\ is_cart (fst r) = true.
Proof. rewrite <- add2_accept_iff. cbn. reflexivity. Qed.

Lemma dot_accept_cart_iff (l r : vshape) :
  is_cart (fst l) = true -> (dot_outcome l r = Accept <-> same_sys (fst l) (fst r) = true).
Proof.
  intros C. unfold dot_outcome. rewrite C.
  destruct (same_sys (fst l) (fst r)); cbn; intuition discriminate.
Qed.

Lemma dot_refuses_mixed (l r : vshape) :
  same_sys (fst l) (fst r) = false -> dot_outcome l r = Refuse E_TYPE.
Proof. intros H. unfold dot_outcome. now rewrite H. Qed.

Lemma equal_accept_iff (l r : vshape) :
  equal_outcome l r = Accept <-> same_sys (fst l) (fst r) = true.
Proof. unfold equal_outcome. destruct (same_sys (fst l) (fst r)); cbn; intuition discriminate. Qed.

Lemma cross_accept_iff (l r : vshape) :
  cross_outcome l r = Accept <->
  same_sys (fst l) (fst r) = true /\ is_cart (fst l) = true /\ is_cart (fst r) = true /\
  (snd l <= 3)%nat /\ (snd r <= 3)%nat.
Proof.
  unfold cross_outcome.
  destruct (same_sys (fst l) (fst r)), (is_cart (fst l)), (is_cart (fst r)); cbn [negb];
    try (intuition discriminate).
  destruct (Nat.ltb_spec 3 (snd l)), (Nat.ltb_spec 3 (snd r)); split; intros A;
    try discriminate A; try (exfalso; lia); try reflexivity; repeat split; auto; lia.
Qed.

Lemma project_accept_cart_iff (o t : vshape) :
  is_cart (fst o) = true -> is_cart (fst t) = true ->
  (project_outcome o t = Accept <-> same_sys (fst o) (fst t) = true).
Proof.
  intros Co Ct. unfold project_outcome, dot_outcome.
  assert (St : same_sys (fst t) (fst t) = true) by apply N.eqb_refl. rewrite Co, Ct, St.
  destruct (same_sys (fst o) (fst t)); cbn; intuition discriminate.
Qed.

Lemma reject_accept_iff (o t : vshape) :
  reject_outcome o t = Accept <->
  same_sys (fst o) (fst t) = true /\ is_cart (fst o) = true /\ is_cart (fst t) = true.
Proof.
  unfold reject_outcome, project_outcome, dot_outcome, add2_outcome, same_sys.
  rewrite N.eqb_refl.
  destruct (N.eqb (cs_id (fst o)) (cs_id (fst t))), (is_cart (fst o)), (is_cart (fst t)),
    ((3 <? snd o)%nat), ((3 <? snd t)%nat); cbn [negb orb bind_outcome]; intuition discriminate.
Qed.

(* the property's refusal clause, for every binary operation of the module:
   different system objects are always refused; non-Cartesian operands of a sum, difference, cross product or
   rejection are refused; Cartesian operands of one system with at most three components are accepted *)
Definition needs_cartesian (op : binop) : bool :=
  match op with OpAdd | OpSub | OpCross | OpReject => true | _ => false end.

Lemma binop_refuses_mixed (op : binop) (l r : vshape) :
  same_sys (fst l) (fst r) = false -> binop_outcome op l r <> Accept.
Proof.
  intros H A. destruct op; cbn [binop_outcome] in A.
  - apply add_accept_iff in A. destruct A; congruence.
  - apply sub_accept_iff in A. destruct A; congruence.
  - unfold dot_outcome in A. rewrite H in A. discriminate A.
  - apply cross_accept_iff in A. destruct A; congruence.
  - apply equal_accept_iff in A. congruence.
  - unfold project_outcome, dot_outcome in A. rewrite H in A. discriminate A.
  - apply reject_accept_iff in A. destruct A; congruence.
Qed.

Lemma binop_refuses_noncartesian (op : binop) (l r : vshape) :
  needs_cartesian op = true -> is_cart (fst l) = false \/ is_cart (fst r) = false ->
  binop_outcome op l r <> Accept.
Proof.
  intros Hop Hc A. destruct op; try discriminate Hop; cbn [binop_outcome] in A.
  - apply add_accept_iff in A. destruct A as (_ & A1 & A2). destruct Hc; congruence.
  - apply sub_accept_iff in A. destruct A as (_ & A1 & A2). destruct Hc; congruence.
  - apply cross_accept_iff in A. destruct A as (_ & A1 & A2 & _). destruct Hc; congruence.
  - apply reject_accept_iff in A. destruct A as (_ & A1 & A2). destruct Hc; congruence.
Qed.

Lemma binop_accepts_cartesian (op : binop) (l r : vshape) :
  same_sys (fst l) (fst r) = true -> is_cart (fst l) = true -> is_cart (fst r) = true ->
  (snd l <= 3)%nat -> (snd r <= 3)%nat -> binop_outcome op l r = Accept.
Proof.
  intros S Cl Cr Ll Lr. destruct op; cbn [binop_outcome].
  - apply add_accept_iff; auto.
  - apply sub_accept_iff; auto.
  - apply dot_accept_cart_iff; auto.
  - apply cross_accept_iff; auto.
  - apply equal_accept_iff; auto.
  - apply project_accept_cart_iff; auto.
  - apply reject_accept_iff; auto.
Qed.

Lemma cross_refuses_long (l r : vshape) :
  (3 < snd l)%nat \/ (3 < snd r)%nat -> cross_outcome l r <> Accept.
Proof. intros H A. apply cross_accept_iff in A. lia. Qed.

(* ------------------------------------------------------------------------------------------------ *)
(* non-vacuity                                                                                       *)

Example ex_vadd_pad : vadd [1; 2] [10; 20; 30] = [11; 22; 30].
Proof. cv_unfold. cv_list; ring. Qed.

Example ex_cross_xy : cross [1] [0; 1] = [0; 0; 1].
Proof. cv_unfold. cv_list; ring. Qed.

Example ex_cross_long : cross_opt [1; 2; 3; 4] [1] = None.
Proof. reflexivity. Qed.

Example ex_dot_pad : dot [1; 2; 3] [4; 5] = 14.
Proof. cv_unfold. ring. Qed.

Example ex_project : project [1; 1] [2] = [1].
Proof. cv_unfold. cv_list. field. Qed.

Example ex_reject : reject [1; 1] [2] = [0; 1].
Proof. cv_unfold. cv_list; field. Qed.

Example ex_unit_hyp : exists x, In x [3; 4] /\ x <> 0.
Proof. exists 3. split; [now left | lra]. Qed.

Example ex_refuse_mixed :
  binop_outcome OpAdd (mk_csys 1 Cartesian, 2%nat) (mk_csys 2 Cartesian, 2%nat) = Refuse E_VALUE.
Proof. reflexivity. Qed.

Example ex_refuse_cyl_cross :
  binop_outcome OpCross (mk_csys 1 Cylindrical, 3%nat) (mk_csys 1 Cylindrical, 3%nat) = Refuse E_VALUE.
Proof. reflexivity. Qed.

Example ex_accept_cyl_dot :
  binop_outcome OpDot (mk_csys 1 Cylindrical, 3%nat) (mk_csys 1 Cylindrical, 3%nat) = Accept.
Proof. reflexivity. Qed.

Example ex_veqbQ_pad : veqbQ [1#1; 2#1]%Q [1#1; 2#1; 0#1]%Q = true /\ veqbQ [1#1]%Q [1#1; 2#1]%Q = false.
Proof. split; reflexivity. Qed.
