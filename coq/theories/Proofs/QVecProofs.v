From Coq Require Import List QArith ZArith Bool NArith Lia.
From VP Require Import Base.Util Base.Dim Base.Val Model.CollectQ Model.Gate Model.QVec Proofs.DimProofs Proofs.GateProofs.
Import ListNotations.

(* a quantity vector is constructed only if EVERY component passes the gate against the vector's dimension
   (or against the angle dimension in an angle slot) *)
Lemma check_components_all sys d qs : forall idx,
  check_components sys idx d qs = None ->
  forall i v qd, nth_error qs i = Some (v, qd) ->
    gate1 (GExpr (QQty v qd)) (GDim (if is_angle_component sys (idx + i) then base ANGLE else d)) = None.
Proof.
  induction qs as [|[v0 qd0] r IH]; intros idx H i v qd Hn; [destruct i; discriminate|].
  cbn [check_components] in H.
  destruct (gate1 (GExpr (QQty v0 qd0)) (GDim (if is_angle_component sys idx then base ANGLE else d))) eqn:E; [discriminate|].
  destruct i as [|i]; cbn in Hn.
  - inversion Hn; subst. rewrite Nat.add_0_r. exact E.
  - replace (idx + S i)%nat with (S idx + i)%nat by lia. eapply IH; eassumption.
Qed.

Theorem qvec_every_component_checked sys comps o d :
  qvec_ctor sys comps o = Ok d ->
  exists qs, resolve_all o comps = Ok qs /\
    d = match o with Some x => x | None => first_dimension qs end /\
    forall i v qd, nth_error qs i = Some (v, qd) ->
      gate1 (GExpr (QQty v qd)) (GDim (if is_angle_component sys i then base ANGLE else d)) = None.
Proof.
  unfold qvec_ctor. destruct (resolve_all o comps) as [qs|k]; [|discriminate].
  destruct (check_components sys 0 _ qs) eqn:E; [discriminate|]. intros H; inversion H; subst.
  exists qs. repeat split; auto. intros i v qd Hn. exact (check_components_all sys _ qs 0%nat E i v qd Hn).
Qed.

Theorem qvec_first_failure_refuses sys comps o qs i v qd k :
  resolve_all o comps = Ok qs ->
  nth_error qs i = Some (v, qd) ->
  gate1 (GExpr (QQty v qd))
    (GDim (if is_angle_component sys i then base ANGLE else match o with Some x => x | None => first_dimension qs end)) = Some k ->
  exists k', qvec_ctor sys comps o = Err k'.
Proof.
  intros Hr Hn Hg. unfold qvec_ctor. rewrite Hr.
  destruct (check_components sys 0 _ qs) eqn:E; [eexists; reflexivity|].
  pose proof (check_components_all sys _ qs 0%nat E i v qd Hn) as H. rewrite Nat.add_0_l in H. rewrite H in Hg. discriminate Hg.
Qed.
