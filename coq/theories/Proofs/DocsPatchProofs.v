(* Lemmas about Model/DocsPatch.v (C19). *)
From Coq Require Import List Bool Arith String Ascii Lia.
From VP Require Import Model.DocsPatch.
Import ListNotations.
Local Notation length := List.length.

(* ------------------------------------------------------------------------------------------- *)
(* A. list.insert and the offset arithmetic of the two inserts                                   *)
(* ------------------------------------------------------------------------------------------- *)

Lemma insert_at_app_r {A} (n : nat) (x : A) (pre l : list A) :
  length pre <= n -> insert_at n x (pre ++ l) = pre ++ insert_at (n - length pre) x l.
Proof.
  intros H. unfold insert_at.
  rewrite firstn_app, skipn_app.
  rewrite (firstn_all2 pre) by exact H.
  rewrite (skipn_all2 pre) by exact H.
  cbn. now rewrite <- app_assoc.
Qed.

(* non-decreasing, starting at prev *)
Fixpoint chain (prev : nat) (ds : list nat) : Prop :=
  match ds with
  | [] => True
  | d :: r => prev <= d /\ chain d r
  end.

(* the result of the insert loop written without offsets: tl is the part of the list that can still change,
   prev the previous disabled index *)
Fixpoint weave (tl : list pstmt) (prev : nat) (ds : list nat) : list pstmt :=
  match ds with
  | [] => tl
  | d :: ds' =>
      match skipn (d - prev) tl with
      | x :: rest => firstn (d - prev) tl ++ PDisable :: x :: weave (PReset :: rest) d ds'
      | [] => tl
      end
  end.

Lemma skipn_cons_length {A} (r : nat) (l : list A) x rest :
  skipn r l = x :: rest -> r < length l /\ length rest = length l - r - 1 /\ length (firstn r l) = r.
Proof.
  intros H.
  assert (L : length (skipn r l) = length l - r) by apply skipn_length.
  rewrite H in L. cbn in L.
  repeat split; try lia.
  rewrite firstn_length. lia.
Qed.

Lemma apply_inserts_weave :
  forall ds done tl off prev,
    length done = prev + off ->
    chain prev ds ->
    (forall d, In d ds -> d - prev < length tl) ->
    apply_inserts (done ++ tl) off ds = done ++ weave tl prev ds.
Proof.
  induction ds as [|d ds IH]; intros done tl off prev Hlen Hch Hin; cbn [apply_inserts weave].
  - reflexivity.
  - destruct Hch as [Hle Hch].
    assert (Hr : d - prev < length tl) by (apply Hin; now left).
    destruct (skipn (d - prev) tl) as [|x rest] eqn:Hsk.
    { assert (L : length (skipn (d - prev) tl) = length tl - (d - prev)) by apply skipn_length.
      rewrite Hsk in L. cbn in L. lia. }
    destruct (skipn_cons_length _ _ _ _ Hsk) as (_ & Hrest & Hfirst).
    rewrite insert_at_app_r by lia.
    replace (d + off - length done) with (d - prev) by lia.
    unfold insert_at at 2. rewrite Hsk.
    replace (done ++ firstn (d - prev) tl ++ PDisable :: x :: rest)
      with ((done ++ firstn (d - prev) tl ++ [PDisable; x]) ++ rest)
      by (repeat rewrite <- app_assoc; reflexivity).
    rewrite insert_at_app_r by (repeat rewrite app_length; cbn; lia).
    replace (d + (off + 1) + 1 - length (done ++ firstn (d - prev) tl ++ [PDisable; x])) with 0
      by (repeat rewrite app_length; cbn; lia).
    unfold insert_at. cbn [firstn skipn app].
    rewrite (IH _ (PReset :: rest) (off + 1 + 1) d).
    + repeat rewrite <- app_assoc. reflexivity.
    + repeat rewrite app_length; cbn; lia.
    + exact Hch.
    + intros d' Hd'. cbn [length].
      assert (d' - prev < length tl) by (apply Hin; now right).
      assert (d <= d').
      { clear - Hch Hd'. revert d Hch Hd'. induction ds as [|e ds IHd]; intros d Hch Hd'; [contradiction|].
        destruct Hch as [H1 H2]. destruct Hd' as [->|Hd']; [exact H1|].
        specialize (IHd e H2 Hd'). lia. }
      lia.
Qed.

(* ------------------------------------------------------------------------------------------- *)
(* B. executing a woven list                                                                     *)
(* ------------------------------------------------------------------------------------------- *)

Definition plain1 (s : pstmt) : Prop := match s with POrig _ _ | PImport => True | _ => False end.
Definition plain (l : list pstmt) : Prop := Forall plain1 l.
Definition run (p : pstate) (l : list pstmt) : pstate := fold_left pstmt_run l p.

Lemma run_app p l1 l2 : run p (l1 ++ l2) = run (run p l1) l2.
Proof. unfold run. apply fold_left_app. Qed.

Lemma run_plain l p : plain l -> run p l = p.
Proof.
  intros H; revert p; induction H as [|s l Hs _ IH]; intros p; cbn; [reflexivity|].
  destruct s; cbn in Hs; try contradiction; apply IH.
Qed.

Lemma plain_firstn n l : plain l -> plain (firstn n l).
Proof.
  intros H; revert n; induction H as [|s l Hs Hl IH]; intros [|n]; cbn; try constructor; auto; try apply IH; try (constructor; assumption).
Qed.

Lemma plain_skipn n l : plain l -> plain (skipn n l).
Proof.
  intros H; revert n; induction H as [|s l Hs Hl IH]; intros [|n]; cbn; try constructor; auto; try apply IH; try (constructor; assumption).
Qed.

Lemma plain_skipn_cons n l x rest : plain l -> skipn n l = x :: rest -> plain1 x /\ plain rest.
Proof. intros H E. apply (plain_skipn n) in H. rewrite E in H. inversion H; auto. Qed.

Lemma weave_run_R :
  forall ds tl prev p, plain tl -> old p = true -> run p (weave (PReset :: tl) prev ds) = mkP true true.
Proof.
  induction ds as [|d ds IH]; intros tl prev p Hpl Hold.
  - cbn. rewrite Hold. apply (run_plain tl _ Hpl).
  - cbn [weave]. destruct (d - prev) as [|r0].
    + cbn [skipn firstn app]. cbn [run fold_left pstmt_run op_run]. apply IH; [exact Hpl|cbn; exact Hold].
    + cbn [skipn firstn]. destruct (skipn r0 tl) as [|x rest] eqn:E.
      * cbn. rewrite Hold. apply (run_plain tl _ Hpl).
      * destruct (plain_skipn_cons _ _ _ _ Hpl E) as [Hx Hrest].
        cbn [app]. cbn [run fold_left]. fold (run (pstmt_run p PReset) (firstn r0 tl ++ PDisable :: x :: weave (PReset :: rest) d ds)).
        rewrite run_app. rewrite (run_plain (firstn r0 tl)) by (now apply plain_firstn).
        cbn [run fold_left]. fold (run (pstmt_run (pstmt_run (pstmt_run p PReset) PDisable) x) (weave (PReset :: rest) d ds)).
        apply IH; [exact Hrest|].
        destruct x; cbn in Hx; try contradiction; cbn; auto.
Qed.

Lemma weave_run_top : forall ds tl, plain tl -> run (mkP true true) (weave tl 0 ds) = mkP true true.
Proof.
  intros [|d ds] tl Hpl; cbn [weave]; [now apply run_plain|].
  destruct (skipn (d - 0) tl) as [|x rest] eqn:E; [now apply run_plain|].
  destruct (plain_skipn_cons _ _ _ _ Hpl E) as [Hx Hrest].
  rewrite run_app. rewrite (run_plain (firstn (d - 0) tl)) by (now apply plain_firstn).
  cbn [run fold_left]. fold (run (pstmt_run (pstmt_run (mkP true true) PDisable) x) (weave (PReset :: rest) d ds)).
  apply weave_run_R; [exact Hrest|]. destruct x; cbn in Hx; try contradiction; cbn; auto.
Qed.

(* traces *)
Lemma trace_p_app p l1 l2 : trace_p p (l1 ++ l2) = trace_p p l1 ++ trace_p (run p l1) l2.
Proof.
  revert p; induction l1 as [|s l1 IH]; intros p; cbn; [reflexivity|].
  destruct s; cbn; try apply IH. f_equal. apply IH.
Qed.

Lemma trace_plain l p i b : plain l -> In (i, b) (trace_p p l) -> b = flag p.
Proof.
  intros H; revert p; induction H as [|s l Hs _ IH]; intros p Hin; cbn in Hin; [contradiction|].
  destruct s; cbn in Hs; try contradiction.
  - now apply IH.
  - destruct Hin as [E|Hin]; [now inversion E|now apply IH].
Qed.

Lemma skipn_nth_error {A} : forall r (l : list A) x rest,
  skipn r l = x :: rest -> nth_error l r = Some x /\ forall k, nth_error rest k = nth_error l (r + 1 + k).
Proof.
  induction r as [|r IH]; intros l x rest H.
  - cbn in H. subst l. split; [reflexivity|]. intros k. reflexivity.
  - destruct l as [|y l]; [discriminate|]. cbn in H. destruct (IH _ _ _ H) as [H1 H2]. split; [exact H1|].
    intros k. cbn. apply H2.
Qed.

Lemma chain_ge : forall ds d d', chain d ds -> In d' ds -> d <= d'.
Proof.
  induction ds as [|e ds IH]; intros d d' Hch Hin; [contradiction|].
  destruct Hch as [H1 H2]. destruct Hin as [->|Hin]; [exact H1|]. specialize (IH _ _ H2 Hin). lia.
Qed.

Lemma weave_trace_R :
  forall ds tl prev p,
    plain tl -> old p = true -> chain prev ds ->
    (forall d, In d ds -> d - prev < S (length tl)) ->
    forall i, In (i, false) (trace_p p (weave (PReset :: tl) prev ds)) <->
              exists d s, In d ds /\ prev < d /\ nth_error tl (d - prev - 1) = Some (POrig i s).
Proof.
  induction ds as [|d ds IH]; intros tl prev p Hpl Hold Hch Hrng i.
  - cbn [weave trace_p]. split.
    + intros Hin. apply (trace_plain _ _ _ _ Hpl) in Hin. cbn in Hin. rewrite Hold in Hin. discriminate.
    + intros (d & s & [] & _).
  - destruct Hch as [Hle Hch]. cbn [weave].
    destruct (d - prev) as [|r0] eqn:Er.
    + assert (d = prev) by lia. subst d.
      cbn [skipn firstn app trace_p].
      rewrite (IH tl prev _ Hpl); [|cbn; exact Hold|exact Hch|intros d' Hd'; apply Hrng; now right].
      split.
      * intros (d' & s & Hd' & Hlt & Hn). exists d', s. split; [now right|auto].
      * intros (d' & s & [->|Hd'] & Hlt & Hn); [lia|]. exists d', s. auto.
    + cbn [skipn firstn]. destruct (skipn r0 tl) as [|x rest] eqn:E.
      { exfalso. assert (L : length (skipn r0 tl) = length tl - r0) by apply skipn_length.
        rewrite E in L. cbn in L. assert (d - prev < S (length tl)) by (apply Hrng; now left). lia. }
      destruct (plain_skipn_cons _ _ _ _ Hpl E) as [Hx Hrest].
      destruct (skipn_nth_error _ _ _ _ E) as [Hnx Hnrest].
      destruct (skipn_cons_length _ _ _ _ E) as (Hr0 & Hlrest & _).
      cbn [app trace_p]. rewrite trace_p_app. rewrite in_app_iff.
      rewrite run_plain by (now apply plain_firstn).
      assert (IH' := IH rest d (pstmt_run (pstmt_run (pstmt_run p PReset) PDisable) x) Hrest).
      assert (Hold' : old (pstmt_run (pstmt_run (pstmt_run p PReset) PDisable) x) = true)
        by (destruct x; cbn in Hx; try contradiction; cbn; auto).
      specialize (IH' Hold' Hch).
      assert (Hrng' : forall d0, In d0 ds -> d0 - d < S (length rest)).
      { intros d0 Hd0. assert (d0 - prev < S (length tl)) by (apply Hrng; now right). lia. }
      specialize (IH' Hrng' i).
      split.
      * intros [Hin|Hin].
        { apply (trace_plain _ _ _ _ (plain_firstn r0 tl Hpl)) in Hin. cbn in Hin. rewrite Hold in Hin. discriminate. }
        destruct x as [| | |j sx]; cbn in Hx; try contradiction.
        -- cbn [trace_p] in Hin. apply IH' in Hin. destruct Hin as (d' & s & Hd' & Hlt & Hn).
           exists d', s. split; [now right|]. split; [lia|]. rewrite Hnrest in Hn. rewrite <- Hn. f_equal. lia.
        -- cbn [trace_p] in Hin. destruct Hin as [Eq|Hin].
           ++ inversion Eq; subst j. exists d, sx. split; [now left|]. split; [lia|].
              replace (d - prev - 1) with r0 by lia. exact Hnx.
           ++ apply IH' in Hin. destruct Hin as (d' & s & Hd' & Hlt & Hn).
              exists d', s. split; [now right|]. split; [lia|]. rewrite Hnrest in Hn. rewrite <- Hn. f_equal. lia.
      * intros (d' & s & Hd' & Hlt & Hn). right.
        assert (Hcase : d' = d \/ (In d' ds /\ d < d')).
        { destruct Hd' as [->|Hd']; [now left|]. assert (d <= d') by (eapply chain_ge; eauto).
          destruct (Nat.eq_dec d' d); [now left|right; split; [assumption|lia]]. }
        destruct Hcase as [->|[Hd'' Hlt']].
        -- replace (d - prev - 1) with r0 in Hn by lia. rewrite Hnx in Hn. inversion Hn; subst x.
           cbn [trace_p pstmt_run op_run flag]. now left.
        -- assert (In (i, false) (trace_p (pstmt_run (pstmt_run (pstmt_run p PReset) PDisable) x) (weave (PReset :: rest) d ds))).
           { apply IH'. exists d', s. split; [assumption|]. split; [assumption|]. rewrite Hnrest. rewrite <- Hn. f_equal. lia. }
           destruct x; cbn in Hx; try contradiction; cbn [trace_p]; [assumption|now right].
Qed.

Lemma weave_trace_top :
  forall ds tl,
    plain tl -> chain 0 ds -> (forall d, In d ds -> d < length tl) ->
    forall i, In (i, false) (trace_p (mkP true true) (weave tl 0 ds)) <->
              exists d s, In d ds /\ nth_error tl d = Some (POrig i s).
Proof.
  intros [|d ds] tl Hpl Hch Hrng i.
  - cbn [weave]. split.
    + intros Hin. apply (trace_plain _ _ _ _ Hpl) in Hin. discriminate.
    + intros (d & s & [] & _).
  - destruct Hch as [_ Hch]. cbn [weave]. rewrite Nat.sub_0_r.
    destruct (skipn d tl) as [|x rest] eqn:E.
    { exfalso. assert (L : length (skipn d tl) = length tl - d) by apply skipn_length.
      rewrite E in L. cbn in L. assert (d < length tl) by (apply Hrng; now left). lia. }
    destruct (plain_skipn_cons _ _ _ _ Hpl E) as [Hx Hrest].
    destruct (skipn_nth_error _ _ _ _ E) as [Hnx Hnrest].
    destruct (skipn_cons_length _ _ _ _ E) as (Hr0 & Hlrest & _).
    rewrite trace_p_app, in_app_iff. rewrite run_plain by (now apply plain_firstn).
    assert (IH' := weave_trace_R ds rest d (pstmt_run (pstmt_run (mkP true true) PDisable) x) Hrest).
    assert (Hold' : old (pstmt_run (pstmt_run (mkP true true) PDisable) x) = true)
      by (destruct x; cbn in Hx; try contradiction; cbn; auto).
    specialize (IH' Hold' Hch).
    assert (Hrng' : forall d0, In d0 ds -> d0 - d < S (length rest)).
    { intros d0 Hd0. assert (d0 < length tl) by (apply Hrng; now right). lia. }
    specialize (IH' Hrng' i).
    split.
    + intros [Hin|Hin].
      { apply (trace_plain _ _ _ _ (plain_firstn d tl Hpl)) in Hin. discriminate. }
      destruct x as [| | |j sx]; cbn in Hx; try contradiction.
      * cbn [trace_p] in Hin. apply IH' in Hin. destruct Hin as (d' & s & Hd' & Hlt & Hn).
        exists d', s. split; [now right|]. rewrite Hnrest in Hn. rewrite <- Hn. f_equal. lia.
      * cbn [trace_p] in Hin. destruct Hin as [Eq|Hin].
        -- inversion Eq; subst j. exists d, sx. split; [now left|exact Hnx].
        -- apply IH' in Hin. destruct Hin as (d' & s & Hd' & Hlt & Hn).
           exists d', s. split; [now right|]. rewrite Hnrest in Hn. rewrite <- Hn. f_equal. lia.
    + intros (d' & s & Hd' & Hn). right.
      assert (Hcase : d' = d \/ (In d' ds /\ d < d')).
      { destruct Hd' as [->|Hd']; [now left|]. assert (d <= d') by (eapply chain_ge; eauto).
        destruct (Nat.eq_dec d' d); [now left|right; split; [assumption|lia]]. }
      destruct Hcase as [->|[Hd'' Hlt']].
      * rewrite Hnx in Hn. inversion Hn; subst x. cbn [trace_p pstmt_run op_run flag]. now left.
      * assert (In (i, false) (trace_p (pstmt_run (pstmt_run (mkP true true) PDisable) x) (weave (PReset :: rest) d ds))).
        { apply IH'. exists d', s. split; [assumption|]. split; [assumption|]. rewrite Hnrest. rewrite <- Hn. f_equal. lia. }
        destruct x; cbn in Hx; try contradiction; cbn [trace_p]; [assumption|now right].
Qed.

(* ------------------------------------------------------------------------------------------- *)
(* C. the scan of patch.py against the specification functions                                    *)
(* ------------------------------------------------------------------------------------------- *)

(* position in the body-with-import of the original statement i *)
Definition pos (i : nat) : nat := match i with 0 => 0 | S _ => S i end.

Lemma pos_le a b : a <= b -> pos a <= pos b.
Proof. destruct a, b; cbn; lia. Qed.

Lemma pos_lt a b : a < b -> pos a < pos b.
Proof. destruct a, b; cbn; lia. Qed.

Lemma pos_inj a b : pos a = pos b -> a = b.
Proof. destruct a, b; cbn; lia. Qed.

Lemma wants_disable_skip ev sym ltx :
  wants_disable (SConst ev sym ltx) = negb (ev || negb (sym || ltx)).
Proof. destruct ev, sym, ltx; reflexivity. Qed.

Definition is_some {A} (o : option A) : bool := match o with Some _ => true | None => false end.

Lemma scan_tail_spec :
  forall rest k cs ds L, 1 <= k ->
    dis (scan (S k) (index_from k rest) (mkScan (option_map pos cs) ds (pos L)))
      = ds ++ map pos (spec_disabled_from k cs rest)
    /\ lastdoc (scan (S k) (index_from k rest) (mkScan (option_map pos cs) ds (pos L)))
      = pos (spec_last_from k (is_some cs) L rest).
Proof.
  induction rest as [|s rest IH]; intros k cs ds L Hk.
  - cbn. rewrite app_nil_r. auto.
  - destruct k as [|k']; [lia|]. clear Hk.
    cbn [index_from scan].
    destruct s as [n doc|ts|ev sym ltx|].
    + destruct doc.
      * cbn [scan_step dis cur lastdoc spec_disabled_from is_member spec_last_from].
        exact (IH (S (S k')) (Some (S k')) ds (S k') ltac:(lia)).
      * cbn [scan_step spec_disabled_from is_member spec_last_from wants_disable].
        destruct cs; apply IH; lia.
    + cbn [scan_step spec_disabled_from is_member spec_last_from wants_disable].
      destruct (has_public ts).
      * cbn [dis cur lastdoc]. rewrite orb_true_r.
        exact (IH (S (S k')) (Some (S k')) ds L ltac:(lia)).
      * rewrite orb_false_r. destruct cs; apply IH; lia.
    + cbn [scan_step spec_disabled_from is_member spec_last_from cur].
      rewrite wants_disable_skip.
      destruct cs as [i|]; cbn [option_map is_some].
      * destruct (ev || negb (sym || ltx)); cbn [negb dis cur lastdoc].
        -- exact (IH (S (S k')) (Some i) ds (S k') ltac:(lia)).
        -- destruct (IH (S (S k')) (Some i) (ds ++ [pos i]) (S k') ltac:(lia)) as [H1 H2].
           cbn [option_map pos] in H1, H2 |- *. split; [|exact H2]. rewrite H1. rewrite <- app_assoc. reflexivity.
      * exact (IH (S (S k')) None ds L ltac:(lia)).
    + cbn [scan_step spec_disabled_from is_member spec_last_from wants_disable].
      destruct cs; apply IH; lia.
Qed.

Lemma scan_with_import body :
  dis (scan 0 (with_import body) scan_init) = map pos (spec_disabled body)
  /\ lastdoc (scan 0 (with_import body) scan_init) = pos (spec_last_from 0 false 0 body).
Proof.
  destruct body as [|s0 rest]; [cbn; auto|].
  unfold with_import, spec_disabled. cbn [index_from insert_at firstn skipn app scan].
  change (scan_step 1 PImport (scan_step 0 (POrig 0 s0) scan_init)) with (scan_step 0 (POrig 0 s0) scan_init).
  assert (Hst : scan_step 0 (POrig 0 s0) scan_init =
                mkScan (option_map pos (if is_member s0 then Some 0 else None)) [] (pos 0)).
  { destruct s0 as [n doc|ts|ev sym ltx|]; cbn; try reflexivity.
    - destruct doc; reflexivity.
    - destruct (has_public ts); reflexivity. }
  rewrite Hst.
  destruct (scan_tail_spec rest 1 (if is_member s0 then Some 0 else None) [] 0 (le_n 1)) as [H1 H2].
  rewrite H1, H2. cbn [app spec_disabled_from spec_last_from].
  destruct s0 as [n doc|ts|ev sym ltx|]; cbn [is_member is_some wants_disable].
  - destruct doc; auto.
  - cbn [orb]. destruct (has_public ts); auto.
  - auto.
  - auto.
Qed.

(* facts about the specification functions *)
Lemma chain_weaken : forall l p p', p' <= p -> chain p l -> chain p' l.
Proof. intros [|d l] p p' H; cbn; [auto|]. intros [H1 H2]. split; [lia|exact H2]. Qed.

Lemma spec_disabled_chain :
  forall body idx c, (forall i, c = Some i -> i < idx) ->
    chain (match c with Some i => i | None => 0 end) (spec_disabled_from idx c body).
Proof.
  induction body as [|s body IH]; intros idx c Hc; cbn [spec_disabled_from]; [exact I|].
  destruct (is_member s).
  - eapply chain_weaken; [|apply (IH (S idx) (Some idx)); intros i E; inversion E; lia].
    destruct c as [i|]; [specialize (Hc i eq_refl)|]; lia.
  - destruct c as [i|].
    + destruct (wants_disable s).
      * cbn [chain]. split; [lia|]. apply (IH (S idx) (Some i)). intros j E; inversion E; subst. specialize (Hc j eq_refl). lia.
      * apply (IH (S idx) (Some i)). intros j E; inversion E; subst. specialize (Hc j eq_refl). lia.
    + apply (IH (S idx) None). intros j E; discriminate.
Qed.

Lemma chain_map_pos : forall l p, chain p l -> chain (pos p) (map pos l).
Proof.
  induction l as [|d l IH]; intros p; cbn; [auto|]. intros [H1 H2]. split; [now apply pos_le|now apply IH].
Qed.

Lemma spec_last_ge : forall body idx c L, L <= idx -> L <= spec_last_from idx c L body.
Proof.
  induction body as [|s body IH]; intros idx c L H; cbn [spec_last_from]; [lia|].
  destruct s as [n doc|ts|ev sym ltx|].
  - destruct doc; [|apply IH; lia]. specialize (IH (S idx) true idx ltac:(lia)). lia.
  - apply IH; lia.
  - destruct c; [|apply IH; lia]. specialize (IH (S idx) true idx ltac:(lia)). lia.
  - apply IH; lia.
Qed.

Lemma spec_last_lt : forall body idx c L N, L < N -> idx + length body <= N -> spec_last_from idx c L body < N.
Proof.
  induction body as [|s body IH]; intros idx c L N HL HN; cbn [spec_last_from]; [exact HL|].
  cbn [length] in HN.
  destruct s as [n doc|ts|ev sym ltx|].
  - destruct doc; apply IH; lia.
  - apply IH; lia.
  - destruct c; apply IH; lia.
  - apply IH; lia.
Qed.

Lemma spec_disabled_lt_last :
  forall body idx c L, (forall i, c = Some i -> i < idx) -> L <= idx ->
    forall d, In d (spec_disabled_from idx c body) -> d < spec_last_from idx (is_some c) L body.
Proof.
  induction body as [|s body IH]; intros idx c L Hc HL d Hd; cbn [spec_disabled_from] in Hd; [contradiction|].
  cbn [spec_last_from].
  destruct s as [n doc|ts|ev sym ltx|]; cbn [is_member wants_disable] in Hd.
  - destruct doc.
    + apply (IH (S idx) (Some idx) idx) in Hd; [exact Hd| |lia]. intros i E; inversion E; lia.
    + destruct c as [i|]; cbn [is_some].
      * apply (IH (S idx) (Some i) L) in Hd; [exact Hd| |lia]. intros j E; inversion E; subst; specialize (Hc j eq_refl); lia.
      * apply (IH (S idx) None L) in Hd; [exact Hd| |lia]. intros j E; discriminate.
  - destruct (has_public ts).
    + rewrite orb_true_r. apply (IH (S idx) (Some idx) L) in Hd; [exact Hd| |lia]. intros i E; inversion E; lia.
    + rewrite orb_false_r. destruct c as [i|]; cbn [is_some].
      * apply (IH (S idx) (Some i) L) in Hd; [exact Hd| |lia]. intros j E; inversion E; subst; specialize (Hc j eq_refl); lia.
      * apply (IH (S idx) None L) in Hd; [exact Hd| |lia]. intros j E; discriminate.
  - destruct c as [i|]; cbn [is_some].
    + assert (Hi : i < idx) by (apply Hc; reflexivity).
      assert (Hc' : forall j, Some i = Some j -> j < S idx) by (intros j E; inversion E; subst; lia).
      destruct (negb ev && (sym || ltx)).
      * destruct Hd as [<-|Hd].
        -- assert (idx <= spec_last_from (S idx) true idx body) by (apply spec_last_ge; lia). lia.
        -- apply (IH (S idx) (Some i) idx Hc' ltac:(lia)) in Hd. exact Hd.
      * apply (IH (S idx) (Some i) idx Hc' ltac:(lia)) in Hd. exact Hd.
    + apply (IH (S idx) None L) in Hd; [exact Hd| |lia]. intros j E; discriminate.
  - destruct c as [i|]; cbn [is_some].
    + apply (IH (S idx) (Some i) L) in Hd; [exact Hd| |lia]. intros j E; inversion E; subst; specialize (Hc j eq_refl); lia.
    + apply (IH (S idx) None L) in Hd; [exact Hd| |lia]. intros j E; discriminate.
Qed.

(* structure of the body with the import node *)
Lemma index_from_length k l : length (index_from k l) = length l.
Proof. revert k; induction l; intros k; cbn; auto. Qed.

Lemma index_from_plain k l : plain (index_from k l).
Proof. revert k; induction l; intros k; cbn; constructor; cbn; auto. apply IHl. Qed.

Lemma index_from_nth k l j : nth_error (index_from k l) j = option_map (POrig (k + j)) (nth_error l j).
Proof.
  revert k j; induction l as [|s l IH]; intros k [|j]; cbn; try reflexivity.
  - now rewrite Nat.add_0_r.
  - rewrite IH. now rewrite Nat.add_succ_r.
Qed.

Lemma with_import_length body : length (with_import body) = S (length body).
Proof. destruct body as [|s r]; cbn; [reflexivity|]. now rewrite index_from_length. Qed.

Lemma with_import_plain body : plain (with_import body).
Proof.
  destruct body as [|s r]; unfold with_import; cbn.
  - constructor; cbn; auto.
  - constructor; [exact I|]. constructor; [exact I|]. apply index_from_plain.
Qed.

Lemma with_import_nth body i : i < length body ->
  nth_error (with_import body) (pos i) = option_map (POrig i) (nth_error body i).
Proof.
  intros H. destruct body as [|s r]; [cbn in H; lia|].
  unfold with_import. cbn [index_from insert_at firstn skipn app].
  destruct i as [|i]; cbn; [reflexivity|]. now rewrite index_from_nth.
Qed.

Lemma nth_error_firstn {A} : forall n (l : list A) d, d < n -> nth_error (firstn n l) d = nth_error l d.
Proof.
  induction n as [|n IH]; intros l d H; [lia|]. destruct l as [|x l]; [reflexivity|].
  destruct d as [|d]; cbn; [reflexivity|]. apply IH. lia.
Qed.

(* ------------------------------------------------------------------------------------------- *)
(* D. the patched module                                                                         *)
(* ------------------------------------------------------------------------------------------- *)

Definition spec_last (body : list stmt) : nat := spec_last_from 0 false 0 body.

Definition kept (body : list stmt) : list pstmt := firstn (pos (spec_last body) + 1) (with_import body).

Lemma spec_disabled_bounds body i :
  In i (spec_disabled body) -> i < spec_last body /\ spec_last body < length body.
Proof.
  intros H. assert (H1 : i < spec_last body).
  { apply (spec_disabled_lt_last body 0 None 0); [intros j E; discriminate|lia|exact H]. }
  split; [exact H1|]. unfold spec_last in *.
  destruct body as [|s r]; [cbn in H; contradiction|]. apply spec_last_lt; cbn; lia.
Qed.

Lemma kept_plain body : plain (kept body).
Proof. apply plain_firstn, with_import_plain. Qed.

Lemma kept_range body d : In d (map pos (spec_disabled body)) -> d < length (kept body).
Proof.
  intros H. apply in_map_iff in H. destruct H as (i & <- & Hi).
  destruct (spec_disabled_bounds _ _ Hi) as [H1 H2].
  unfold kept. rewrite firstn_length, with_import_length.
  assert (pos i < pos (spec_last body)) by now apply pos_lt.
  assert (pos (spec_last body) <= S (spec_last body)) by (destruct (spec_last body); cbn; lia).
  lia.
Qed.

Lemma patch_weave body : patch body = weave (kept body) 0 (map pos (spec_disabled body)).
Proof.
  unfold patch. destruct (scan_with_import body) as [H1 H2]. rewrite H1, H2.
  change (firstn (pos (spec_last_from 0 false 0 body) + 1) (with_import body)) with ([] ++ kept body).
  rewrite (apply_inserts_weave _ [] (kept body) 0 0); [reflexivity|reflexivity| |].
  - change 0 with (pos 0) at 1. apply chain_map_pos.
    apply (spec_disabled_chain body 0 None). intros i E; discriminate.
  - intros d Hd. rewrite Nat.sub_0_r. now apply kept_range.
Qed.

(* 1. the flag is back to its default after the patched module has run *)
Lemma patch_flag_restored_lemma : forall body, exec true (patch body) = true.
Proof.
  intros body. unfold exec. change (fold_left pstmt_run (patch body) (mkP true true)) with (run (mkP true true) (patch body)).
  rewrite patch_weave, weave_run_top; [reflexivity|apply kept_plain].
Qed.

(* 4. any sequence of pages *)
Lemma pages_sequence_flag_lemma : forall mods, exec_pages true mods = true.
Proof.
  unfold exec_pages. induction mods as [|m mods IH]; cbn; [reflexivity|].
  rewrite patch_flag_restored_lemma. exact IH.
Qed.

(* 2. exactly the documented, non-sympy-eval members run with evaluation off *)
Lemma off_stmts_In b l i : In i (off_stmts b l) <-> In (i, false) (trace b l).
Proof.
  unfold off_stmts. rewrite in_map_iff. split.
  - intros ([j f] & E & H). cbn in E. subst j. apply filter_In in H. destruct H as [H1 H2]. cbn in H2.
    destruct f; [discriminate|exact H1].
  - intros H. exists (i, false). split; [reflexivity|]. apply filter_In. split; [exact H|reflexivity].
Qed.

Lemma kept_nth body i : i < length body -> pos i < pos (spec_last body) + 1 ->
  nth_error (kept body) (pos i) = option_map (POrig i) (nth_error body i).
Proof.
  intros H1 H2. unfold kept. rewrite nth_error_firstn by exact H2. now apply with_import_nth.
Qed.

Lemma patch_disables_lemma : forall body i, In i (off_stmts true (patch body)) <-> In i (spec_disabled body).
Proof.
  intros body i. rewrite off_stmts_In. unfold trace. rewrite patch_weave.
  rewrite (weave_trace_top _ _ (kept_plain body)).
  - split.
    + intros (d & s & Hd & Hn). apply in_map_iff in Hd. destruct Hd as (i0 & <- & Hi0).
      destruct (spec_disabled_bounds _ _ Hi0) as [B1 B2].
      rewrite kept_nth in Hn; [|lia|apply pos_lt in B1; lia].
      destruct (nth_error body i0); cbn in Hn; [|discriminate]. inversion Hn; subst. exact Hi0.
    + intros Hi. destruct (spec_disabled_bounds _ _ Hi) as [B1 B2].
      assert (Hlt : i < length body) by lia.
      destruct (nth_error body i) as [s|] eqn:E; [|apply nth_error_None in E; lia].
      exists (pos i), s. split; [now apply in_map|].
      rewrite kept_nth; [now rewrite E|lia|apply pos_lt in B1; lia].
  - change 0 with (pos 0) at 1. apply chain_map_pos.
    apply (spec_disabled_chain body 0 None). intros j E; discriminate.
  - intros d Hd. now apply kept_range.
Qed.

(* 3. what survives: exactly the first keep_count statements, in order, nothing else *)
Lemma origs_app l1 l2 : origs (l1 ++ l2) = origs l1 ++ origs l2.
Proof. induction l1 as [|s l1 IH]; cbn; [reflexivity|]. destruct s; cbn; rewrite ?IH; reflexivity. Qed.

Lemma origs_insert n x l : (match x with POrig _ _ => False | _ => True end) -> origs (insert_at n x l) = origs l.
Proof.
  intros Hx. unfold insert_at. rewrite origs_app. rewrite <- (firstn_skipn n l) at 3. rewrite origs_app.
  f_equal. destruct x; cbn; try reflexivity. contradiction.
Qed.

Lemma origs_apply_inserts : forall ds l off, origs (apply_inserts l off ds) = origs l.
Proof.
  induction ds as [|d ds IH]; intros l off; cbn [apply_inserts]; [reflexivity|].
  rewrite IH. rewrite origs_insert by exact I. now rewrite origs_insert by exact I.
Qed.

Lemma origs_firstn_index : forall n k l, origs (firstn n (index_from k l)) = firstn n (enum_from k l).
Proof.
  induction n as [|n IH]; intros k [|s l]; cbn; try reflexivity. now rewrite IH.
Qed.

Lemma enum_from_length k l : length (enum_from k l) = length l.
Proof. revert k; induction l; intros k; cbn; auto. Qed.

Lemma firstn_min_length {A} (l : list A) n : firstn (Nat.min (length l) n) l = firstn n l.
Proof.
  destruct (Nat.le_ge_cases n (length l)) as [H|H].
  - now rewrite Nat.min_r by exact H.
  - rewrite Nat.min_l by exact H. rewrite firstn_all. symmetry. now apply firstn_all2.
Qed.

Lemma patch_origs_lemma : forall body, origs (patch body) = firstn (keep_count body) (enum_from 0 body).
Proof.
  intros body. unfold patch. rewrite origs_apply_inserts.
  destruct (scan_with_import body) as [_ H2]. rewrite H2. unfold keep_count.
  destruct body as [|s0 r]; [reflexivity|].
  unfold with_import. cbn [index_from insert_at firstn skipn app].
  fold (spec_last (s0 :: r)). destruct (spec_last (s0 :: r)) as [|m].
  - cbn. rewrite Nat.min_0_r. reflexivity.
  - cbn [pos Nat.add length Nat.min enum_from firstn origs]. f_equal.
    replace (m + 1) with (S m) by lia.
    rewrite origs_firstn_index.
    rewrite <- (enum_from_length 1 r). now rewrite firstn_min_length.
Qed.

Lemma orig_stmts_origs l : orig_stmts l = map snd (origs l).
Proof. induction l as [|s l IH]; cbn; [reflexivity|]. destruct s; cbn; rewrite ?IH; reflexivity. Qed.

Lemma trace_origs p l : map fst (trace_p p l) = map fst (origs l).
Proof. revert p; induction l as [|s l IH]; intros p; cbn; [reflexivity|]. destruct s; cbn; rewrite ?IH; reflexivity. Qed.

Lemma enum_from_snd k l : map snd (enum_from k l) = l.
Proof. revert k; induction l as [|s l IH]; intros k; cbn; [reflexivity|]. now rewrite IH. Qed.

Lemma enum_from_fst k l : map fst (enum_from k l) = seq k (length l).
Proof. revert k; induction l as [|s l IH]; intros k; cbn; [reflexivity|]. now rewrite IH. Qed.

Lemma firstn_seq_min : forall n k m, firstn n (seq k m) = seq k (Nat.min n m).
Proof. induction n as [|n IH]; intros k [|m]; cbn; try reflexivity. now rewrite IH. Qed.

Lemma keep_count_le body : keep_count body <= length body.
Proof. unfold keep_count. apply Nat.le_min_l. Qed.

Lemma patch_keeps_prefix_lemma : forall body,
  orig_stmts (patch body) = firstn (keep_count body) body
  /\ forall b, map fst (trace b (patch body)) = seq 0 (keep_count body).
Proof.
  intros body. split.
  - rewrite orig_stmts_origs, patch_origs_lemma. rewrite <- firstn_map. now rewrite enum_from_snd.
  - intros b. unfold trace. rewrite trace_origs, patch_origs_lemma. rewrite <- firstn_map, enum_from_fst.
    rewrite firstn_seq_min. f_equal. apply Nat.min_l. apply keep_count_le.
Qed.

(* ... and every documented node is among them *)
Lemma spec_last_covers :
  forall body idx c L j s,
    nth_error body j = Some s -> spec_last_from idx c L body < idx + j ->
    match s with
    | FnDef _ true => False
    | SConst _ _ _ => c = false /\ forall k s', k < j -> nth_error body k = Some s' -> is_member s' = false
    | _ => True
    end.
Proof.
  induction body as [|h body IH]; intros idx c L j s Hn Hlt; [destruct j; discriminate|].
  destruct j as [|j].
  - cbn in Hn. inversion Hn; subst h. cbn [spec_last_from] in Hlt.
    destruct s as [n doc|ts|ev sym ltx|]; auto.
    + destruct doc; [|exact I]. assert (idx <= spec_last_from (S idx) true idx body) by (apply spec_last_ge; lia). lia.
    + destruct c.
      * assert (idx <= spec_last_from (S idx) true idx body) by (apply spec_last_ge; lia). lia.
      * split; [reflexivity|]. intros k s' Hk; lia.
  - cbn in Hn. cbn [spec_last_from] in Hlt.
    assert (G : forall c' L', spec_last_from (S idx) c' L' body < S idx + j ->
              (c' = false -> c = false /\ is_member h = false) ->
              match s with
              | FnDef _ true => False
              | SConst _ _ _ => c = false /\ forall k s', k < S j -> nth_error (h :: body) k = Some s' -> is_member s' = false
              | _ => True
              end).
    { intros c' L' Hlt' Hc'. specialize (IH (S idx) c' L' j s Hn Hlt').
      destruct s as [n doc|ts|ev sym ltx|]; auto.
      destruct IH as [E Hall]. destruct (Hc' E) as [E1 E2]. split; [exact E1|].
      intros [|k] s' Hk Hs'; cbn in Hs'; [inversion Hs'; subst; exact E2|]. apply (Hall k); [lia|exact Hs']. }
    replace (idx + S j) with (S idx + j) in Hlt by lia.
    destruct h as [n doc|ts|ev sym ltx|].
    + destruct doc.
      * apply (G true idx Hlt). discriminate.
      * apply (G c L Hlt). intros E; auto.
    + apply (G (c || has_public ts) L Hlt). intros E. apply orb_false_iff in E. cbn. exact E.
    + apply (G c (if c then idx else L) Hlt). intros E; auto.
    + apply (G c L Hlt). intros E; auto.
Qed.

Lemma keep_covers_lemma : forall body j s,
  nth_error body j = Some s -> keep_count body <= j ->
  match s with
  | FnDef _ true => False                                   (* no documented function is dropped *)
  | SConst _ _ _ => forall k s', k < j -> nth_error body k = Some s' -> is_member s' = false
                                                            (* a dropped string constant follows no member *)
  | _ => True
  end.
Proof.
  intros body j s Hn Hk.
  assert (Hj : j < length body) by (apply nth_error_Some; congruence).
  unfold keep_count in Hk.
  assert (Hlt : spec_last_from 0 false 0 body < 0 + j) by lia.
  pose proof (spec_last_covers body 0 false 0 j s Hn Hlt) as H.
  destruct s as [n doc|ts|ev sym ltx|]; auto. destruct H as [_ H]. exact H.
Qed.

(* every other surviving statement runs with evaluation on *)
Lemma nodup_fst_unique {A B} (l : list (A * B)) a b1 b2 :
  NoDup (map fst l) -> In (a, b1) l -> In (a, b2) l -> b1 = b2.
Proof.
  induction l as [|[x y] l IH]; intros Hnd H1 H2; [contradiction|].
  cbn in Hnd. inversion Hnd as [|? ? Hnot Hnd']; subst.
  destruct H1 as [E1|H1], H2 as [E2|H2].
  - congruence.
  - inversion E1; subst. exfalso. apply Hnot. apply in_map_iff. exists (a, b2). auto.
  - inversion E2; subst. exfalso. apply Hnot. apply in_map_iff. exists (a, b1). auto.
  - now apply IH.
Qed.

Lemma patch_on_lemma : forall body i,
  In (i, true) (trace true (patch body)) <-> i < keep_count body /\ ~ In i (spec_disabled body).
Proof.
  intros body i. destruct (patch_keeps_prefix_lemma body) as [_ Hidx]. specialize (Hidx true).
  assert (Hnd : NoDup (map fst (trace true (patch body)))) by (rewrite Hidx; apply seq_NoDup).
  split.
  - intros H. split.
    + assert (In i (map fst (trace true (patch body)))) by (apply in_map_iff; exists (i, true); auto).
      rewrite Hidx in H0. apply in_seq in H0. lia.
    + intros Hd. apply patch_disables_lemma, off_stmts_In in Hd.
      pose proof (nodup_fst_unique _ _ _ _ Hnd H Hd). discriminate.
  - intros [Hlt Hnot].
    assert (Hin : In i (map fst (trace true (patch body)))) by (rewrite Hidx; apply in_seq; lia).
    apply in_map_iff in Hin. destruct Hin as ([j b] & E & Hin). cbn in E; subst j.
    destruct b; [exact Hin|]. exfalso. apply Hnot. apply patch_disables_lemma, off_stmts_In. exact Hin.
Qed.

(* 6. the inserted calls are always preceded by the inserted import when the module starts with its docstring *)
Lemma names_ok_true l : names_ok_from true l = true.
Proof. induction l as [|s l IH]; cbn; [reflexivity|]. destruct s; cbn; exact IH. Qed.

Lemma names_ok_plain l b : plain l -> names_ok_from b l = true.
Proof.
  intros H; revert b; induction H as [|s l Hs _ IH]; intros b; cbn; [reflexivity|].
  destruct s; cbn in Hs; try contradiction; auto.
Qed.

Lemma spec_disabled_ge : forall body idx c d, In d (spec_disabled_from idx c body) -> c = Some d \/ idx <= d.
Proof.
  induction body as [|s body IH]; intros idx c d H; cbn [spec_disabled_from] in H; [contradiction|].
  destruct (is_member s).
  - apply IH in H. destruct H as [E|H]; [inversion E; right; lia|right; lia].
  - destruct c as [i|].
    + destruct (wants_disable s).
      * destruct H as [<-|H]; [now left|]. apply IH in H. destruct H; [now left|right; lia].
      * apply IH in H. destruct H; [now left|right; lia].
    + apply IH in H. destruct H; [now left|right; lia].
Qed.

Lemma patch_names_resolve_lemma : forall s rest, is_member s = false -> names_ok (patch (s :: rest)) = true.
Proof.
  intros s rest Hs. rewrite patch_weave. unfold names_ok.
  assert (Hge : forall d, In d (map pos (spec_disabled (s :: rest))) -> 2 <= d).
  { intros d Hd. apply in_map_iff in Hd. destruct Hd as (i & <- & Hi).
    unfold spec_disabled in Hi. cbn [spec_disabled_from] in Hi. rewrite Hs in Hi.
    apply spec_disabled_ge in Hi. destruct Hi as [E|Hi]; [discriminate|]. destruct i; cbn; lia. }
  pose proof (kept_range (s :: rest)) as Hrng.
  pose proof (kept_plain (s :: rest)) as Hpl.
  destruct (map pos (spec_disabled (s :: rest))) as [|d ds]; cbn [weave].
  - now apply names_ok_plain.
  - rewrite Nat.sub_0_r. destruct (skipn d (kept (s :: rest))) as [|x rest'] eqn:E; [now apply names_ok_plain|].
    assert (Hd : 2 <= d) by (apply Hge; now left).
    assert (Hl : d < length (kept (s :: rest))) by (apply Hrng; now left).
    revert Hl E. unfold kept, with_import. cbn [index_from insert_at firstn skipn app].
    destruct (pos (spec_last (s :: rest)) + 1) as [|[|n]]; cbn [firstn length]; intros Hl E; try lia.
    destruct d as [|[|d]]; try lia. cbn [firstn app names_ok_from]. apply names_ok_true.
Qed.

(* 7. processors.py: the module-level _old_evaluation is never written, so reset means "switch on" *)
Lemma old_invariant : forall ops p, old (ops_run p ops) = old p.
Proof. unfold ops_run. induction ops as [|o ops IH]; intros p; cbn; [reflexivity|]. rewrite IH. destruct o; reflexivity. Qed.

Lemma reset_switches_on_lemma : forall ops b, flag (op_run (ops_run (mkP b true) ops) OpReset) = true.
Proof. intros ops b. cbn. apply (old_invariant ops (mkP b true)). Qed.

(* ------------------------------------------------------------------------------------------- *)
(* E. parse.py's members against patch.py's disabled statements                                   *)
(* ------------------------------------------------------------------------------------------- *)

Definition sstep (st : parse_state) (s : stmt) : parse_state := parse_step st (POrig 0 s).

Lemma parse_scan_orig_gen : forall l st, fold_left parse_step l st = fold_left sstep (orig_stmts l) st.
Proof.
  induction l as [|s l IH]; intros st; cbn [fold_left orig_stmts]; [reflexivity|].
  destruct s as [| | |i s]; cbn [fold_left]; apply IH.
Qed.

Lemma dict_get_set n k v d : dict_get n (dict_set k v d) = if String.eqb n k then Some v else dict_get n d.
Proof.
  induction d as [|[k' v'] d IH]; cbn; [reflexivity|].
  destruct (String.eqb k k') eqn:E.
  - apply String.eqb_eq in E. subst k'. cbn. destruct (String.eqb n k); reflexivity.
  - cbn. rewrite IH. destruct (String.eqb n k') eqn:E'; [|reflexivity].
    apply String.eqb_eq in E'. subst k'. destruct (String.eqb n k) eqn:E''; [|reflexivity].
    apply String.eqb_eq in E''. subst k. rewrite String.eqb_refl in E. discriminate.
Qed.

Definition qname (qm : option (nat * option string)) : option string :=
  match qm with Some (_, o) => o | None => None end.

Definition wantsf (f : docflags) : bool := let '(ev, sym, ltx) := f in negb ev && (sym || ltx).

Lemma joint_scan :
  forall K idx pm qm st,
    agree_from idx pm qm K = true ->
    pcur st = qname qm ->
    (forall qi o, qm = Some (qi, o) -> qi < idx) ->
    forall n f, is_private n = false -> wantsf f = true ->
      dict_get n (pdocs (fold_left sstep K st)) = Some f ->
      dict_get n (pdocs st) = Some f
      \/ exists i, In i (spec_disabled_from idx pm K)
           /\ ((qm = Some (i, Some n) /\ pm = Some i)
               \/ (idx <= i /\ exists ts, nth_error K (i - idx) = Some (Assign ts) /\ first_name ts = Some n)).
Proof.
  induction K as [|s K IH]; intros idx pm qm st Hag Hcur Hq n f Hpub Hw Hget; [left; exact Hget|].
  cbn [fold_left] in Hget.
  (* lifting a "written later" witness from the tail to the whole list *)
  assert (Lift : forall pm' (i : nat),
            (forall j, In j (spec_disabled_from (S idx) pm' K) -> In j (spec_disabled_from idx pm (s :: K))) ->
            In i (spec_disabled_from (S idx) pm' K) ->
            (S idx <= i /\ exists ts, nth_error K (i - S idx) = Some (Assign ts) /\ first_name ts = Some n) ->
            exists i0, In i0 (spec_disabled_from idx pm (s :: K))
              /\ ((qm = Some (i0, Some n) /\ pm = Some i0)
                  \/ (idx <= i0 /\ exists ts, nth_error (s :: K) (i0 - idx) = Some (Assign ts) /\ first_name ts = Some n))).
  { intros pm' i Hsub Hi (Hle & ts & Hn & Hf). exists i. split; [now apply Hsub|]. right. split; [lia|].
    exists ts. split; [|exact Hf]. replace (i - idx) with (S (i - S idx)) by lia. exact Hn. }
  destruct s as [fn doc|ts|ev sym ltx|].
  - (* def *)
    cbn [agree_from] in Hag.
    assert (Hsub : forall j, In j (spec_disabled_from (S idx) (if doc then Some idx else pm) K) ->
                             In j (spec_disabled_from idx pm (FnDef fn doc :: K))).
    { intros j Hj. cbn [spec_disabled_from is_member wants_disable]. destruct doc; [exact Hj|]. destruct pm; exact Hj. }
    assert (Hcur' : pcur (sstep st (FnDef fn doc)) = qname qm) by (unfold sstep; cbn; destruct doc; exact Hcur).
    assert (Hq' : forall qi o, qm = Some (qi, o) -> qi < S idx) by (intros qi o E; specialize (Hq qi o E); lia).
    destruct (IH (S idx) _ qm _ Hag Hcur' Hq' n f Hpub Hw Hget) as [Hin|(i & Hi & [[E1 E2]|H2])].
    + left. unfold sstep in Hin. cbn in Hin. destruct doc; exact Hin.
    + right. exists i. split; [now apply Hsub|]. left. split; [exact E1|].
      destruct doc; [|exact E2]. inversion E2; subst i. specialize (Hq idx (Some n) E1). lia.
    + right. eapply Lift; eauto.
  - (* assignment *)
    cbn [agree_from] in Hag.
    assert (Hsub : forall j, In j (spec_disabled_from (S idx) (if has_public ts then Some idx else pm) K) ->
                             In j (spec_disabled_from idx pm (Assign ts :: K))).
    { intros j Hj. cbn [spec_disabled_from is_member wants_disable]. destruct (has_public ts); [exact Hj|]. destruct pm; exact Hj. }
    assert (Hcur' : pcur (sstep st (Assign ts)) = qname (Some (idx, first_name ts))) by reflexivity.
    assert (Hq' : forall qi o, Some (idx, first_name ts) = Some (qi, o) -> qi < S idx) by (intros qi o E; inversion E; lia).
    destruct (IH (S idx) _ _ _ Hag Hcur' Hq' n f Hpub Hw Hget) as [Hin|(i & Hi & [[E1 E2]|H2])].
    + left. exact Hin.
    + right. inversion E1; subst i. exists idx. split; [now apply Hsub|]. right. split; [lia|].
      exists ts. rewrite Nat.sub_diag. split; [reflexivity|assumption].
    + right. eapply Lift; eauto.
  - (* string constant *)
    cbn [agree_from] in Hag. apply andb_true_iff in Hag. destruct Hag as [Hhere Hag].
    assert (Hsub : forall j, In j (spec_disabled_from (S idx) pm K) ->
                             In j (spec_disabled_from idx pm (SConst ev sym ltx :: K))).
    { intros j Hj. cbn [spec_disabled_from is_member]. destruct pm; [|exact Hj].
      destruct (wants_disable (SConst ev sym ltx)); [now right|exact Hj]. }
    assert (Hcur' : pcur (sstep st (SConst ev sym ltx)) = qname qm).
    { unfold sstep. cbn [parse_step]. destruct (pcur st) eqn:Ec; cbn [pcur]; congruence. }
    assert (Hq' : forall qi o, qm = Some (qi, o) -> qi < S idx) by (intros qi o E; specialize (Hq qi o E); lia).
    destruct (IH (S idx) pm qm _ Hag Hcur' Hq' n f Hpub Hw Hget) as [Hin|(i & Hi & [[E1 E2]|H2])].
    + unfold sstep in Hin. cbn [parse_step] in Hin. destruct (pcur st) as [n0|] eqn:Ecur; [|left; exact Hin].
      cbn [pdocs] in Hin. rewrite dict_get_set in Hin.
      destruct (String.eqb n n0) eqn:En; [|left; exact Hin].
      apply String.eqb_eq in En. subst n0. inversion Hin; subst f.
      right. destruct qm as [[qi o]|]; cbn in Hcur; [|discriminate]. subst o.
      rewrite Hpub in Hhere. destruct pm as [pi|]; [|discriminate]. apply Nat.eqb_eq in Hhere. subst qi.
      exists pi. split.
      * cbn [spec_disabled_from is_member]. cbn [wantsf] in Hw. cbn [wants_disable]. rewrite Hw. now left.
      * left. auto.
    + right. exists i. split; [now apply Hsub|]. left. auto.
    + right. eapply Lift; eauto.
  - (* other *)
    cbn [agree_from] in Hag.
    assert (Hsub : forall j, In j (spec_disabled_from (S idx) pm K) -> In j (spec_disabled_from idx pm (Other :: K))).
    { intros j Hj. cbn [spec_disabled_from is_member wants_disable]. destruct pm; exact Hj. }
    assert (Hq' : forall qi o, qm = Some (qi, o) -> qi < S idx) by (intros qi o E; specialize (Hq qi o E); lia).
    destruct (IH (S idx) pm qm _ Hag Hcur Hq' n f Hpub Hw Hget) as [Hin|(i & Hi & [[E1 E2]|H2])].
    + left. exact Hin.
    + right. exists i. split; [now apply Hsub|]. left. auto.
    + right. eapply Lift; eauto.
Qed.

Lemma agree_prefix : forall l1 l2 idx pm qm, agree_from idx pm qm (l1 ++ l2) = true -> agree_from idx pm qm l1 = true.
Proof.
  induction l1 as [|s l1 IH]; intros l2 idx pm qm H; [reflexivity|].
  destruct s; cbn [app agree_from] in *; try (eapply IH; exact H).
  apply andb_true_iff in H. destruct H as [H1 H2]. rewrite H1. cbn. eapply IH; exact H2.
Qed.

Lemma spec_disabled_prefix : forall l1 l2 idx c i,
  In i (spec_disabled_from idx c l1) -> In i (spec_disabled_from idx c (l1 ++ l2)).
Proof.
  induction l1 as [|s l1 IH]; intros l2 idx c i H; [contradiction|].
  cbn [app spec_disabled_from] in *. destruct (is_member s); [now apply IH|].
  destruct c; [|now apply IH]. destruct (wants_disable s); [|now apply IH].
  destruct H as [<-|H]; [now left|right; now apply IH].
Qed.

Lemma nth_error_firstn_some {A} : forall n (l : list A) i x, nth_error (firstn n l) i = Some x -> nth_error l i = Some x /\ i < n.
Proof.
  induction n as [|n IH]; intros l i x H; [destruct i; discriminate|].
  destruct l as [|y l]; [destruct i; discriminate|]. destruct i as [|i]; cbn in *; [split; [exact H|lia]|].
  destruct (IH _ _ _ H). split; [assumption|lia].
Qed.

(* uniqueness of the binding statement from the no-duplicate side condition *)
Definition names_of (s : stmt) : list string :=
  match s with
  | Assign ts => flat_map (fun t => match t with Some n => [n] | None => [] end) ts
  | FnDef n _ => [n]
  | _ => []
  end.

Lemma bound_names_flat l : bound_names l = flat_map names_of l.
Proof. induction l as [|s l IH]; cbn; [reflexivity|]. destruct s; cbn; rewrite IH; reflexivity. Qed.

Lemma nodupb_NoDup l : nodupb l = true -> NoDup l.
Proof.
  induction l as [|x l IH]; cbn; intros H; [constructor|].
  apply andb_true_iff in H. destruct H as [H1 H2]. constructor; [|now apply IH].
  intros Hin. apply negb_true_iff in H1. assert (existsb (String.eqb x) l = true); [|congruence].
  apply existsb_exists. exists x. split; [exact Hin|apply String.eqb_refl].
Qed.

Lemma binds_names n ts : binds n ts = true -> In n (names_of (Assign ts)).
Proof.
  unfold binds. intros H. apply existsb_exists in H. destruct H as ([m|] & Hin & E); [|discriminate].
  apply String.eqb_eq in E. subst m. cbn. apply in_flat_map. exists (Some n). split; [exact Hin|now left].
Qed.

Lemma first_name_binds ts n : first_name ts = Some n -> binds n ts = true.
Proof.
  induction ts as [|[m|] ts IH]; cbn; intros H; [discriminate| |].
  - inversion H; subst. now rewrite String.eqb_refl.
  - now apply IH.
Qed.

Lemma NoDup_app_tail {A} (l1 l2 : list A) : NoDup (l1 ++ l2) -> NoDup l2.
Proof. induction l1 as [|x l1 IH]; cbn; intros H; [exact H|]. inversion H; auto. Qed.

Lemma nodup_filter_flat_unique (P : string -> bool) :
  forall (l : list stmt) i j a b x,
    NoDup (filter P (flat_map names_of l)) -> P x = true ->
    nth_error l i = Some a -> nth_error l j = Some b -> In x (names_of a) -> In x (names_of b) -> i = j.
Proof.
  induction l as [|s l IH]; intros i j a b x Hnd Px Hi Hj Ha Hb; [destruct i; discriminate|].
  cbn [flat_map] in Hnd. rewrite filter_app in Hnd.
  assert (Hl : NoDup (filter P (flat_map names_of l))) by (eapply NoDup_app_tail; exact Hnd).
  assert (Hdisj : forall y, In y (filter P (names_of s)) -> ~ In y (filter P (flat_map names_of l))).
  { clear - Hnd. induction (filter P (names_of s)) as [|z zs IHz]; intros y Hy; [contradiction|].
    cbn in Hnd. inversion Hnd as [|? ? Hnot Hnd']; subst. destruct Hy as [<-|Hy].
    - intros Hin. apply Hnot. apply in_or_app. now right.
    - now apply IHz. }
  assert (Htail : forall k c, nth_error l k = Some c -> In x (names_of c) -> In x (filter P (flat_map names_of l))).
  { intros k c Hk Hc. apply filter_In. split; [|exact Px]. apply in_flat_map. exists c. split; [|exact Hc].
    eapply nth_error_In; eauto. }
  destruct i as [|i], j as [|j]; cbn in Hi, Hj.
  - reflexivity.
  - inversion Hi; subst a. exfalso. apply (Hdisj x); [apply filter_In; auto|]. eapply Htail; eauto.
  - inversion Hj; subst b. exfalso. apply (Hdisj x); [apply filter_In; auto|]. eapply Htail; eauto.
  - f_equal. eapply IH; eauto.
Qed.

Definition publicb (n : string) : bool := negb (is_private n).

Lemma patch_parse_consistent_partial_lemma :
  forall body, consistent_side body = true ->
    forall n f, In (n, f) (page_members body) -> wantsf f = true ->
      exists i ts,
        nth_error body i = Some (Assign ts) /\ first_name ts = Some n
        /\ In i (off_stmts true (patch body))
        /\ forall i' ts', i' < keep_count body -> nth_error body i' = Some (Assign ts') -> binds n ts' = true -> i' = i.
Proof.
  intros body Hside n f Hin Hw.
  unfold consistent_side in Hside. apply andb_true_iff in Hside. destruct Hside as [Hnd Hag].
  destruct (patch_keeps_prefix_lemma body) as [HK _].
  set (K := firstn (keep_count body) body) in *.
  unfold page_members in Hin. apply filter_In in Hin. destruct Hin as [Hin Hpub]. cbn in Hpub.
  apply negb_true_iff in Hpub.
  unfold parse_members in Hin. apply in_flat_map in Hin. destruct Hin as (n0 & _ & Hin).
  destruct (dict_get n0 (pdocs (parse_scan (patch body)))) as [f0|] eqn:Hget; [|contradiction].
  destruct Hin as [E|[]]. inversion E; subst n0 f0. clear E.
  unfold parse_scan in Hget. rewrite parse_scan_orig_gen, HK in Hget.
  assert (HagK : agree_from 0 None None K = true).
  { apply (agree_prefix K (skipn (keep_count body) body)). unfold K. now rewrite firstn_skipn. }
  destruct (joint_scan K 0 None None parse_init HagK eq_refl ltac:(intros; discriminate) n f Hpub Hw Hget)
    as [Hinit|(i & Hi & [[E _]|(_ & ts & Hn & Hf)])]; [discriminate|discriminate|].
  rewrite Nat.sub_0_r in Hn.
  destruct (nth_error_firstn_some _ _ _ _ Hn) as [Hnb Hik].
  exists i, ts. split; [exact Hnb|]. split; [exact Hf|]. split.
  - apply patch_disables_lemma. unfold spec_disabled.
    rewrite <- (firstn_skipn (keep_count body) body). now apply spec_disabled_prefix.
  - intros i' ts' Hi' Hn' Hb'.
    rewrite HK, bound_names_flat in Hnd. apply nodupb_NoDup in Hnd.
    assert (Hn'K : nth_error K i' = Some (Assign ts')) by (unfold K; rewrite nth_error_firstn by exact Hi'; exact Hn').
    eapply (nodup_filter_flat_unique (fun n => negb (is_private n)) K i' i _ _ n Hnd); eauto.
    + now rewrite Hpub.
    + now apply binds_names.
    + apply binds_names. now apply first_name_binds.
Qed.

(* non-vacuity: a module in the catalogue's shape *)
Example patch_example :
  let body := [SConst false false false; Other; Assign [Some "mass"%string]; SConst false false false;
               Assign [Some "law"%string]; SConst false true true; Assign [Some "_x"%string]; FnDef "calculate_mass"%string false] in
  shape (patch body) = [TOrig 0; TImport; TOrig 1; TOrig 2; TOrig 3; TDisable; TOrig 4; TReset; TOrig 5]
  /\ off_stmts true (patch body) = [4]
  /\ page_members body = [("mass"%string, (false, false, false)); ("law"%string, (false, true, true))]
  /\ consistent_side body = true.
Proof. vm_compute. repeat split. Qed.

(* a docstring with two good string constants after the same member: disabled twice, still restored *)
Example patch_example_duplicates :
  let body := [SConst false false false; Assign [Some "law"%string]; SConst false true false; SConst false false true] in
  shape (patch body) = [TOrig 0; TImport; TDisable; TOrig 1; TDisable; TReset; TReset; TOrig 2; TOrig 3]
  /\ trace true (patch body) = [(0, true); (1, false); (2, true); (3, true)]
  /\ exec true (patch body) = true.
Proof. vm_compute. repeat split. Qed.

(* the side condition is not vacuous: a docstring after a documented def is attributed differently *)
Example side_condition_can_fail :
  consistent_side [SConst false false false; Assign [Some "law"%string]; SConst true false false;
                   FnDef "f"%string true; SConst false true false] = false.
Proof. vm_compute. reflexivity. Qed.

(* ------------------------------------------------------------------------------------------- *)
(* F. the specification function spec_disabled, declaratively                                     *)
(* ------------------------------------------------------------------------------------------- *)

(* statement i is a member, statement j > i is a docstring that wants the source form, no member in between *)
Definition documents (body : list stmt) (i j : nat) : Prop :=
  i < j
  /\ (exists si, nth_error body i = Some si /\ is_member si = true)
  /\ (exists sj, nth_error body j = Some sj /\ wants_disable sj = true)
  /\ forall k s', i < k < j -> nth_error body k = Some s' -> is_member s' = false.

Definition pending (body : list stmt) : Prop :=      (* a wanting docstring before any member of body *)
  exists j sj, nth_error body j = Some sj /\ wants_disable sj = true
    /\ forall k s', k < j -> nth_error body k = Some s' -> is_member s' = false.

Lemma wants_not_member s : wants_disable s = true -> is_member s = false.
Proof. destruct s; cbn; try discriminate; auto. Qed.

Lemma spec_disabled_from_iff :
  forall body idx c i,
    In i (spec_disabled_from idx c body) <->
    (c = Some i /\ pending body) \/ (exists a j, i = idx + a /\ documents body a j).
Proof.
  induction body as [|s body IH]; intros idx c i.
  - cbn. split; [contradiction|].
    intros [[_ (j & sj & H & _)]|(a & j & _ & _ & (si & H & _) & _)]; [destruct j; discriminate|destruct a; discriminate].
  - cbn [spec_disabled_from].
    (* shifting facts between body and s :: body *)
    assert (Shift : forall a j, documents body a j -> documents (s :: body) (S a) (S j)).
    { intros a j (H1 & H2 & H3 & H4). split; [lia|]. split; [exact H2|]. split; [exact H3|].
      intros [|k] s' Hk Hs'; [lia|]. cbn in Hs'. apply (H4 k); [lia|exact Hs']. }
    assert (Unshift : forall a j, documents (s :: body) (S a) j -> exists j0, j = S j0 /\ documents body a j0).
    { intros a [|j] (H1 & H2 & H3 & H4); [lia|]. exists j. split; [reflexivity|].
      split; [lia|]. split; [exact H2|]. split; [exact H3|].
      intros k s' Hk Hs'. apply (H4 (S k)); [lia|exact Hs']. }
    destruct (is_member s) eqn:Em.
    + rewrite IH. split.
      * intros [[E (j & sj & Hj & Hw & Hno)]|(a & j & -> & Hd)].
        -- inversion E; subst i. right. exists 0, (S j). split; [lia|].
           split; [lia|]. split; [exists s; auto|]. split; [exists sj; auto|].
           intros [|k] s' Hk Hs'; [lia|]. cbn in Hs'. apply (Hno k); [lia|exact Hs'].
        -- right. exists (S a), (S j). split; [lia|]. now apply Shift.
      * intros [[_ (j & sj & Hj & Hw & Hno)]|(a & j & -> & Hd)].
        -- exfalso. destruct j as [|j].
           ++ cbn in Hj. inversion Hj; subst sj. apply wants_not_member in Hw. congruence.
           ++ specialize (Hno 0 s ltac:(lia) eq_refl). congruence.
        -- destruct a as [|a].
           ++ left. split; [f_equal; lia|]. destruct Hd as (H1 & _ & (sj & Hj & Hw) & Hno).
              destruct j as [|j]; [lia|]. exists j, sj. cbn in Hj. split; [exact Hj|]. split; [exact Hw|].
              intros k s' Hk Hs'. apply (Hno (S k)); [lia|exact Hs'].
           ++ right. destruct (Unshift _ _ Hd) as (j0 & -> & Hd0). exists a, j0. split; [lia|exact Hd0].
    + assert (Tail : In i (spec_disabled_from (S idx) c body) <->
                     (c = Some i /\ pending body) \/ (exists a j, i = idx + S a /\ documents body a j)).
      { rewrite IH. split.
        - intros [[E P]|(a & j & -> & Hd)]; [left; auto|right; exists a, j; split; [lia|exact Hd]].
        - intros [[E P]|(a & j & -> & Hd)]; [left; auto|right; exists a, j; split; [lia|exact Hd]]. }
      assert (PendShift : pending body -> pending (s :: body)).
      { intros (j & sj & Hj & Hw & Hno). exists (S j), sj. split; [exact Hj|]. split; [exact Hw|].
        intros [|k] s' Hk Hs'; cbn in Hs'; [inversion Hs'; subst; exact Em|]. apply (Hno k); [lia|exact Hs']. }
      assert (Goal2 : (exists a j, i = idx + a /\ documents (s :: body) a j) <-> (exists a j, i = idx + S a /\ documents body a j)).
      { split.
        - intros (a & j & -> & Hd). destruct a as [|a].
          + destruct Hd as (_ & (si & Hi & Hm) & _). cbn in Hi. inversion Hi; subst si. congruence.
          + destruct (Unshift _ _ Hd) as (j0 & -> & Hd0). exists a, j0. auto.
        - intros (a & j & -> & Hd). exists (S a), (S j). split; [reflexivity|now apply Shift]. }
      assert (PendHead : pending (s :: body) -> wants_disable s = true \/ pending body).
      { intros (j & sj & Hj & Hw & Hno). destruct j as [|j].
        - cbn in Hj. inversion Hj; subst sj. now left.
        - right. exists j, sj. cbn in Hj. split; [exact Hj|]. split; [exact Hw|].
          intros k s' Hk Hs'. apply (Hno (S k)); [lia|exact Hs']. }
      assert (HeadPend : wants_disable s = true -> pending (s :: body)).
      { intros Hw. exists 0, s. split; [reflexivity|]. split; [exact Hw|]. intros k s' Hk; lia. }
      destruct c as [i0|].
      * destruct (wants_disable s) eqn:Ew.
        -- cbn [In]. rewrite Tail, Goal2. split.
           ++ intros [<-|[[E P]|H]]; [left; split; [reflexivity|now apply HeadPend]| left; split; [exact E|now apply PendShift]|now right].
           ++ intros [[E P]|H]; [|right; now right]. inversion E; subst i0. now left.
        -- rewrite Tail, Goal2. split.
           ++ intros [[E P]|H]; [left; split; [exact E|now apply PendShift]|now right].
           ++ intros [[E P]|H]; [|now right]. left. split; [exact E|].
              destruct (PendHead P) as [Hw|P']; [congruence|exact P'].
      * rewrite Tail, Goal2. split.
        -- intros [[E _]|H]; [discriminate|now right].
        -- intros [[E _]|H]; [discriminate|now right].
Qed.

Lemma spec_disabled_iff_documents : forall body i, In i (spec_disabled body) <-> exists j, documents body i j.
Proof.
  intros body i. unfold spec_disabled. rewrite spec_disabled_from_iff. split.
  - intros [[E _]|(a & j & -> & Hd)]; [discriminate|]. exists j. exact Hd.
  - intros (j & Hd). right. exists i, j. split; [reflexivity|exact Hd].
Qed.

Lemma patch_disables_declarative_lemma :
  forall body i, In i (off_stmts true (patch body)) <-> exists j, documents body i j.
Proof. intros body i. rewrite patch_disables_lemma. apply spec_disabled_iff_documents. Qed.

(* ------------------------------------------------------------------------------------------- *)
(* G. the whole record of global switches                                                        *)
(* ------------------------------------------------------------------------------------------- *)
From Coq Require Import NArith.

Definition sw_equiv (a b : switches) : Prop := forall f, sw_get f a = sw_get f b.

Lemma sw_get_set f g v s : sw_get f (sw_set g v s) = if N.eqb f g then Some v else sw_get f s.
Proof.
  induction s as [|[h w] s IH]; cbn; [reflexivity|].
  destruct (N.eqb g h) eqn:E; cbn.
  - apply N.eqb_eq in E. subst h. destruct (N.eqb f g); reflexivity.
  - rewrite IH. destruct (N.eqb f h) eqn:E'; [|reflexivity].
    apply N.eqb_eq in E'. subst h. destruct (N.eqb f g) eqn:E''; [|reflexivity].
    apply N.eqb_eq in E''. subst g. rewrite N.eqb_refl in E. discriminate.
Qed.

Lemma last_write_acc f ws acc :
  last_write f ws acc = match last_write f ws None with Some x => Some x | None => acc end.
Proof.
  revert acc; induction ws as [|[g v] ws IH]; intros acc; cbn; [reflexivity|].
  destruct (N.eqb f g); [|apply IH]. rewrite (IH (Some v)). destruct (last_write f ws None); reflexivity.
Qed.

Lemma get_apply_writes ws s f :
  sw_get f (apply_writes ws s) = match last_write f ws None with Some v => Some v | None => sw_get f s end.
Proof.
  unfold apply_writes. revert s; induction ws as [|[g v] ws IH]; intros s; cbn [fold_left last_write fst snd]; [reflexivity|].
  rewrite IH, sw_get_set, (last_write_acc f ws (if N.eqb f g then Some v else None)).
  destruct (last_write f ws None); [reflexivity|]. destruct (N.eqb f g); reflexivity.
Qed.

Definition all_writes (P : procs) : writes := w_disable P ++ w_enable P ++ w_reset P.
Definition written (P : procs) (f : N) : bool := existsb (fun w : N * bool => N.eqb f (fst w)) (all_writes P).

Lemma last_write_none f ws : existsb (fun w : N * bool => N.eqb f (fst w)) ws = false -> last_write f ws None = None.
Proof.
  induction ws as [|[g v] ws IH]; cbn; [reflexivity|]. intros H. apply orb_false_iff in H. destruct H as [H1 H2].
  rewrite H1. now apply IH.
Qed.

Lemma written_parts P f : written P f = false ->
  last_write f (w_disable P) None = None /\ last_write f (w_enable P) None = None /\ last_write f (w_reset P) None = None.
Proof.
  unfold written, all_writes. rewrite !existsb_app. intros H.
  apply orb_false_iff in H. destruct H as [H1 H]. apply orb_false_iff in H. destruct H as [H2 H3].
  repeat split; now apply last_write_none.
Qed.

(* fields nobody writes keep their default *)
Definition sw_inv (P : procs) (s0 s : switches) : Prop := forall f, written P f = false -> sw_get f s = sw_get f s0.

Lemma sw_inv_op P s0 s o : sw_inv P s0 s -> sw_inv P s0 (sw_op P s o).
Proof.
  intros H f Hf. destruct (written_parts P f Hf) as (H1 & H2 & H3).
  destruct o; cbn [sw_op]; rewrite get_apply_writes, ?H1, ?H2, ?H3; now apply H.
Qed.

Lemma sw_reset_restores P s0 s : covers P s0 = true -> sw_inv P s0 s -> sw_equiv (sw_op P s OpReset) s0.
Proof.
  intros Hc Hi f. cbn [sw_op]. rewrite get_apply_writes.
  destruct (written P f) eqn:Hw.
  - unfold written in Hw. apply existsb_exists in Hw. destruct Hw as (w & Hin & E). apply N.eqb_eq in E. subst f.
    unfold covers in Hc. rewrite forallb_forall in Hc. specialize (Hc w Hin).
    destruct (last_write (fst w) (w_reset P) None) as [v|]; [|discriminate].
    destruct (sw_get (fst w) s0) as [x|]; cbn in Hc; [|discriminate]. apply Bool.eqb_prop in Hc. now subst.
  - destruct (written_parts P f Hw) as (_ & _ & H3). rewrite H3. now apply Hi.
Qed.

Lemma sw_inv_ops P s0 : forall ops s, sw_inv P s0 s -> sw_inv P s0 (sw_ops P s ops).
Proof. unfold sw_ops. induction ops as [|o ops IH]; intros s H; cbn; [exact H|]. apply IH. now apply sw_inv_op. Qed.

Lemma reset_restores_all_switches_lemma :
  forall P s0, covers P s0 = true -> forall ops, sw_equiv (sw_op P (sw_ops P s0 ops) OpReset) s0.
Proof. intros P s0 Hc ops. apply sw_reset_restores; [exact Hc|]. apply sw_inv_ops. intros f _. reflexivity. Qed.

Lemma sw_inv_run P s0 : forall l s, sw_inv P s0 s -> sw_inv P s0 (sw_run P s l).
Proof.
  unfold sw_run. induction l as [|x l IH]; intros s H; cbn [fold_left]; [exact H|]. apply IH.
  destruct x; cbn [sw_pstmt]; try exact H; now apply sw_inv_op.
Qed.

Lemma sw_run_restored P s0 : covers P s0 = true ->
  forall l s, sw_equiv s s0 -> exec true l = true -> sw_equiv (sw_run P s l) s0.
Proof.
  intros Hc l. induction l as [|x l IH] using rev_ind; intros s Hs He; [exact Hs|].
  unfold sw_run. rewrite fold_left_app. cbn [fold_left]. fold (sw_run P s l).
  unfold exec in He. rewrite fold_left_app in He. cbn [fold_left] in He.
  destruct x; cbn [sw_pstmt pstmt_run] in *.
  - apply IH; assumption.
  - cbn in He. discriminate.
  - apply sw_reset_restores; [exact Hc|]. apply sw_inv_run. intros f _. apply Hs.
  - apply IH; assumption.
Qed.

Lemma patch_switches_restored_lemma :
  forall P s0, covers P s0 = true -> forall body, sw_equiv (sw_run P s0 (patch body)) s0.
Proof. intros P s0 Hc body. apply (sw_run_restored P s0 Hc); [intros f; reflexivity|apply patch_flag_restored_lemma]. Qed.

Lemma pages_switches_restored_lemma :
  forall P s0, covers P s0 = true -> forall mods, sw_equiv (sw_pages P s0 mods) s0.
Proof.
  intros P s0 Hc mods. unfold sw_pages.
  assert (G : forall s, sw_equiv s s0 -> sw_equiv (fold_left (fun acc m => sw_run P acc (patch m)) mods s) s0).
  { induction mods as [|m mods IH]; intros s Hs; cbn [fold_left]; [exact Hs|]. apply IH.
    apply (sw_run_restored P s0 Hc); [exact Hs|apply patch_flag_restored_lemma]. }
  apply G. intros f; reflexivity.
Qed.

(* the code as it stands: only `evaluate` (field 1) is written; defaults evaluate=true, distribute=true, exp_is_pow=false *)
Example covers_current_code :
  covers (mkProcs [(1%N, false)] [(1%N, true)] [(1%N, true)]) [(0%N, true); (1%N, true); (2%N, false)] = true.
Proof. vm_compute. reflexivity. Qed.

(* a disable that also switches `distribute` (field 0) off while reset does not write it is NOT covered, and leaks *)
Example uncovered_switch_leaks :
  let P := mkProcs [(1%N, false); (0%N, false)] [(1%N, true)] [(1%N, true)] in
  let s0 := [(0%N, true); (1%N, true); (2%N, false)] in
  covers P s0 = false /\ uncovered P s0 = [0%N]
  /\ sw_run P s0 (patch [SConst false false false; Assign [Some "law"%string]; SConst false true true])
     = [(0%N, false); (1%N, true); (2%N, false)].
Proof. vm_compute. repeat split. Qed.

(* exception path: stopping inside a disabled region leaves the record changed (outside "once it finishes") *)
Example exception_path_leaks :
  sw_run (mkProcs [(1%N, false)] [(1%N, true)] [(1%N, true)]) [(0%N, true); (1%N, true); (2%N, false)] [PImport; PDisable]
  = [(0%N, true); (1%N, false); (2%N, false)].
Proof. vm_compute. reflexivity. Qed.
