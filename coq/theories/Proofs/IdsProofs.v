(* Lemmas about Model/Ids.v *)
From Coq Require Import List NArith String Ascii Bool Lia ZifyBool Arith Sorted.
From VP Require Import Model.Ids.
Import ListNotations.
Open Scope N_scope.

(* ---------------------------------------------------------------------------------------- *)
(* decimal printing: unfolding equation                                                       *)

Lemma div10_lt_pow2 f n : n < 2 ^ N.succ f -> n / 10 < 2 ^ f.
Proof.
  intros H. rewrite N.pow_succ_r' in H.
  apply N.div_lt_upper_bound; lia.
Qed.

Lemma digits_f_indep f1 : forall f2 n,
  n < 2 ^ N.of_nat f1 -> n < 2 ^ N.of_nat f2 -> digits_f (S f1) n = digits_f (S f2) n.
Proof.
  induction f1 as [|f1 IH]; intros f2 n H1 H2.
  - cbn in H1. assert (n = 0) by lia. subst. cbn. reflexivity.
  - cbn [digits_f]. destruct (n <? 10) eqn:E; [reflexivity|].
    destruct f2 as [|f2].
    + cbn in H2. lia.
    + f_equal. change (digits_f (S f1) (n / 10) = digits_f (S f2) (n / 10)).
      apply IH.
      * apply div10_lt_pow2. rewrite <- Nnat.Nat2N.inj_succ. exact H1.
      * apply div10_lt_pow2. rewrite <- Nnat.Nat2N.inj_succ. exact H2.
Qed.

Lemma size_gt' n : n < 2 ^ N.of_nat (N.to_nat (N.size n)).
Proof. rewrite Nnat.N2Nat.id. apply N.size_gt. Qed.

Lemma digits_eqn n :
  digits n = if n <? 10 then [n] else digits (n / 10) ++ [n mod 10].
Proof.
  unfold digits at 1. cbn [digits_f]. destruct (n <? 10) eqn:E; [reflexivity|].
  f_equal. unfold digits.
  remember (N.to_nat (N.size n)) as f eqn:Hf.
  destruct f as [|f].
  - pose proof (size_gt' n) as H. rewrite <- Hf in H. cbn in H. lia.
  - apply digits_f_indep.
    + apply div10_lt_pow2. rewrite <- Nnat.Nat2N.inj_succ. rewrite Hf. apply size_gt'.
    + apply size_gt'.
Qed.

Lemma digits_small n : n < 10 -> digits n = [n].
Proof. intros H. rewrite digits_eqn. destruct (n <? 10) eqn:E; [reflexivity|lia]. Qed.

Lemma digits_big n : 10 <= n -> digits n = digits (n / 10) ++ [n mod 10].
Proof. intros H. rewrite digits_eqn. destruct (n <? 10) eqn:E; [lia|reflexivity]. Qed.

(* strong induction in the shape we need *)
Lemma dec_ind (P : N -> Prop) :
  (forall n, n < 10 -> P n) ->
  (forall n, 10 <= n -> P (n / 10) -> P n) ->
  forall n, P n.
Proof.
  intros Hs Hb n. induction n as [n IH] using (well_founded_induction N.lt_wf_0).
  destruct (N.ltb_spec n 10) as [H|H]; [apply Hs; exact H|].
  apply Hb; [exact H|]. apply IH. apply N.div_lt; lia.
Qed.

Lemma digits_lt10 n : Forall (fun d => d < 10) (digits n).
Proof.
  induction n as [n H|n H IH] using dec_ind.
  - rewrite digits_small by exact H. constructor; [exact H|constructor].
  - rewrite digits_big by exact H. apply Forall_app. split; [exact IH|].
    constructor; [|constructor]. apply N.mod_lt. lia.
Qed.

Lemma digits_nonempty n : digits n <> [].
Proof.
  destruct (N.ltb_spec n 10) as [H|H].
  - rewrite digits_small by exact H. discriminate.
  - rewrite digits_big by exact H. intros E. apply app_eq_nil in E. destruct E; discriminate.
Qed.

(* value of a digit list, most significant first *)
Fixpoint val (l : list N) : N :=
  match l with
  | [] => 0
  | d :: r => d * 10 ^ N.of_nat (List.length r) + val r
  end.

Lemma val_snoc l d : val (l ++ [d]) = 10 * val l + d.
Proof.
  induction l as [|x l IH]; cbn [val app List.length].
  - cbn. lia.
  - rewrite IH. rewrite app_length. cbn [List.length]. rewrite Nat.add_1_r.
    rewrite Nnat.Nat2N.inj_succ, N.pow_succ_r'. lia.
Qed.

Lemma val_digits n : val (digits n) = n.
Proof.
  induction n as [n H|n H IH] using dec_ind.
  - rewrite digits_small by exact H. cbn. lia.
  - rewrite digits_big by exact H. rewrite val_snoc, IH.
    pose proof (N.div_mod n 10). lia.
Qed.

Lemma digits_inj a b : digits a = digits b -> a = b.
Proof. intros H. rewrite <- (val_digits a), <- (val_digits b), H. reflexivity. Qed.

Lemma val_bound l : Forall (fun d => d < 10) l -> val l < 10 ^ N.of_nat (List.length l).
Proof.
  induction 1 as [|d r Hd Hr IH]; cbn [val List.length].
  - cbn. lia.
  - rewrite Nnat.Nat2N.inj_succ, N.pow_succ_r'.
    set (P := 10 ^ N.of_nat (List.length r)) in *. nia.
Qed.

(* ---------------------------------------------------------------------------------------- *)
(* characters and strings                                                                     *)

Lemma code_digit_char d : d < 10 -> N_of_ascii (digit_char d) = 48 + d.
Proof. intros H. unfold digit_char. apply N_ascii_embedding. lia. Qed.

Lemma is_digit_digit_char d : d < 10 -> is_digit (digit_char d) = true.
Proof. intros H. unfold is_digit. rewrite code_digit_char by exact H. lia. Qed.

Lemma digit_char_inj a b : a < 10 -> b < 10 -> digit_char a = digit_char b -> a = b.
Proof.
  intros Ha Hb E. apply (f_equal N_of_ascii) in E.
  rewrite !code_digit_char in E by assumption. lia.
Qed.

Lemma str_of_digits_inj a : forall b,
  Forall (fun d => d < 10) a -> Forall (fun d => d < 10) b ->
  str_of_digits a = str_of_digits b -> a = b.
Proof.
  induction a as [|x a IH]; intros [|y b] Ha Hb E; cbn in E; try discriminate; [reflexivity|].
  inversion Ha; inversion Hb; subst. injection E as E1 E2.
  f_equal; [apply digit_char_inj; assumption|apply IH; assumption].
Qed.

Theorem dec_inj a b : dec a = dec b -> a = b.
Proof.
  intros E. apply digits_inj. apply str_of_digits_inj; [apply digits_lt10|apply digits_lt10|exact E].
Qed.

Lemma all_digits_str_of_digits l : Forall (fun d => d < 10) l -> all_digits (str_of_digits l) = true.
Proof.
  induction 1 as [|d r Hd Hr IH]; cbn; [reflexivity|].
  rewrite is_digit_digit_char by exact Hd. exact IH.
Qed.

Lemma all_digits_dec n : all_digits (dec n) = true.
Proof. apply all_digits_str_of_digits, digits_lt10. Qed.

Lemma dec_nonempty n : dec n <> EmptyString.
Proof.
  unfold dec. pose proof (digits_nonempty n). destruct (digits n); [congruence|cbn; discriminate].
Qed.

(* unique decodability of  prefix ++ numeral  for digit-free prefixes *)
Lemma decode_unique_str p : forall q s t,
  digit_free p = true -> digit_free q = true ->
  all_digits s = true -> all_digits t = true -> s <> EmptyString -> t <> EmptyString ->
  (p ++ s)%string = (q ++ t)%string -> p = q /\ s = t.
Proof.
  induction p as [|c p IH]; intros q s t Hp Hq Hs Ht Ns Nt E.
  - destruct q as [|c' q]; cbn in E.
    + split; [reflexivity|exact E].
    + exfalso. destruct s as [|x s]; [congruence|]. injection E as E1 E2. subst x.
      cbn in Hs, Hq. destruct (is_digit c'); cbn in *; congruence.
  - destruct q as [|c' q]; cbn in E.
    + exfalso. destruct t as [|x t]; [congruence|]. injection E as E1 E2. subst x.
      cbn in Ht, Hp. destruct (is_digit c); cbn in *; congruence.
    + injection E as E1 E2. subst c'. cbn in Hp, Hq.
      apply andb_true_iff in Hp. apply andb_true_iff in Hq.
      destruct (IH q s t) as [A B]; try tauto. subst. split; reflexivity.
Qed.

Theorem decode_unique p q n m :
  digit_free p = true -> digit_free q = true -> mk_name p n = mk_name q m -> p = q /\ n = m.
Proof.
  intros Hp Hq E. unfold mk_name in E.
  destruct (decode_unique_str p q (dec n) (dec m)) as [A B]; auto using all_digits_dec, dec_nonempty.
  split; [exact A|apply dec_inj; exact B].
Qed.

(* order *)
Lemma str_ltb_digits a : forall b,
  Forall (fun d => d < 10) a -> Forall (fun d => d < 10) b ->
  str_ltb (str_of_digits a) (str_of_digits b) = lex_ltb a b.
Proof.
  induction a as [|x a IH]; intros [|y b] Ha Hb; cbn [str_of_digits str_ltb lex_ltb]; try reflexivity.
  inversion Ha; inversion Hb; subst.
  rewrite !code_digit_char by assumption. rewrite IH by assumption.
  destruct (x <? y) eqn:E1, (y <? x) eqn:E2;
    destruct (48 + x <? 48 + y) eqn:E3, (48 + y <? 48 + x) eqn:E4; try reflexivity; lia.
Qed.

Lemma str_ltb_prefix p a b : str_ltb (p ++ a) (p ++ b) = str_ltb a b.
Proof.
  induction p as [|c p IH]; cbn [append str_ltb]; [reflexivity|].
  rewrite N.ltb_irrefl. exact IH.
Qed.

Lemma lex_same_length a : forall b,
  Forall (fun d => d < 10) a -> Forall (fun d => d < 10) b -> List.length a = List.length b ->
  lex_ltb a b = (val a <? val b).
Proof.
  induction a as [|x a IH]; intros [|y b] Ha Hb L; cbn in L; try discriminate; [reflexivity|].
  inversion Ha; inversion Hb; subst. injection L as L.
  cbn [lex_ltb val]. rewrite IH by assumption. rewrite L.
  pose proof (val_bound a ltac:(assumption)) as Ba. pose proof (val_bound b ltac:(assumption)) as Bb.
  rewrite L in Ba. set (P := 10 ^ N.of_nat (List.length b)) in *.
  destruct (x <? y) eqn:E1; [|destruct (y <? x) eqn:E2].
  - symmetry. apply N.ltb_lt. apply N.ltb_lt in E1. nia.
  - symmetry. apply N.ltb_ge. apply N.ltb_lt in E2. nia.
  - assert (x = y) by lia. subst y.
    destruct (val a <? val b) eqn:E3; symmetry; [apply N.ltb_lt|apply N.ltb_ge]; lia.
Qed.

(* a strict lexicographic "less" decided inside the common length survives appending *)
Lemma lex_app_l a : forall b c,
  List.length a = List.length b -> lex_ltb a b = true -> lex_ltb (a ++ c) b = true.
Proof.
  induction a as [|x a IH]; intros [|y b] c L H; cbn in L; try discriminate.
  injection L as L. cbn [app lex_ltb] in *.
  destruct (x <? y); [reflexivity|]. destruct (y <? x); [discriminate|]. apply IH; assumption.
Qed.

Lemma lex_app_r a : forall b c,
  List.length a = List.length b -> lex_ltb a b = false -> lex_ltb b a = true -> lex_ltb a (b ++ c) = false.
Proof.
  induction a as [|x a IH]; intros [|y b] c L H H'; cbn in L; try discriminate.
  injection L as L. cbn [app lex_ltb] in *.
  destruct (x <? y); [discriminate|]. destruct (y <? x); [reflexivity|]. apply IH; assumption.
Qed.

Lemma ndig_small n : n < 10 -> ndig n = 1%nat.
Proof. intros H. unfold ndig. rewrite digits_small by exact H. reflexivity. Qed.

Lemma ndig_big n : 10 <= n -> ndig n = S (ndig (n / 10)).
Proof.
  intros H. unfold ndig. rewrite digits_big by exact H. rewrite app_length. cbn. lia.
Qed.

Lemma ndig_pos n : (1 <= ndig n)%nat.
Proof.
  unfold ndig. pose proof (digits_nonempty n). destruct (digits n); [congruence|cbn; lia].
Qed.

(* 10^(ndig n - 1) <= n < 10^(ndig n)   for n > 0 *)
Lemma ndig_upper n : n < 10 ^ N.of_nat (ndig n).
Proof.
  rewrite <- (val_digits n) at 1. apply val_bound, digits_lt10.
Qed.

Lemma ndig_lower n : 0 < n -> 10 ^ N.of_nat (ndig n - 1) <= n.
Proof.
  induction n as [n H|n H IH] using dec_ind; intros Hp.
  - rewrite ndig_small by exact H. cbn. lia.
  - rewrite ndig_big by exact H.
    assert (0 < n / 10) by (apply N.div_str_pos; lia).
    specialize (IH H0).
    replace (S (ndig (n / 10)) - 1)%nat with (S (ndig (n / 10) - 1)) by (pose proof (ndig_pos (n / 10)); lia).
    rewrite Nnat.Nat2N.inj_succ, N.pow_succ_r'.
    set (P := 10 ^ N.of_nat (ndig (n / 10) - 1)) in *.
    pose proof (N.div_mod n 10 ltac:(lia)) as D. set (q := n / 10) in *. set (r := n mod 10) in *. lia.
Qed.

Lemma ndig_le_of_lt n e : n < 10 ^ N.of_nat e -> 0 < n -> (ndig n <= e)%nat.
Proof.
  intros H Hp. pose proof (ndig_lower n Hp) as L.
  destruct (le_lt_dec (ndig n) e) as [?|G]; [assumption|exfalso].
  assert (10 ^ N.of_nat e <= 10 ^ N.of_nat (ndig n - 1)) by (apply N.pow_le_mono_r; lia).
  lia.
Qed.

Lemma ndig_gt_of_le n e : 10 ^ N.of_nat e <= n -> (e < ndig n)%nat.
Proof.
  intros H. pose proof (ndig_upper n) as U.
  destruct (le_lt_dec (ndig n) e) as [G|?]; [exfalso|assumption].
  assert (10 ^ N.of_nat (ndig n) <= 10 ^ N.of_nat e) by (apply N.pow_le_mono_r; lia).
  lia.
Qed.

Lemma ndig_mono a b : a <= b -> (ndig a <= ndig b)%nat.
Proof.
  intros H. destruct (N.eq_dec a 0) as [->|Ha].
  - rewrite ndig_small by lia. apply ndig_pos.
  - apply ndig_le_of_lt; [|lia]. pose proof (ndig_upper b). lia.
Qed.

(* same number of digits: lexicographic = numeric *)
Lemma lex_digits_same a b : ndig a = ndig b -> lex_ltb (digits a) (digits b) = (a <? b).
Proof.
  intros H. rewrite lex_same_length by (try apply digits_lt10; exact H).
  rewrite !val_digits. reflexivity.
Qed.

(* one digit more, but less than ten times as big: the longer numeral sorts first *)
Lemma lex_digits_longer a b :
  0 < a -> a < b -> b < 10 * a -> (ndig a < ndig b)%nat ->
  lex_ltb (digits b) (digits a) = true /\ lex_ltb (digits a) (digits b) = false.
Proof.
  intros Ha Hab Hb Hn.
  assert (10 <= b) as Hb10.
  { destruct (N.ltb_spec b 10); [|assumption]. rewrite (ndig_small b) in Hn by assumption.
    pose proof (ndig_pos a). lia. }
  assert (ndig b = S (ndig (b / 10))) as Eb by (apply ndig_big; exact Hb10).
  assert (b / 10 < a) as Hlt by (apply N.div_lt_upper_bound; lia).
  assert (ndig (b / 10) <= ndig a)%nat by (apply ndig_mono; lia).
  assert (ndig (b / 10) = ndig a) as En by lia.
  rewrite (digits_big b) by exact Hb10.
  pose proof (lex_digits_same (b / 10) a En) as L1.
  pose proof (lex_digits_same a (b / 10) (eq_sym En)) as L2.
  split.
  - apply lex_app_l; [exact En|]. rewrite L1. apply N.ltb_lt. exact Hlt.
  - apply lex_app_r; [symmetry; exact En| |].
    + rewrite L2. apply N.ltb_ge. lia.
    + rewrite L1. apply N.ltb_lt. exact Hlt.
Qed.

(* ---------------------------------------------------------------------------------------- *)
(* windows of consecutive names                                                               *)

Lemma in_offsets k j : In j (offsets k) <-> 1 <= j <= k.
Proof.
  unfold offsets. rewrite in_map_iff. split.
  - intros [x [E H]]. apply in_seq in H. lia.
  - intros H. exists (N.to_nat j). split; [lia|]. apply in_seq. lia.
Qed.

Theorem window_order p n k i j :
  small_window n k -> 1 <= i <= k -> 1 <= j <= k ->
  str_ltb (wname p n i) (wname p n j) = order_spec (ndig (n + i)) i (ndig (n + j)) j.
Proof.
  unfold small_window, wname, mk_name, dec, order_spec. intros Hs Hi Hj.
  rewrite str_ltb_prefix. rewrite str_ltb_digits by apply digits_lt10.
  destruct (lt_eq_lt_dec (ndig (n + i)) (ndig (n + j))) as [[L|E]|G].
  - assert (n + i < n + j) as Hlt.
    { destruct (N.ltb_spec (n + i) (n + j)); [assumption|].
      pose proof (ndig_mono (n + j) (n + i) ltac:(assumption)). lia. }
    pose proof (proj2 (lex_digits_longer (n + i) (n + j) ltac:(lia) ltac:(lia) ltac:(lia) ltac:(lia))) as R.
    rewrite R. symmetry. apply orb_false_iff. split.
    + apply Nat.ltb_ge. lia.
    + apply andb_false_iff. left. apply Nat.eqb_neq. lia.
  - rewrite lex_digits_same by exact E. rewrite E, Nat.ltb_irrefl, Nat.eqb_refl. cbn.
    destruct (n + i <? n + j) eqn:A, (i <? j) eqn:B; try reflexivity; lia.
  - assert (n + j < n + i) as Hlt.
    { destruct (N.ltb_spec (n + j) (n + i)); [assumption|].
      pose proof (ndig_mono (n + i) (n + j) ltac:(assumption)). lia. }
    pose proof (proj1 (lex_digits_longer (n + j) (n + i) ltac:(lia) ltac:(lia) ltac:(lia) ltac:(lia))) as R.
    rewrite R. symmetry. apply orb_true_iff. left. apply Nat.ltb_lt. exact G.
Qed.

Lemma ndig_lt_iff a b : 0 < a -> a < b ->
  ((ndig a < ndig b)%nat <-> exists e : nat, a < 10 ^ N.of_nat e /\ 10 ^ N.of_nat e <= b).
Proof.
  intros Ha Hab. split.
  - intros L. exists (ndig a). split; [apply ndig_upper|].
    pose proof (ndig_lower b ltac:(lia)) as Lb.
    assert (10 ^ N.of_nat (ndig a) <= 10 ^ N.of_nat (ndig b - 1)) by (apply N.pow_le_mono_r; lia).
    lia.
  - intros [e [H1 H2]]. pose proof (ndig_le_of_lt a e H1 Ha). pose proof (ndig_gt_of_le b e H2). lia.
Qed.

(* a power of ten at an offset t with i < t <= j *)
Definition pow_between (n i j : N) : Prop :=
  exists t (e : nat), i < t /\ t <= j /\ n + t = 10 ^ N.of_nat e.

Lemma ndig_lt_pow_between n i j : 1 <= i ->
  ((ndig (n + i) < ndig (n + j))%nat <-> pow_between n i j).
Proof.
  intros Hi. destruct (N.ltb_spec i j) as [Hij|Hij].
  - rewrite ndig_lt_iff by lia. split.
    + intros [e [H1 H2]]. exists (10 ^ N.of_nat e - n), e. lia.
    + intros [t [e [H1 [H2 H3]]]]. exists e. lia.
  - split.
    + intros L. pose proof (ndig_mono (n + j) (n + i) ltac:(lia)). lia.
    + intros [t [e [H1 [H2 H3]]]]. lia.
Qed.

Definition same_pow10_positions (n n' k : N) : Prop :=
  forall j, 1 <= j <= k ->
    ((exists e : nat, n + j = 10 ^ N.of_nat e) <-> (exists e : nat, n' + j = 10 ^ N.of_nat e)).

Lemma pow_between_transfer n n' k i j :
  same_pow10_positions n n' k -> 1 <= i -> j <= k -> pow_between n i j -> pow_between n' i j.
Proof.
  intros S Hi Hj [t [e [H1 [H2 H3]]]].
  destruct (proj1 (S t ltac:(lia)) (ex_intro _ e H3)) as [e' H'].
  exists t, e'. auto.
Qed.

Lemma same_pow10_sym n n' k : same_pow10_positions n n' k -> same_pow10_positions n' n k.
Proof. intros S j H. symmetry. apply S. exact H. Qed.

Lemma ndig_cmp_transfer n n' k i j :
  same_pow10_positions n n' k -> 1 <= i <= k -> 1 <= j <= k ->
  ((ndig (n + i) < ndig (n + j))%nat <-> (ndig (n' + i) < ndig (n' + j))%nat).
Proof.
  intros S Hi Hj. rewrite !ndig_lt_pow_between by lia. split; intros H.
  - eapply pow_between_transfer; eauto; lia.
  - eapply pow_between_transfer; [apply same_pow10_sym; exact S| | |exact H]; lia.
Qed.

(* the order pattern of k consecutive names depends on the start value only through the offsets at
   which powers of ten fall inside the window *)
Theorem window_order_classes p n n' k :
  small_window n k -> small_window n' k -> same_pow10_positions n n' k ->
  forall i j, 1 <= i <= k -> 1 <= j <= k ->
    str_ltb (wname p n i) (wname p n j) = str_ltb (wname p n' i) (wname p n' j).
Proof.
  intros Hs Hs' S i j Hi Hj.
  rewrite (window_order p n k), (window_order p n' k) by assumption. unfold order_spec.
  pose proof (ndig_cmp_transfer n n' k i j S Hi Hj) as A.
  pose proof (ndig_cmp_transfer n n' k j i S Hj Hi) as B.
  lia.
Qed.

(* without a power of ten inside, generated names sort in creation order *)
Theorem window_generic p n k i j :
  small_window n k -> 1 <= i <= k -> 1 <= j <= k -> ~ pow_between n 0 k -> 1 <= n ->
  str_ltb (wname p n i) (wname p n j) = (i <? j).
Proof.
  intros Hs Hi Hj NP Hn. rewrite (window_order p n k) by assumption. unfold order_spec.
  assert (forall a b, 1 <= a <= k -> 1 <= b <= k -> ~ (ndig (n + a) < ndig (n + b))%nat) as Q.
  { intros a b Ha Hb L. apply ndig_lt_pow_between in L; [|lia].
    destruct L as [t [e H]]. apply NP. exists t, e. lia. }
  pose proof (Q i j Hi Hj). pose proof (Q j i Hj Hi).
  replace (Nat.ltb (ndig (n + j)) (ndig (n + i))) with false by (symmetry; apply Nat.ltb_ge; lia).
  replace (Nat.eqb (ndig (n + i)) (ndig (n + j))) with true by (symmetry; apply Nat.eqb_eq; lia).
  reflexivity.
Qed.

(* executable recogniser of powers of ten *)
Lemma digits_pow10 e : digits (10 ^ N.of_nat e) = 1 :: repeat 0 e.
Proof.
  induction e as [|e IH].
  - cbn. reflexivity.
  - rewrite Nnat.Nat2N.inj_succ, N.pow_succ_r'.
    assert (0 < 10 ^ N.of_nat e) by (apply N.neq_0_lt_0, N.pow_nonzero; lia).
    rewrite digits_big by lia.
    replace (10 * 10 ^ N.of_nat e / 10) with (10 ^ N.of_nat e) by (rewrite N.mul_comm, N.div_mul; lia).
    replace ((10 * 10 ^ N.of_nat e) mod 10) with 0 by (rewrite N.mul_comm, N.mod_mul; lia).
    rewrite IH. cbn [app]. f_equal. clear. induction e; cbn; [reflexivity|f_equal; assumption].
Qed.

Lemma val_zeros r : forallb (fun x => x =? 0) r = true -> val r = 0.
Proof.
  induction r as [|x r IH]; cbn [forallb val]; [reflexivity|].
  intros H. apply andb_true_iff in H. destruct H as [H1 H2]. rewrite IH by exact H2. lia.
Qed.

Lemma is_pow10_spec m : is_pow10 m = true <-> exists e : nat, m = 10 ^ N.of_nat e.
Proof.
  unfold is_pow10. split.
  - intros H. destruct (digits m) as [|d r] eqn:E; [discriminate|].
    apply andb_true_iff in H. destruct H as [H1 H2]. exists (List.length r).
    rewrite <- (val_digits m), E. cbn [val]. rewrite val_zeros by exact H2. lia.
  - intros [e ->]. rewrite digits_pow10. cbn. clear. induction e; cbn; [reflexivity|assumption].
Qed.

Lemma filter_eq_pointwise {A} (f g : A -> bool) l :
  filter f l = filter g l -> forall x, In x l -> f x = g x.
Proof.
  intros E x Hx.
  assert (f x = true <-> g x = true) as I.
  { split; intros H.
    - assert (In x (filter f l)) as J by (apply filter_In; auto). rewrite E in J. apply filter_In in J. tauto.
    - assert (In x (filter g l)) as J by (apply filter_In; auto). rewrite <- E in J. apply filter_In in J. tauto. }
  destruct (f x), (g x); try reflexivity; intuition congruence.
Qed.

Lemma pow10_positions_same n n' k :
  pow10_positions n k = pow10_positions n' k -> same_pow10_positions n n' k.
Proof.
  intros E j Hj. unfold pow10_positions in E.
  pose proof (filter_eq_pointwise _ _ _ E j (proj2 (in_offsets k j) Hj)) as P. cbn in P.
  rewrite <- !is_pow10_spec. rewrite P. tauto.
Qed.

(* the decidable form used by the harness: equal pow10_positions => equal order pattern *)
Theorem window_order_classes_exec p n n' k :
  small_windowb n k = true -> small_windowb n' k = true ->
  pow10_positions n k = pow10_positions n' k ->
  pattern p n k = pattern p n' k.
Proof.
  unfold small_windowb. intros H1 H2 E. apply N.ltb_lt in H1. apply N.ltb_lt in H2.
  apply pow10_positions_same in E. unfold pattern.
  apply map_ext_in. intros i Hi. apply map_ext_in. intros j Hj.
  apply in_offsets in Hi. apply in_offsets in Hj.
  apply (window_order_classes p n n' k); assumption.
Qed.

Theorem pattern_prefix_irrelevant p q n k : pattern p n k = pattern q n k.
Proof.
  unfold pattern, wname, mk_name. apply map_ext. intros i. apply map_ext. intros j.
  rewrite !str_ltb_prefix. reflexivity.
Qed.

(* ---------------------------------------------------------------------------------------- *)
(* counter state and histories                                                                *)

Definition last_or0 (p : string) (s : state) : N :=
  match lookup p s with Some v => v | None => 0 end.

Lemma lookup_update_same p v s : lookup p (update p v s) = Some v.
Proof.
  induction s as [|[q w] r IH]; cbn.
  - rewrite String.eqb_refl. reflexivity.
  - destruct (String.eqb p q) eqn:E; cbn; rewrite E; [reflexivity|exact IH].
Qed.

Lemma lookup_update_other p q v s : p <> q -> lookup q (update p v s) = lookup q s.
Proof.
  intros N. induction s as [|[k w] r IH]; cbn.
  - destruct (String.eqb q p) eqn:E; [apply String.eqb_eq in E; congruence|reflexivity].
  - destruct (String.eqb p k) eqn:E; cbn.
    + apply String.eqb_eq in E. subst k.
      destruct (String.eqb q p) eqn:E'; [apply String.eqb_eq in E'; congruence|reflexivity].
    + destruct (String.eqb q k); [reflexivity|exact IH].
Qed.

Lemma next_val_last p s : next_val p s = last_or0 p s + 1.
Proof. unfold next_val, last_or0. destruct (lookup p s); lia. Qed.

(* next_id hands out a strictly larger id for its prefix, records it, and touches no other prefix *)
Theorem next_id_monotone p s :
  last_or0 p s < fst (next_id p s) /\
  last_or0 p (snd (next_id p s)) = fst (next_id p s) /\
  forall q, q <> p -> lookup q (snd (next_id p s)) = lookup q s.
Proof.
  unfold next_id. cbn [fst snd]. rewrite next_val_last. split; [lia|split].
  - unfold last_or0. rewrite lookup_update_same. reflexivity.
  - intros q Hq. apply lookup_update_other. congruence.
Qed.

Lemma last_or0_step o s p : last_or0 p s <= last_or0 p (step o s).
Proof.
  destruct o as [q|q|q]; cbn [step]; try lia;
    (destruct (string_dec q p) as [->|Hn];
     [destruct (next_id_monotone p s) as [A [B _]]; lia
     |destruct (next_id_monotone q s) as [_ [_ C]]; unfold last_or0; rewrite C by congruence; lia]).
Qed.

Lemma last_or0_step_alloc o s :
  allocates o = true -> last_or0 (op_prefix o) (step o s) = next_val (op_prefix o) s.
Proof.
  destruct o as [q|q|q]; cbn; intros H; try discriminate;
    destruct (next_id_monotone q s) as [_ [B _]]; exact B.
Qed.

Lemma run_ids_gt h : forall s p v, In (p, v) (run_ids h s) -> last_or0 p s < v.
Proof.
  induction h as [|o r IH]; intros s p v H; cbn in H; [contradiction|].
  pose proof (last_or0_step o s p) as M.
  destruct (allocates o) eqn:A.
  - destruct H as [E|H].
    + injection E as E1 E2. subst. rewrite next_val_last. lia.
    + specialize (IH _ _ _ H). lia.
  - specialize (IH _ _ _ H). lia.
Qed.

(* no (prefix, id) pair is handed out twice, for every history and every start state *)
Theorem ids_fresh h : forall s, NoDup (run_ids h s).
Proof.
  induction h as [|o r IH]; intros s; cbn; [constructor|].
  destruct (allocates o) eqn:A; [|apply IH].
  constructor; [|apply IH].
  intros H. apply run_ids_gt in H. rewrite last_or0_step_alloc in H by exact A. lia.
Qed.

Definition ids_of (p : string) (l : list (string * N)) : list N :=
  map snd (filter (fun pv => String.eqb (fst pv) p) l).

(* ids of one prefix come out strictly increasing *)
Theorem ids_increasing p h : forall s, StronglySorted N.lt (ids_of p (run_ids h s)).
Proof.
  induction h as [|o r IH]; intros s; cbn; [constructor|].
  destruct (allocates o) eqn:A; [|apply IH].
  unfold ids_of. cbn [filter fst]. destruct (String.eqb (op_prefix o) p) eqn:E; [|apply IH].
  apply String.eqb_eq in E. cbn [map snd]. constructor; [apply IH|].
  apply Forall_forall. intros v Hv. apply in_map_iff in Hv. destruct Hv as [[q w] [E1 Hq]].
  cbn in E1. subst w. apply filter_In in Hq. destruct Hq as [Hq Eq]. cbn in Eq.
  apply String.eqb_eq in Eq. subst q. apply run_ids_gt in Hq.
  rewrite <- E in Hq. rewrite last_or0_step_alloc in Hq by exact A. exact Hq.
Qed.

Lemma run_ids_prefix h : forall s p v, In (p, v) (run_ids h s) -> exists o, In o h /\ op_prefix o = p.
Proof.
  induction h as [|o r IH]; intros s p v H; cbn in H; [contradiction|].
  destruct (allocates o).
  - destruct H as [E|H].
    + injection E as E1 E2. exists o. split; [left; reflexivity|exact E1].
    + destruct (IH _ _ _ H) as [o' [I P]]. exists o'. split; [right; exact I|exact P].
  - destruct (IH _ _ _ H) as [o' [I P]]. exists o'. split; [right; exact I|exact P].
Qed.

Lemma NoDup_map_inj_in {A B} (f : A -> B) (l : list A) :
  (forall x y, In x l -> In y l -> f x = f y -> x = y) -> NoDup l -> NoDup (map f l).
Proof.
  intros Inj H. induction H as [|x l Hx Hl IH]; cbn; [constructor|].
  constructor.
  - intros I. apply in_map_iff in I. destruct I as [y [E Hy]].
    assert (y = x) by (apply Inj; [right; exact Hy|left; reflexivity|exact E]). subst. contradiction.
  - apply IH. intros a b Ha Hb. apply Inj; right; assumption.
Qed.

Definition prefixes_digit_free (h : list op) : Prop :=
  Forall (fun o => digit_free (op_prefix o) = true) h.

(* the generated names are pairwise distinct for EVERY history from EVERY start state *)
Theorem names_fresh h s : prefixes_digit_free h -> NoDup (run h s).
Proof.
  intros F. unfold run. apply NoDup_map_inj_in; [|apply ids_fresh].
  intros [p v] [q w] Hx Hy E. cbn [fst snd] in E.
  destruct (run_ids_prefix _ _ _ _ Hx) as [o1 [I1 P1]].
  destruct (run_ids_prefix _ _ _ _ Hy) as [o2 [I2 P2]].
  unfold prefixes_digit_free in F. rewrite Forall_forall in F.
  pose proof (F _ I1) as D1. pose proof (F _ I2) as D2. rewrite P1 in D1. rewrite P2 in D2.
  destruct (decode_unique p q v w D1 D2 E). congruence.
Qed.

Lemma run_ids_app h1 : forall h2 s, run_ids (h1 ++ h2) s = run_ids h1 s ++ run_ids h2 (final h1 s).
Proof.
  induction h1 as [|o r IH]; intros h2 s; cbn; [reflexivity|].
  destruct (allocates o); cbn; rewrite IH; reflexivity.
Qed.

Theorem run_app h1 h2 s : run (h1 ++ h2) s = run h1 s ++ run h2 (final h1 s).
Proof. unfold run. rewrite run_ids_app, map_app. reflexivity. Qed.

(* a name generated later never repeats a name generated earlier in the same process *)
Theorem names_fresh_later h1 h2 s x :
  prefixes_digit_free h1 -> prefixes_digit_free h2 ->
  In x (run h1 s) -> In x (run h2 (final h1 s)) -> False.
Proof.
  intros F1 F2 I1 I2.
  assert (NoDup (run (h1 ++ h2) s)) as ND by (apply names_fresh, Forall_app; split; assumption).
  rewrite run_app in ND. remember (run h2 (final h1 s)) as l2 eqn:E2. clear E2.
  induction (run h1 s) as [|y l IH]; [contradiction|].
  cbn in ND. inversion ND as [|? ? N1 N2]; subst. destruct I1 as [->|I1].
  - apply N1. apply in_or_app. right. exact I2.
  - apply IH; assumption.
Qed.

(* the prefixes found in /repo (checked to be exactly these by the harness on every run) *)
Definition repo_prefixes : list string := ["SYM"; "FUN"; "QTY"; "SYS"; "C"; "VEC"; ""]%string.

Lemma repo_prefixes_digit_free : forallb digit_free repo_prefixes = true.
Proof. vm_compute. reflexivity. Qed.

(* observation stream is consistent with the name stream *)
Lemma run_obs_length h : forall s, List.length (run_obs h s) = List.length h.
Proof. induction h as [|o r IH]; intros s; cbn; [reflexivity|rewrite IH; reflexivity]. Qed.

(* non-vacuity *)
Example ex_run :
  run [NextName "SYM"; NextId ""; NextName "SYM"; LastId "SYM"; NextName "FUN"]%string [("SYM", 9)]%string
  = ["SYM10"; "1"; "SYM11"; "FUN1"]%string.
Proof. vm_compute. reflexivity. Qed.

Example ex_pattern_boundary : pattern "SYM" 8 3 = [[false; false; false]; [true; false; true]; [true; false; false]].
Proof. vm_compute. reflexivity. Qed.

Example ex_pattern_class : pattern "SYM" 98 3 = pattern "SYM" 8 3 /\ pattern "SYM" 998 3 = pattern "SYM" 8 3
  /\ pattern "SYM" 20 3 <> pattern "SYM" 8 3.
Proof. vm_compute. repeat split. discriminate. Qed.

(* the smallness hypothesis is needed: 6 < 60 as strings but 96 > 150 *)
Example ex_small_needed :
  pow10_positions 5 60 = pow10_positions 95 60 /\ pattern "" 5 60 <> pattern "" 95 60.
Proof. vm_compute. split; [reflexivity|discriminate]. Qed.

(* a digit in a prefix breaks unique decodability: "S1" ++ "1" = "S" ++ "11" *)
Example ex_digit_prefix_collides : mk_name "S1" 1 = mk_name "S" 11.
Proof. vm_compute. reflexivity. Qed.
