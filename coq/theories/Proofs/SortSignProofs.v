(* Specification of the model of sort_with_sign. *)
From Coq Require Import List ZArith Bool Lia ZifyBool Permutation Sorted Arith.
From VP Require Import Model.SortSign.
Import ListNotations.

(* ---------------------------------------------------------------- insertion sort on integers *)

Lemma insert_z_perm k l : Permutation (k :: l) (insert_z k l).
Proof.
  induction l as [|h t IH]; cbn; [reflexivity|].
  destruct (k <=? h)%Z; [reflexivity|].
  rewrite perm_swap. constructor. exact IH.
Qed.

Lemma sort_z_perm l : Permutation l (sort_z l).
Proof.
  induction l as [|h t IH]; cbn; [constructor|].
  rewrite <- insert_z_perm. constructor. exact IH.
Qed.

Lemma insert_z_split k s : StronglySorted Z.le s ->
  exists s1 s2, s = s1 ++ s2 /\ insert_z k s = s1 ++ k :: s2 /\
    Forall (fun x => (x < k)%Z) s1 /\ Forall (fun x => (k <= x)%Z) s2.
Proof.
  induction s as [|h t IH]; intros Hs.
  - exists [], []. cbn. repeat split; constructor.
  - inversion Hs as [|? ? Ht Hh]; subst. cbn.
    destruct (k <=? h)%Z eqn:E.
    + exists [], (h :: t). cbn. repeat split; [constructor|].
      constructor; [lia|]. eapply Forall_impl; [|exact Hh]. cbn; intros; lia.
    + destruct (IH Ht) as (s1 & s2 & E1 & E2 & F1 & F2).
      exists (h :: s1), s2. cbn. rewrite E2. subst t. repeat split; [|assumption].
      constructor; [lia|assumption].
Qed.

Lemma insert_z_sorted k s : StronglySorted Z.le s -> StronglySorted Z.le (insert_z k s).
Proof.
  intros Hs. destruct (insert_z_split k s Hs) as (s1 & s2 & E1 & E2 & F1 & F2).
  rewrite E2. subst s. clear E2.
  induction s1 as [|h t IH]; cbn in *.
  - constructor; [assumption|]. exact F2.
  - inversion Hs; subst. inversion F1; subst. constructor; [apply IH; assumption|].
    rewrite Forall_app in *. destruct H2 as [Ha Hb]. split; [assumption|].
    constructor; [lia|assumption].
Qed.

Lemma sort_z_sorted l : StronglySorted Z.le (sort_z l).
Proof. induction l; cbn; [constructor|apply insert_z_sorted; assumption]. Qed.

(* ---------------------------------------------------------------- index / select *)

Lemma index_of_nth k ks : In k ks -> nth_error ks (index_of k ks) = Some k.
Proof.
  induction ks as [|h t IH]; cbn; [tauto|]. intros H.
  destruct (k =? h)%Z eqn:E; cbn; [f_equal; lia|].
  apply IH. destruct H; [lia|assumption].
Qed.

Lemma index_of_inj x y ks : In x ks -> index_of x ks = index_of y ks -> In y ks -> x = y.
Proof.
  intros Hx E Hy. apply index_of_nth in Hx. apply index_of_nth in Hy. rewrite E in Hx. congruence.
Qed.

Lemma index_of_key {A} (key : A -> Z) (it : list A) k :
  In k (map key it) -> exists x, nth_error it (index_of k (map key it)) = Some x /\ key x = k /\ In x it.
Proof.
  induction it as [|h t IH]; cbn; [tauto|]. intros H.
  destruct (k =? key h)%Z eqn:E; cbn.
  - exists h. repeat split; [lia|now left].
  - destruct IH as (x & E1 & E2 & E3); [destruct H; [lia|assumption]|].
    exists x. repeat split; [assumption..|now right].
Qed.

Lemma select_keys {A} (key : A -> Z) (it : list A) (s : list Z) :
  incl s (map key it) ->
  map key (select it (map (fun k => index_of k (map key it)) s)) = s /\
  incl (select it (map (fun k => index_of k (map key it)) s)) it.
Proof.
  induction s as [|k s IH]; intros Hi; cbn; [split; [reflexivity|intros ? []]|].
  destruct (index_of_key key it k) as (x & E1 & E2 & E3); [apply Hi; now left|].
  unfold select in *. cbn. rewrite E1. cbn.
  destruct IH as [IH1 IH2]; [intros z Hz; apply Hi; now right|].
  split; [rewrite IH1; congruence|].
  intros z [Hz|Hz]; [subst; assumption|apply IH2; assumption].
Qed.

(* ---------------------------------------------------------------- duplicates *)

Lemma mem_nat_In a l : mem_nat a l = true <-> In a l.
Proof.
  induction l as [|h t IH]; cbn; [split; [discriminate|tauto]|].
  destruct (Nat.eqb_spec a h); [subst; split; auto|].
  rewrite IH. split; [auto|]. intros [H|H]; [congruence|assumption].
Qed.

Lemma has_dup_false l : has_dup l = false <-> NoDup l.
Proof.
  induction l as [|h t IH]; cbn; [split; [constructor|reflexivity]|].
  destruct (mem_nat h t) eqn:E.
  - split; [discriminate|]. intros H. inversion H; subst. apply mem_nat_In in E. contradiction.
  - rewrite IH. split.
    + intros H. constructor; [|assumption]. intros Hin. apply mem_nat_In in Hin. congruence.
    + intros H. inversion H; assumption.
Qed.

Lemma NoDup_map_inj_in {A B} (f : A -> B) l :
  (forall x y, In x l -> In y l -> f x = f y -> x = y) -> NoDup l -> NoDup (map f l).
Proof.
  induction l as [|h t IH]; cbn; intros Hinj Hn; [constructor|].
  inversion Hn; subst. constructor.
  - intros Hin. apply in_map_iff in Hin. destruct Hin as (y & E & Hy).
    assert (y = h) by (apply Hinj; auto). subst. contradiction.
  - apply IH; [intros; apply Hinj; auto|assumption].
Qed.

Lemma indices_NoDup ks : NoDup (indices_of ks) <-> NoDup ks.
Proof.
  unfold indices_of. pose proof (sort_z_perm ks) as P. split; intros H.
  - apply NoDup_map_inv in H. eapply Permutation_NoDup; [symmetry; exact P|exact H].
  - apply NoDup_map_inj_in.
    + intros x y Hx Hy E. eapply index_of_inj; [|exact E|].
      * eapply Permutation_in; [symmetry; exact P|exact Hx].
      * eapply Permutation_in; [symmetry; exact P|exact Hy].
    + eapply Permutation_NoDup; [exact P|exact H].
Qed.

(* ---------------------------------------------------------------- inversions *)

Fixpoint count_ltz (a : Z) (l : list Z) : nat :=
  match l with
  | [] => 0
  | h :: t => if (h <? a)%Z then S (count_ltz a t) else count_ltz a t
  end.

Fixpoint inv_z (l : list Z) : nat :=
  match l with
  | [] => 0
  | h :: t => count_ltz h t + inv_z t
  end.

Lemma count_ltz_app a l1 l2 : count_ltz a (l1 ++ l2) = count_ltz a l1 + count_ltz a l2.
Proof. induction l1 as [|h t IH]; cbn; [reflexivity|]. destruct (h <? a)%Z; lia. Qed.

Lemma count_ltz_perm a l l' : Permutation l l' -> count_ltz a l = count_ltz a l'.
Proof.
  induction 1; cbn; try lia.
  - destruct (x <? a)%Z; lia.
  - destruct (x <? a)%Z, (y <? a)%Z; lia.
Qed.

Lemma count_ltz_all a l : Forall (fun x => (x < a)%Z) l -> count_ltz a l = length l.
Proof. induction 1; cbn; [reflexivity|]. destruct (x <? a)%Z eqn:E; lia. Qed.

Lemma count_ltz_none a l : Forall (fun x => (a <= x)%Z) l -> count_ltz a l = 0.
Proof. induction 1; cbn; [reflexivity|]. destruct (x <? a)%Z eqn:E; lia. Qed.

Lemma count_lt_app a l1 l2 : count_lt a (l1 ++ l2) = count_lt a l1 + count_lt a l2.
Proof. induction l1 as [|h t IH]; cbn [count_lt app]; [reflexivity|]. destruct (Nat.ltb h a); lia. Qed.

Lemma count_lt_S a l : count_lt (S a) (map S l) = count_lt a l.
Proof.
  induction l as [|h t IH]; cbn [count_lt map]; [reflexivity|]. rewrite IH.
  destruct (Nat.ltb_spec (S h) (S a)), (Nat.ltb_spec h a); lia.
Qed.

Lemma count_lt_0 l : count_lt 0 l = 0.
Proof. induction l; cbn [count_lt]; [reflexivity|]. destruct (Nat.ltb_spec a 0); [lia|assumption]. Qed.

Lemma inversions_S l : inversions (map S l) = inversions l.
Proof. induction l as [|h t IH]; cbn [inversions map]; [reflexivity|]. rewrite count_lt_S, IH. reflexivity. Qed.

Lemma inversions_insert0 a b :
  inversions (map S a ++ 0 :: map S b) = length a + inversions (a ++ b).
Proof.
  induction a as [|x a IH]; cbn [map app inversions length].
  - rewrite count_lt_0, inversions_S. reflexivity.
  - rewrite IH, !count_lt_app. cbn [count_lt]. rewrite !count_lt_S.
    destruct (Nat.ltb_spec 0 (S x)); lia.
Qed.

(* the permutation `indices` has as many inversions as the key list it sorts *)
Lemma inv_indices ks : NoDup ks -> inversions (indices_of ks) = inv_z ks.
Proof.
  induction ks as [|k ks0 IH]; intros Hn; [reflexivity|].
  inversion Hn as [|? ? Hk Hn0]; subst.
  unfold indices_of. cbn [sort_z inv_z].
  destruct (insert_z_split k (sort_z ks0) (sort_z_sorted ks0)) as (s1 & s2 & E1 & E2 & F1 & F2).
  rewrite E2.
  assert (Hs : forall x, In x (s1 ++ s2) -> x <> k).
  { intros x Hx Hxk. subst x. apply Hk. eapply Permutation_in; [symmetry; apply sort_z_perm|].
    rewrite E1. exact Hx. }
  assert (Hmap : forall l, (forall x, In x l -> x <> k) ->
     map (fun x => index_of x (k :: ks0)) l = map S (map (fun x => index_of x ks0) l)).
  { induction l as [|y l IHl]; intros Hl; cbn; [reflexivity|].
    destruct (y =? k)%Z eqn:E; [exfalso; apply (Hl y); [now left|lia]|].
    f_equal. apply IHl. intros; apply Hl; now right. }
  rewrite map_app. cbn [map].
  change (index_of k (k :: ks0)) with (if (k =? k)%Z then 0 else S (index_of k ks0)).
  rewrite Z.eqb_refl.
  rewrite !Hmap by (intros x Hx; apply Hs; apply in_or_app; auto).
  rewrite inversions_insert0, <- map_app, <- E1.
  fold (indices_of ks0). rewrite IH by assumption. rewrite map_length.
  f_equal.
  rewrite (count_ltz_perm k ks0 _ (sort_z_perm ks0)), E1, count_ltz_app.
  rewrite (count_ltz_all _ _ F1), (count_ltz_none _ _ F2). lia.
Qed.

Lemma inv_z_swap l1 x y l2 : x <> y ->
  inv_z (l1 ++ y :: x :: l2) = S (inv_z (l1 ++ x :: y :: l2)) \/
  S (inv_z (l1 ++ y :: x :: l2)) = inv_z (l1 ++ x :: y :: l2).
Proof.
  intros Hxy. induction l1 as [|h t IH]; cbn.
  - destruct (x <? y)%Z eqn:E1, (y <? x)%Z eqn:E2; lia.
  - rewrite !count_ltz_app. cbn. destruct (x <? h)%Z, (y <? h)%Z; lia.
Qed.

Lemma inv_z_sorted l : StronglySorted Z.le l -> inv_z l = 0.
Proof.
  induction 1 as [|h t Ht IH Hh]; cbn; [reflexivity|]. rewrite IH, count_ltz_none; [reflexivity|exact Hh].
Qed.

(* ---------------------------------------------------------------- the specification *)

Definition parity_sign (n : nat) : Z := if Nat.even n then 1%Z else (-1)%Z.

Lemma parity_sign_S n : parity_sign (S n) = (- parity_sign n)%Z.
Proof. unfold parity_sign. rewrite Nat.even_succ, <- Nat.negb_even. destruct (Nat.even n); reflexivity. Qed.

Section Spec.
Context {A : Type} (key : A -> Z).

Theorem sws_sign_range (l : list A) :
  let s := fst (sort_with_sign key l) in s = (-1)%Z \/ s = 0%Z \/ s = 1%Z.
Proof.
  cbn. destruct (has_dup _); [auto|]. unfold signature. destruct (Nat.even _); auto.
Qed.

Theorem sws_sign_zero_iff (l : list A) :
  fst (sort_with_sign key l) = 0%Z <-> ~ NoDup (map key l).
Proof.
  cbn. destruct (has_dup _) eqn:E.
  - split; [|reflexivity]. intros _ Hn. apply indices_NoDup in Hn. apply has_dup_false in Hn. congruence.
  - split.
    + unfold signature. destruct (Nat.even _); discriminate.
    + intros Hn. exfalso. apply Hn. apply indices_NoDup. apply has_dup_false. exact E.
Qed.

(* without duplicates the sign is (-1)^(number of inversions of the key list): the signature of the
   permutation that sorts it *)
Theorem sws_sign_signature (l : list A) :
  NoDup (map key l) -> fst (sort_with_sign key l) = parity_sign (inv_z (map key l)).
Proof.
  intros Hn. cbn.
  assert (E : has_dup (indices_of (map key l)) = false) by (apply has_dup_false, indices_NoDup; exact Hn).
  rewrite E. unfold signature, parity_sign. rewrite inv_indices by assumption. reflexivity.
Qed.

Theorem sws_sign_sorted (l : list A) :
  StronglySorted Z.lt (map key l) -> fst (sort_with_sign key l) = 1%Z.
Proof.
  intros Hs.
  assert (Hn : NoDup (map key l)).
  { induction Hs as [|h t Ht IH Hh]; constructor; [|assumption].
    intros Hin. rewrite Forall_forall in Hh. specialize (Hh _ Hin). lia. }
  rewrite sws_sign_signature by assumption.
  rewrite inv_z_sorted; [reflexivity|].
  clear Hn. induction Hs as [|h t Ht IH Hh]; constructor; [assumption|].
  eapply Forall_impl; [|exact Hh]. cbn; intros; lia.
Qed.

(* exchanging two neighbours with different keys flips the sign *)
Theorem sws_sign_swap (l1 l2 : list A) (x y : A) : key x <> key y ->
  fst (sort_with_sign key (l1 ++ y :: x :: l2)) = (- fst (sort_with_sign key (l1 ++ x :: y :: l2)))%Z.
Proof.
  intros Hxy.
  assert (P : Permutation (map key (l1 ++ x :: y :: l2)) (map key (l1 ++ y :: x :: l2))).
  { rewrite !map_app. apply Permutation_app_head. cbn. apply perm_swap. }
  destruct (ListDec.NoDup_dec Z.eq_dec (map key (l1 ++ x :: y :: l2))) as [Hn|Hn].
  - assert (Hn' : NoDup (map key (l1 ++ y :: x :: l2))) by (eapply Permutation_NoDup; eassumption).
    rewrite !sws_sign_signature by assumption.
    rewrite !map_app. cbn [map].
    destruct (inv_z_swap (map key l1) (key x) (key y) (map key l2) Hxy) as [E|E].
    + rewrite E, parity_sign_S. reflexivity.
    + rewrite <- E, parity_sign_S. lia.
  - assert (Hn' : ~ NoDup (map key (l1 ++ y :: x :: l2))).
    { intros H. apply Hn. eapply Permutation_NoDup; [symmetry; exact P|exact H]. }
    apply sws_sign_zero_iff in Hn, Hn'. rewrite Hn, Hn'. reflexivity.
Qed.

Theorem sws_keys_sorted (l : list A) :
  map key (snd (sort_with_sign key l)) = sort_z (map key l) /\
  StronglySorted Z.le (map key (snd (sort_with_sign key l))).
Proof.
  cbn. unfold indices_of.
  destruct (select_keys key l (sort_z (map key l))) as [E _].
  { intros z Hz. eapply Permutation_in; [symmetry; apply sort_z_perm|exact Hz]. }
  rewrite E. split; [reflexivity|apply sort_z_sorted].
Qed.

Theorem sws_incl (l : list A) : incl (snd (sort_with_sign key l)) l.
Proof.
  cbn. unfold indices_of. apply select_keys.
  intros z Hz. eapply Permutation_in; [symmetry; apply sort_z_perm|exact Hz].
Qed.

Theorem sws_length (l : list A) : length (snd (sort_with_sign key l)) = length l.
Proof.
  pose proof (proj1 (sws_keys_sorted l)) as E. apply (f_equal (@length Z)) in E.
  rewrite !map_length in E. rewrite E, <- (Permutation_length (sort_z_perm (map key l))), map_length. reflexivity.
Qed.

(* insertion sort of the items themselves, by key *)
Fixpoint insert_by (x : A) (l : list A) : list A :=
  match l with
  | [] => [x]
  | h :: t => if (key x <=? key h)%Z then x :: l else h :: insert_by x t
  end.
Fixpoint isort_by (l : list A) : list A :=
  match l with [] => [] | h :: t => insert_by h (isort_by t) end.

Lemma insert_by_perm x l : Permutation (x :: l) (insert_by x l).
Proof.
  induction l as [|h t IH]; cbn; [reflexivity|].
  destruct (key x <=? key h)%Z; [reflexivity|]. rewrite perm_swap. constructor. exact IH.
Qed.
Lemma isort_by_perm l : Permutation l (isort_by l).
Proof. induction l; cbn; [constructor|]. rewrite <- insert_by_perm. constructor. assumption. Qed.
Lemma insert_by_keys x l : map key (insert_by x l) = insert_z (key x) (map key l).
Proof. induction l as [|h t IH]; cbn; [reflexivity|]. destruct (key x <=? key h)%Z; cbn; congruence. Qed.
Lemma isort_by_keys l : map key (isort_by l) = sort_z (map key l).
Proof. induction l; cbn; [reflexivity|]. rewrite insert_by_keys. congruence. Qed.

Definition key_inj_on (l : list A) : Prop := forall x y, In x l -> In y l -> key x = key y -> x = y.

Lemma same_keys_same_items (l X Y : list A) :
  key_inj_on l -> incl X l -> incl Y l -> map key X = map key Y -> X = Y.
Proof.
  intros Hinj. revert Y. induction X as [|x X IH]; intros [|y Y] HX HY E; cbn in E; try discriminate; [reflexivity|].
  injection E as E1 E2. f_equal.
  - apply Hinj; [apply HX; now left|apply HY; now left|assumption].
  - apply IH; [intros z Hz; apply HX; now right|intros z Hz; apply HY; now right|assumption].
Qed.

(* when the key identifies the items (key = id does), the result is the list sorted by key ... *)
Theorem sws_items_sorted (l : list A) : key_inj_on l -> snd (sort_with_sign key l) = isort_by l.
Proof.
  intros Hinj. apply (same_keys_same_items l); [assumption| | |].
  - cbn. unfold indices_of. apply select_keys.
    intros z Hz. eapply Permutation_in; [symmetry; apply sort_z_perm|exact Hz].
  - intros z Hz. eapply Permutation_in; [symmetry; apply isort_by_perm|exact Hz].
  - rewrite isort_by_keys. apply sws_keys_sorted.
Qed.

(* ... in particular a permutation of the input *)
Theorem sws_perm (l : list A) : key_inj_on l -> Permutation l (snd (sort_with_sign key l)).
Proof. intros H. rewrite sws_items_sorted by assumption. apply isort_by_perm. Qed.

End Spec.

(* the specification in one statement *)
Theorem sort_sign_spec {A} (key : A -> Z) (l : list A) :
  let r := sort_with_sign key l in
  StronglySorted Z.le (map key (snd r)) /\
  (key_inj_on key l -> Permutation l (snd r)) /\
  (fst r = 0%Z <-> ~ NoDup (map key l)) /\
  (NoDup (map key l) -> fst r = parity_sign (inv_z (map key l))) /\
  (fst r = (-1)%Z \/ fst r = 0%Z \/ fst r = 1%Z).
Proof.
  cbv zeta. split; [apply sws_keys_sorted|]. split; [apply sws_perm|].
  split; [apply sws_sign_zero_iff|]. split; [apply sws_sign_signature|apply sws_sign_range].
Qed.

(* non-vacuity: the model run on concrete lists *)
Example sws_ex1 : sort_with_sign (fun x => x) [3; 1; 2]%Z = (1%Z, [1; 2; 3]%Z).
Proof. vm_compute. reflexivity. Qed.
Example sws_ex2 : sort_with_sign (fun x => x) [2; 1; 3]%Z = ((-1)%Z, [1; 2; 3]%Z).
Proof. vm_compute. reflexivity. Qed.
Example sws_ex3 : fst (sort_with_sign (fun x => x) [2; 1; 2]%Z) = 0%Z.
Proof. vm_compute. reflexivity. Qed.
