(* Lemmas about Model/LatexSyntax.v: the stack discipline of wellformed_tex accepts exactly the balanced
   bracket sequences. *)
From Coq Require Import String Ascii List Bool Arith Lia ZArith NArith.
From VP Require Import Model.CodeSyntax Model.LatexSyntax.
Import ListNotations.

(* the grammar of balanced sequences over  {  }  \left  \right  *)
Inductive balanced : list btok -> Prop :=
| bal_nil : balanced []
| bal_brace l1 l2 : balanced l1 -> balanced l2 -> balanced (BO :: l1 ++ BC :: l2)
| bal_left l1 l2 : balanced l1 -> balanced l2 -> balanced (LO :: l1 ++ LC :: l2).

Definition closer (b : bool) : btok := if b then BC else LC.

(* what remains to be read when the stack is st: a balanced piece, then the closer of the innermost open
   bracket, and so on outwards *)
Fixpoint bal_stack (st : list bool) (l : list btok) : Prop :=
  match st with
  | [] => balanced l
  | b :: st' => exists l1 l2, l = l1 ++ closer b :: l2 /\ balanced l1 /\ bal_stack st' l2
  end.

Lemma bcheck_app_balanced l : balanced l -> forall st r, bcheck st (l ++ r) = bcheck st r.
Proof.
  induction 1 as [|l1 l2 H1 IH1 H2 IH2|l1 l2 H1 IH1 H2 IH2]; intros st r.
  - reflexivity.
  - simpl. rewrite <- app_assoc. rewrite IH1. simpl. apply IH2.
  - simpl. rewrite <- app_assoc. rewrite IH1. simpl. apply IH2.
Qed.

Lemma bcheck_complete_stack : forall st l, bal_stack st l -> bcheck st l = true.
Proof.
  induction st as [|b st IH]; intros l H; simpl in H.
  - rewrite <- (app_nil_r l). rewrite (bcheck_app_balanced l H). reflexivity.
  - destruct H as (l1 & l2 & -> & B1 & B2).
    rewrite (bcheck_app_balanced l1 B1). destruct b; simpl; apply IH; assumption.
Qed.

Lemma bal_stack_cons_open (o : btok) (b : bool) st l :
  (o = BO /\ b = true) \/ (o = LO /\ b = false) ->
  bal_stack (b :: st) l -> bal_stack st (o :: l).
Proof.
  intros Ho (l1 & l2 & -> & B1 & B2).
  assert (Bw : balanced (o :: l1 ++ closer b :: [])).
  { destruct Ho as [[-> ->]|[-> ->]]; simpl.
    - apply (bal_brace l1 []); [assumption | constructor].
    - apply (bal_left l1 []); [assumption | constructor]. }
  destruct st as [|b' st']; simpl in *.
  - (* balanced (o :: l1 ++ closer b :: l2) *)
    destruct Ho as [[-> ->]|[-> ->]]; simpl; constructor; assumption.
  - destruct B2 as (m1 & m2 & -> & C1 & C2).
    exists (o :: l1 ++ closer b :: m1), m2. split; [|split; [|assumption]].
    + simpl. rewrite <- app_assoc. simpl. reflexivity.
    + destruct Ho as [[-> ->]|[-> ->]]; simpl; constructor; assumption.
Qed.

Lemma bcheck_sound_stack : forall l st, bcheck st l = true -> bal_stack st l.
Proof.
  induction l as [|t r IH]; intros st H.
  - destruct st; [constructor | discriminate].
  - destruct t; simpl in H.
    + apply (bal_stack_cons_open BO true); [left; split; reflexivity | apply IH; assumption].
    + destruct st as [|[] st']; try discriminate.
      exists [], r. split; [reflexivity | split; [constructor | apply IH; assumption]].
    + apply (bal_stack_cons_open LO false); [right; split; reflexivity | apply IH; assumption].
    + destruct st as [|[] st']; try discriminate.
      exists [], r. split; [reflexivity | split; [constructor | apply IH; assumption]].
Qed.

Lemma wellformed_tex_sound_lemma s : wellformed_tex s = true -> balanced (bscan SNorm s).
Proof. unfold wellformed_tex. intros H. exact (bcheck_sound_stack _ [] H). Qed.

Lemma wellformed_tex_complete_lemma s : balanced (bscan SNorm s) -> wellformed_tex s = true.
Proof. unfold wellformed_tex. intros H. exact (bcheck_complete_stack [] _ H). Qed.

(* ---- non-vacuity: the scanner and the reader on concrete strings ---- *)
Local Open Scope string_scope.

Example ex_scan_frac : bscan SNorm "\frac{a}{\left(b + c \right)^{2}}" = [BO; BC; BO; LO; LC; BO; BC; BC].
Proof. vm_compute. reflexivity. Qed.

Example ex_wf_ok : wellformed_tex "\exp{\left(- \frac{B p}{E} \right)} \left\{ x \right\}" = true.
Proof. vm_compute. reflexivity. Qed.

Example ex_wf_missing_right : wellformed_tex "\left( \frac{a}{b}" = false.
Proof. vm_compute. reflexivity. Qed.

Example ex_wf_crossed : wellformed_tex "{ \left( a } \right)" = false.
Proof. vm_compute. reflexivity. Qed.

Example ex_wf_escaped_brace_is_not_a_brace : wellformed_tex "\{ a" = true.
Proof. vm_compute. reflexivity. Qed.

Example ex_tex_frac_pow :
  parse_tex ["m_{1}"; "\omega"; "c"] "- \frac{m_{1} c^{2}}{2 \omega} + \sqrt[3]{c}" =
  Some (ABin OAdd
          (ANeg (ABin ODiv (ABin OMul (AVar "m_{1}") (ABin OPow (AVar "c") (ANum 2%N 0%Z)))
                           (ABin OMul (ANum 2%N 0%Z) (AVar "\omega"))))
          (ABin OPow (AVar "c") (ABin ODiv (ANum 1%N 0%Z) (ANum 3%N 0%Z)))).
Proof. vm_compute. reflexivity. Qed.

Example ex_tex_functions :
  parse_tex ["x"; "y"] "\sin^{2}{\left(x \right)} \log_{10} \left( \frac{x}{y} \right) \left|{x - y}\right|" =
  Some (ABin OMul
          (ABin OMul (ABin OPow (ACall "sin" [AVar "x"]) (ANum 2%N 0%Z))
                     (ACall "log" [ABin ODiv (AVar "x") (AVar "y"); ANum 10%N 0%Z]))
          (ACall "Abs" [ABin OSub (AVar "x") (AVar "y")])).
Proof. vm_compute. reflexivity. Qed.

Example ex_tex_adjacent_numerals_rejected : parse_tex ["a"] "2 3^{a}" = None.
Proof. vm_compute. reflexivity. Qed.

Example ex_tex_cdot_between_numerals :
  parse_tex ["a"] "2 \cdot 3^{a}" = Some (ABin OMul (ANum 2%N 0%Z) (ABin OPow (ANum 3%N 0%Z) (AVar "a"))).
Proof. vm_compute. reflexivity. Qed.

Example ex_tex_unknown_letter_is_rejected : parse_tex ["x"] "x q" = None.
Proof. vm_compute. reflexivity. Qed.
