From Coq Require Import List QArith Bool Lia Setoid.
From VP Require Import Base.Dim.
Import ListNotations.

Lemma deqb_deq a b : deqb a b = true <-> deq a b.
Proof.
  revert b; induction a as [|x a IH]; intros [|y b]; cbn.
  - split; intros _; [constructor | reflexivity].
  - split; intros H; [discriminate | inversion H].
  - split; intros H; [discriminate | inversion H].
  - rewrite andb_true_iff, Qeq_bool_iff, IH. split.
    + intros [H1 H2]. constructor; assumption.
    + intros H. inversion H; subst. split; assumption.
Qed.

Lemma deq_refl a : deq a a.
Proof. induction a; constructor; [reflexivity | assumption]. Qed.

Lemma deq_sym a b : deq a b -> deq b a.
Proof. induction 1; constructor; [symmetry; assumption | assumption]. Qed.

Lemma deq_trans a b c : deq a b -> deq b c -> deq a c.
Proof.
  intros H; revert c; induction H as [|x y a b Hxy Hab IH]; intros c Hc; inversion Hc; subst; constructor.
  - etransitivity; eassumption.
  - apply IH; assumption.
Qed.

Lemma deqb_refl a : deqb a a = true.
Proof. apply deqb_deq, deq_refl. Qed.

Lemma deqb_sym a b : deqb a b = deqb b a.
Proof.
  destruct (deqb a b) eqn:E, (deqb b a) eqn:F; try reflexivity.
  - apply deqb_deq, deq_sym, deqb_deq in E. congruence.
  - apply deqb_deq, deq_sym, deqb_deq in F. congruence.
Qed.

Lemma deqb_trans a b c : deqb a b = true -> deqb b c = true -> deqb a c = true.
Proof. rewrite !deqb_deq. apply deq_trans. Qed.

Lemma deq_length a b : deq a b -> length a = length b.
Proof. induction 1; cbn; congruence. Qed.

Lemma map2_length {A B C} (f : A -> B -> C) a b :
  length a = length b -> length (map2 f a b) = length a.
Proof.
  revert b; induction a as [|x a IH]; intros [|y b]; cbn; intros H; try congruence.
  f_equal. apply IH. congruence.
Qed.

Lemma dmul_wf a b : wf_dim a -> wf_dim b -> wf_dim (dmul a b).
Proof. unfold wf_dim, dmul. intros Ha Hb. rewrite map2_length; congruence. Qed.

Lemma dpow_wf a q : wf_dim a -> wf_dim (dpow a q).
Proof. unfold wf_dim, dpow. rewrite map_length. auto. Qed.

Lemma set_nth_length {A} n (v : A) l : length (set_nth n v l) = length l.
Proof. revert n; induction l as [|x l IH]; intros [|n]; cbn; auto. Qed.

Lemma erase_angle_wf a : wf_dim a -> wf_dim (erase_angle a).
Proof. unfold wf_dim, erase_angle. rewrite set_nth_length. auto. Qed.

Lemma dmul_deq a a' b b' : deq a a' -> deq b b' -> deq (dmul a b) (dmul a' b').
Proof.
  intros Ha; revert b b'; induction Ha as [|x y a a' Hxy Ha IH]; intros b b' Hb; cbn.
  - constructor.
  - destruct Hb as [|u v b b' Huv Hb]; constructor.
    + rewrite Hxy, Huv. reflexivity.
    + apply IH; assumption.
Qed.

Lemma dpow_deq a a' q q' : deq a a' -> q == q' -> deq (dpow a q) (dpow a' q').
Proof.
  intros Ha Hq; induction Ha as [|x y a a' Hxy Ha IH]; cbn; constructor.
  - rewrite Hxy, Hq. reflexivity.
  - exact IH.
Qed.

Lemma set_nth_deq n (v v' : Q) a a' : v == v' -> deq a a' -> deq (set_nth n v a) (set_nth n v' a').
Proof.
  intros Hv Ha; revert n; induction Ha as [|x y a a' Hxy Ha IH]; intros [|n]; cbn;
    try (constructor; fail).
  - constructor; assumption.
  - constructor; [assumption | apply IH].
Qed.

Lemma erase_angle_deq a a' : deq a a' -> deq (erase_angle a) (erase_angle a').
Proof. apply set_nth_deq. reflexivity. Qed.

Lemma set_nth_idem {A} n (v : A) l : set_nth n v (set_nth n v l) = set_nth n v l.
Proof. revert n; induction l as [|x l IH]; intros [|n]; cbn; auto. f_equal. apply IH. Qed.

Lemma erase_angle_idem a : erase_angle (erase_angle a) = erase_angle a.
Proof. apply set_nth_idem. Qed.

Lemma dmul_comm a b : deq (dmul a b) (dmul b a).
Proof.
  revert b; induction a as [|x a IH]; intros [|y b]; cbn; constructor.
  - apply Qplus_comm.
  - apply IH.
Qed.

Lemma dmul_assoc a b c : deq (dmul (dmul a b) c) (dmul a (dmul b c)).
Proof.
  revert b c; induction a as [|x a IH]; intros [|y b] [|z c]; cbn; constructor.
  - symmetry; apply Qplus_assoc.
  - apply IH.
Qed.

Lemma dimensionless_deq a b : deq a b -> dimensionless a = dimensionless b.
Proof.
  unfold dimensionless. induction 1 as [|x y a b Hxy Hab IH]; cbn; [reflexivity|].
  rewrite IH. f_equal.
  destruct (Qeq_bool x 0) eqn:E, (Qeq_bool y 0) eqn:F; try reflexivity.
  - apply Qeq_bool_iff in E. rewrite Hxy in E. apply Qeq_bool_iff in E. congruence.
  - apply Qeq_bool_iff in F. rewrite <- Hxy in F. apply Qeq_bool_iff in F. congruence.
Qed.

Lemma dimensionless_iff a : dimensionless a = true <-> deq a (repeat 0%Q (length a)).
Proof.
  unfold dimensionless. induction a as [|x a IH]; cbn; split; intros H.
  - constructor.
  - reflexivity.
  - apply andb_true_iff in H as [H1 H2]. constructor; [apply Qeq_bool_iff; exact H1 | apply IH; exact H2].
  - inversion H; subst. apply andb_true_iff; split; [apply Qeq_bool_iff; assumption | apply IH; assumption].
Qed.
