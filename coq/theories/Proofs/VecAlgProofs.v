(* Soundness of the model of the vector algebra engine (Model/VecAlg.v). *)
From Coq Require Import List ZArith Bool Reals Lra Lia Permutation Sorted.
From VP Require Import Model.Vec3 Model.SortSign Model.VecAlg Proofs.Vec3Proofs Proofs.SortSignProofs.
Import ListNotations.
Local Open Scope R_scope.

(* ================================================================================================
   Part A : ordered multiplication, for any coefficient type that maps homomorphically into R
   ================================================================================================ *)

Record khom {K} (o : kops K) (phi : K -> R) : Prop := mk_khom {
  h_one : phi (k1 o) = 1;
  h_mul : forall a b, phi (kmul o a b) = phi a * phi b;
  h_add : forall a b, phi (kadd o a b) = phi a + phi b;
  h_zero : phi (kzero o) = 0;
  h_is0 : forall k, kis0 o k = true -> phi k = 0 }.

Definition multilinear (f : list V3 -> R) : Prop :=
  (forall pre u v suf, f (pre ++ vadd u v :: suf) = f (pre ++ u :: suf) + f (pre ++ v :: suf)) /\
  (forall pre k u suf, f (pre ++ vscale k u :: suf) = k * f (pre ++ u :: suf)).
Definition alternating (f : list V3 -> R) : Prop :=
  forall pre x y suf, f (pre ++ x :: y :: suf) = - f (pre ++ y :: x :: suf).
Definition symmetric (f : list V3 -> R) : Prop :=
  forall pre x y suf, f (pre ++ x :: y :: suf) = f (pre ++ y :: x :: suf).

Lemma ml_zero f pre suf : multilinear f -> f (pre ++ vzero :: suf) = 0.
Proof.
  intros [_ Hs]. rewrite <- (vscale_zero vzero), Hs. ring.
Qed.

Lemma app_cons_assoc {A} (pre : list A) x l : pre ++ x :: l = (pre ++ [x]) ++ l.
Proof. rewrite <- app_assoc. reflexivity. Qed.

Section OrderedMul.
Context {K B : Type} (o : kops K) (phi : K -> R) (H : khom o phi) (val : B -> V3).

Definition lcv (L : lc K B) : V3 :=
  fold_right (fun kb acc => vadd (vscale (phi (fst kb)) (val (snd kb))) acc) vzero L.

Definition tsum (g : list B -> R) (terms : list (K * list B)) : R :=
  fold_right (fun kt acc => phi (fst kt) * g (snd kt) + acc) 0 terms.

Lemma tsum_nil g : tsum g [] = 0. Proof. reflexivity. Qed.
Lemma tsum_cons g kt l : tsum g (kt :: l) = phi (fst kt) * g (snd kt) + tsum g l. Proof. reflexivity. Qed.

Lemma tsum_app g l1 l2 : tsum g (l1 ++ l2) = tsum g l1 + tsum g l2.
Proof.
  induction l1 as [|h t IH]; cbn [app]; [rewrite tsum_nil; ring|]. rewrite !tsum_cons, IH. ring.
Qed.

Lemma tsum_ext g g' l : (forall kt, In kt l -> g (snd kt) = g' (snd kt)) -> tsum g l = tsum g' l.
Proof.
  induction l as [|h t IH]; intros E; [reflexivity|]. rewrite !tsum_cons.
  rewrite IH by (intros; apply E; now right). rewrite (E h) by now left. reflexivity.
Qed.

Lemma tsum_map_cons g k b l :
  tsum g (map (fun r => (kmul o k (fst r), b :: snd r)) l) = phi k * tsum (fun bs => g (b :: bs)) l.
Proof.
  induction l as [|h t IH]; cbn [map]; [rewrite !tsum_nil; ring|].
  rewrite !tsum_cons, IH. cbn [fst snd]. rewrite (h_mul o phi H). ring.
Qed.

(* multilinear expansion: the Cartesian product of the terms with the product of the factors *)
Lemma expand f : multilinear f -> forall args pre,
  f (pre ++ map lcv args) = tsum (fun bs => f (pre ++ map val bs)) (omul_terms o args).
Proof.
  intros Hml. induction args as [|a rest IH]; intros pre.
  - cbn [map omul_terms]. rewrite tsum_cons, tsum_nil. cbn [fst snd map]. rewrite (h_one o phi H). ring.
  - cbn [map omul_terms].
    induction a as [|[k b] a IHa].
    + cbn [lcv fold_right flat_map]. rewrite tsum_nil. apply ml_zero. exact Hml.
    + cbn [lcv fold_right flat_map fst snd]. fold (lcv a).
      destruct Hml as [Hadd Hsc]. rewrite Hadd, Hsc, IHa, tsum_app, tsum_map_cons.
      f_equal. f_equal.
      rewrite app_cons_assoc, IH.
      apply tsum_ext. intros kt _. cbn [map]. rewrite <- app_cons_assoc. reflexivity.
Qed.

Lemma omul_terms_shape (args : list (lc K B)) k bs :
  In (k, bs) (omul_terms o args) -> Forall2 (fun b a => In b (map snd a)) bs args.
Proof.
  revert k bs. induction args as [|a rest IH]; intros k bs Hin.
  - cbn in Hin. destruct Hin as [E|[]]. inversion E. constructor.
  - cbn in Hin. apply in_flat_map in Hin. destruct Hin as ([k0 b0] & Ha & Hin).
    apply in_map_iff in Hin. destruct Hin as ([k' bs'] & E & Hin). cbn in E. inversion E; subst.
    constructor; [|eapply IH; eassumption].
    apply in_map_iff. exists (k0, b0). auto.
Qed.

(* ---- accumulation under (sign, tuple) and removal of zero factors keep the sum ---- *)

Definition osum (g : Z -> list B -> R) (terms : list (oterm K B)) : R :=
  fold_right (fun e acc => phi (snd e) * g (fst (fst e)) (snd (fst e)) + acc) 0 terms.

Lemma osum_nil g : osum g [] = 0. Proof. reflexivity. Qed.
Lemma osum_cons g e l : osum g (e :: l) = phi (snd e) * g (fst (fst e)) (snd (fst e)) + osum g l.
Proof. reflexivity. Qed.

Context (eqb : B -> B -> bool) (P : B -> Prop) (eqb_ok : forall x y, P x -> P y -> eqb x y = true -> x = y).

Lemma list_eqb_ok x y : Forall P x -> Forall P y -> list_eqb eqb x y = true -> x = y.
Proof.
  revert y. induction x as [|a x IH]; intros [|b y] Hx Hy; cbn; try discriminate; [reflexivity|].
  intros E. apply andb_prop in E. destruct E as [E1 E2]. inversion Hx; inversion Hy; subst.
  f_equal; [apply eqb_ok; assumption|apply IH; assumption].
Qed.

Definition tuples_ok (m : list (oterm K B)) : Prop := Forall (fun e => Forall P (snd (fst e))) m.

Lemma acc_add_ok s t k m : Forall P t -> tuples_ok m -> tuples_ok (acc_add o eqb s t k m).
Proof.
  intros Ht. induction m as [|[[s' t'] k'] r IH]; intros Hm; cbn [acc_add].
  - constructor; [exact Ht|constructor].
  - inversion Hm as [|? ? Ht' Hr]; subst.
    destruct ((s =? s')%Z && list_eqb eqb t t'); constructor; try assumption. apply IH. assumption.
Qed.

Lemma acc_add_sum g s t k m : Forall P t -> tuples_ok m ->
  osum g (acc_add o eqb s t k m) = phi k * g s t + osum g m.
Proof.
  intros Ht. induction m as [|[[s' t'] k'] r IH]; intros Hm; cbn [acc_add].
  - rewrite osum_cons, !osum_nil. cbn [fst snd]. rewrite (h_add o phi H), (h_zero o phi H). ring.
  - inversion Hm as [|? ? Ht' Hr]; subst. cbn [fst snd] in Ht'.
    destruct ((s =? s')%Z && list_eqb eqb t t') eqn:E; rewrite !osum_cons; cbn [fst snd].
    + apply andb_prop in E. destruct E as [E1 E2]. apply Z.eqb_eq in E1. apply list_eqb_ok in E2; [|assumption..].
      subst. rewrite (h_add o phi H). ring.
    + rewrite IH by assumption. ring.
Qed.

Lemma accumulate_sum g raw : tuples_ok raw -> osum g (accumulate o eqb raw) = osum g raw.
Proof.
  intros Hraw. unfold accumulate.
  assert (G : forall m0, tuples_ok m0 ->
     osum g (fold_left (fun m e => acc_add o eqb (fst (fst e)) (snd (fst e)) (snd e) m) raw m0)
                = osum g raw + osum g m0).
  { induction raw as [|e raw IH]; intros m0 Hm0; cbn [fold_left]; [rewrite osum_nil; ring|].
    inversion Hraw; subst.
    rewrite IH by (try apply acc_add_ok; assumption). rewrite acc_add_sum, osum_cons by assumption. ring. }
  rewrite G by constructor. rewrite osum_nil. ring.
Qed.

Lemma filter_sum g m : osum g (filter (fun e => negb (kis0 o (snd e))) m) = osum g m.
Proof.
  induction m as [|e m IH]; cbn [filter]; [reflexivity|].
  destruct (kis0 o (snd e)) eqn:E; cbn [negb]; rewrite ?osum_cons, IH; [|reflexivity].
  rewrite (h_is0 o phi H _ E). ring.
Qed.

Lemma ordered_mul_sum g key args : (forall x, In x (flat_map (map snd) args) -> P x) ->
  osum g (ordered_mul o eqb key args) =
  tsum (fun bs => g (fst (sort_with_sign key bs)) (snd (sort_with_sign key bs))) (omul_terms o args).
Proof.
  intros HP. unfold ordered_mul. rewrite filter_sum, accumulate_sum.
  - unfold ordered_mul_raw.
    induction (omul_terms o args) as [|kt l IH]; cbn [map]; [reflexivity|].
    rewrite osum_cons, tsum_cons, IH. reflexivity.
  - unfold ordered_mul_raw, tuples_ok. rewrite Forall_map. apply Forall_forall. intros [k bs] Hin.
    cbn [sort_term fst snd]. apply Forall_forall. intros x Hx. apply HP.
    apply sws_incl in Hx. apply omul_terms_shape in Hin.
    clear - Hin Hx. induction Hin as [|b a bs' args' Hb Hrest IH]; [destruct Hx|].
    cbn [flat_map]. apply in_or_app. destruct Hx as [->|Hx]; [left; assumption|right; apply IH; assumption].
Qed.

(* ---- sorting the arguments of an alternating / symmetric function ---- *)

Context (key : B -> Z).

Lemma alt_adjacent_zero f pre x suf : alternating f -> f (pre ++ x :: x :: suf) = 0.
Proof. intros Ha. pose proof (Ha pre x x suf). lra. Qed.

Lemma alt_repeat_zero f : alternating f -> forall r1 pre x r2, f (pre ++ x :: r1 ++ x :: r2) = 0.
Proof.
  intros Ha. induction r1 as [|h r1 IH]; intros pre x r2; cbn.
  - apply alt_adjacent_zero. exact Ha.
  - rewrite Ha, app_cons_assoc, IH. ring.
Qed.

Lemma alt_dup_zero f (l : list B) : alternating f -> key_inj_on key l -> ~ NoDup (map key l) ->
  forall pre, f (pre ++ map val l) = 0.
Proof.
  intros Ha. induction l as [|x r IH]; intros Hinj Hd pre.
  - exfalso. apply Hd. constructor.
  - cbn [map].
    destruct (in_dec Z.eq_dec (key x) (map key r)) as [Hin|Hin].
    + apply in_map_iff in Hin. destruct Hin as (y & E & Hy).
      assert (y = x) by (apply Hinj; [now right|now left|assumption]). subst y.
      apply in_split in Hy. destruct Hy as (r1 & r2 & ->).
      rewrite map_app. cbn [map]. apply alt_repeat_zero. exact Ha.
    + rewrite app_cons_assoc. apply IH.
      * intros a b Ha' Hb'. apply Hinj; now right.
      * intros Hn. apply Hd. cbn. constructor; assumption.
Qed.

Lemma alt_insert f (x : B) : alternating f -> forall s pre, StronglySorted Z.le (map key s) ->
  f (pre ++ val x :: map val s) =
  IZR (parity_sign (count_ltz (key x) (map key s))) * f (pre ++ map val (insert_by key x s)).
Proof.
  intros Ha. induction s as [|h t IH]; intros pre Hs.
  - cbn. ring.
  - cbn [map insert_by count_ltz]. inversion Hs as [|? ? Ht Hh]; subst.
    destruct (key x <=? key h)%Z eqn:E.
    + assert (E2 : (key h <? key x)%Z = false) by lia. rewrite E2.
      rewrite count_ltz_none.
      * cbn. ring.
      * eapply Forall_impl; [|exact Hh]. cbn; intros; lia.
    + assert (E2 : (key h <? key x)%Z = true) by lia. rewrite E2.
      rewrite parity_sign_S, opp_IZR. cbn [map].
      rewrite Ha, app_cons_assoc, (IH _ Ht), <- app_cons_assoc. ring.
Qed.

Lemma alt_sort_nodup f : alternating f -> forall (l : list B) pre, NoDup (map key l) ->
  f (pre ++ map val l) = IZR (parity_sign (inv_z (map key l))) * f (pre ++ map val (isort_by key l)).
Proof.
  intros Ha. induction l as [|x r IH]; intros pre Hn.
  - cbn. ring.
  - cbn [map isort_by inv_z]. inversion Hn; subst.
    rewrite app_cons_assoc, IH, <- app_cons_assoc by assumption.
    rewrite alt_insert by (assumption || (rewrite isort_by_keys; apply sort_z_sorted)).
    rewrite isort_by_keys, <- (count_ltz_perm _ _ _ (sort_z_perm (map key r))).
    unfold parity_sign. rewrite Nat.even_add.
    destruct (Nat.even (count_ltz _ _)), (Nat.even (inv_z _)); cbn; ring.
Qed.

(* an alternating function of the sorted arguments, times the sign, is the function of the arguments *)
Lemma alt_sort_with_sign f (l : list B) : alternating f -> key_inj_on key l ->
  f (map val l) = IZR (fst (sort_with_sign key l)) * f (map val (snd (sort_with_sign key l))).
Proof.
  intros Ha Hinj.
  destruct (ListDec.NoDup_dec Z.eq_dec (map key l)) as [Hn|Hn].
  - rewrite sws_sign_signature, sws_items_sorted by assumption.
    apply (alt_sort_nodup f Ha l [] Hn).
  - pose proof (proj2 (sws_sign_zero_iff key l) Hn) as E. rewrite E.
    pose proof (alt_dup_zero f l Ha Hinj Hn []) as Z0. cbn [app] in Z0. rewrite Z0. ring.
Qed.

Lemma sym_perm f : symmetric f -> forall L L', Permutation L L' -> forall pre, f (pre ++ L) = f (pre ++ L').
Proof.
  intros Hs. induction 1; intros pre.
  - reflexivity.
  - rewrite (app_cons_assoc pre x l), (app_cons_assoc pre x l'). apply IHPermutation.
  - apply Hs.
  - rewrite IHPermutation1. apply IHPermutation2.
Qed.

Lemma sym_sort_with_sign f (l : list B) : symmetric f -> key_inj_on key l ->
  f (map val l) = f (map val (snd (sort_with_sign key l))).
Proof.
  intros Hs Hinj. apply (sym_perm f Hs _ _ (Permutation_map val (sws_perm key l Hinj)) []).
Qed.

Definition args_inj (args : list (lc K B)) : Prop := key_inj_on key (flat_map (map snd) args).

Lemma term_inj args k bs : args_inj args -> In (k, bs) (omul_terms o args) -> key_inj_on key bs.
Proof.
  intros Hinj Hin. apply omul_terms_shape in Hin.
  assert (Hsub : incl bs (flat_map (map snd) args)).
  { clear Hinj. induction Hin as [|b a bs' args' Hb Hrest IH]; [intros ? []|].
    intros z [Hz|Hz]; cbn [flat_map]; apply in_or_app; [left; subst; assumption|right; apply IH; assumption]. }
  intros x y Hx Hy. apply Hinj; apply Hsub; assumption.
Qed.

(* for EVERY key that identifies the vectors: the expansion with signs recombines to the product *)
Definition eqb_ok_on (args : list (lc K B)) : Prop := forall x, In x (flat_map (map snd) args) -> P x.

Theorem ordered_mul_sound_alt f args : multilinear f -> alternating f -> args_inj args -> eqb_ok_on args ->
  f (map lcv args) = osum (fun s t => IZR s * f (map val t)) (ordered_mul o eqb key args).
Proof.
  intros Hml Ha Hinj HP. rewrite ordered_mul_sum by exact HP. change (f (map lcv args)) with (f ([] ++ map lcv args)). rewrite (expand f Hml args []). cbn [app].
  apply tsum_ext. intros [k bs] Hin. cbn [snd]. apply alt_sort_with_sign; [assumption|].
  eapply term_inj; eassumption.
Qed.

Theorem ordered_mul_sound_sym f args : multilinear f -> symmetric f -> args_inj args -> eqb_ok_on args ->
  f (map lcv args) = osum (fun s t => f (map val t)) (ordered_mul o eqb key args).
Proof.
  intros Hml Hs Hinj HP. rewrite ordered_mul_sum by exact HP. change (f (map lcv args)) with (f ([] ++ map lcv args)). rewrite (expand f Hml args []). cbn [app].
  apply tsum_ext. intros [k bs] Hin. cbn [snd]. apply sym_sort_with_sign; [assumption|].
  eapply term_inj; eassumption.
Qed.

End OrderedMul.

(* ================================================================================================
   Part B : the route of the constructors
   ================================================================================================ *)

Definition idR (x : R) : R := x.

Lemma rops_hom z0 : (forall k, z0 k = true -> k = 0) -> khom (rops z0) idR.
Proof. intros Hz. constructor; unfold idR; cbn; intros; try ring. apply Hz. assumption. Qed.

Lemma lc_val_lcv L : lc_val L = lcv idR vb_val L.
Proof. reflexivity. Qed.

Lemma lc_val_nil : lc_val [] = vzero. Proof. reflexivity. Qed.
Lemma lc_val_cons k b L : lc_val ((k, b) :: L) = vadd (vscale k (vb_val b)) (lc_val L). Proof. reflexivity. Qed.
Lemma lc_val_app L1 L2 : lc_val (L1 ++ L2) = vadd (lc_val L1) (lc_val L2).
Proof.
  induction L1 as [|[k b] L1 IH]; cbn [app]; [rewrite lc_val_nil, vadd_zero_l; reflexivity|].
  rewrite !lc_val_cons, IH, vadd_assoc. reflexivity.
Qed.
Lemma lc_val_scale k L : lc_val (lc_scale k L) = vscale k (lc_val L).
Proof.
  induction L as [|[k' b] L IH]; cbn [lc_scale map]; [rewrite lc_val_nil, vscale_vzero; reflexivity|].
  fold (lc_scale k L). rewrite !lc_val_cons, IH, vscale_vadd, vscale_vscale. reflexivity.
Qed.
Lemma lc_val_single b : lc_val (single b) = vb_val b.
Proof. unfold single. rewrite lc_val_cons, lc_val_nil, vscale_one, vadd_zero_r. reflexivity. Qed.

(* the products as functions of an argument list *)
Definition proj (i : nat) (v : V3) : R := match i with O => vx v | S O => vy v | _ => vz v end.
Definition fdot (l : list V3) : R := match l with [x; y] => dot x y | _ => 0 end.
Definition fcross (i : nat) (l : list V3) : R := match l with [x; y] => proj i (cross x y) | _ => 0 end.
Definition fmixed (l : list V3) : R := match l with [x; y; z] => mixed x y z | _ => 0 end.

Lemma v3_proj_eq a b : (forall i, proj i a = proj i b) -> a = b.
Proof. intros E. apply v3_eq; [apply (E 0%nat)|apply (E 1%nat)|apply (E 2%nat)]. Qed.
Lemma proj_vadd i a b : proj i (vadd a b) = proj i a + proj i b.
Proof. destruct i as [|[|i]]; reflexivity. Qed.
Lemma proj_vscale i k a : proj i (vscale k a) = k * proj i a.
Proof. destruct i as [|[|i]]; reflexivity. Qed.
Lemma proj_vzero i : proj i vzero = 0.
Proof. destruct i as [|[|i]]; reflexivity. Qed.

Ltac split_lists pre suf :=
  destruct pre as [|?p1 [|?p2 [|?p3 [|?p4 pre]]]]; destruct suf as [|?s1 [|?s2 [|?s3 suf]]];
  cbn [app fdot fcross fmixed]; try ring.

Lemma fdot_ml : multilinear fdot.
Proof. split; [intros pre u v suf|intros pre k u suf]; split_lists pre suf; v3_ring. Qed.
Lemma fdot_sym : symmetric fdot.
Proof. intros pre x y suf; split_lists pre suf; v3_ring. Qed.
Lemma fcross_ml i : multilinear (fcross i).
Proof.
  split; [intros pre u v suf|intros pre k u suf]; split_lists pre suf;
  destruct i as [|[|i]]; cbn [proj]; v3_ring.
Qed.
Lemma fcross_alt i : alternating (fcross i).
Proof. intros pre x y suf; split_lists pre suf; destruct i as [|[|i]]; cbn [proj]; v3_ring. Qed.
Lemma fmixed_ml : multilinear fmixed.
Proof. split; [intros pre u v suf|intros pre k u suf]; split_lists pre suf; v3_ring. Qed.
Lemma fmixed_alt : alternating fmixed.
Proof. intros pre x y suf; split_lists pre suf; v3_ring. Qed.

(* ---- what the (regenerated) rule bodies have to satisfy ---- *)

Definition allv (Pv : vb -> Prop) (L : vn) : Prop := Forall (fun kb => Pv (snd kb)) L.

Record rules_ok (rs : ruleset) : Prop := mk_rules_ok {
  ok_dot_cc : forall a b c d, r_dot_cc rs a b c d = dot (cross (aval a) (aval b)) (cross (aval c) (aval d));
  ok_dot_cx : forall r a b, r_dot_cx rs r a b = dot (cross (aval a) (aval b)) r;
  ok_dot_xc : forall l c d, r_dot_xc rs l c d = dot l (cross (aval c) (aval d));
  ok_cross_cc : forall a b c d,
    lc_val (r_cross_cc rs a b c d) = cross (cross (aval a) (aval b)) (cross (aval c) (aval d));
  ok_cross_cx : forall r a b, lc_val (r_cross_cx rs r a b) = cross (cross (aval a) (aval b)) r;
  ok_cross_xc : forall l c d, lc_val (r_cross_xc rs l c d) = cross l (cross (aval c) (aval d));
  (* the vector-valued rules return combinations of the matched atoms *)
  el_cross_cc : forall a b c d x, In x (map snd (r_cross_cc rs a b c d)) ->
    x = BAtom a \/ x = BAtom b \/ x = BAtom c \/ x = BAtom d;
  el_cross_cx : forall r a b x, In x (map snd (r_cross_cx rs r a b)) -> x = BAtom a \/ x = BAtom b;
  el_cross_xc : forall l c d x, In x (map snd (r_cross_xc rs l c d)) -> x = BAtom c \/ x = BAtom d;
  ok_z_dot : forall v f, z_dot rs v f = dot v v * f;
  ok_a_dot : forall p f s, a_dot rs p f s = p * f;
  ok_z_cross : z_cross rs = [];
  ok_a_cross : forall c f s, lc_val (a_cross rs c f s) = vscale (f * s) (lc_val c);
  el_a_cross : forall c f s, incl (map snd (a_cross rs c f s)) (map snd c);
  ok_z_mixed : z_mixed rs = 0;
  ok_a_mixed : forall m f s, a_mixed rs m f s = m * f * s;
  ok_mixed_comp : forall (Pv : vb -> Prop) D C u v w, Pv u -> Pv v -> Pv w ->
    (forall L1 L2, allv Pv L1 -> allv Pv L2 -> D L1 L2 = dot (lc_val L1) (lc_val L2)) ->
    (forall L1 L2, allv Pv L1 -> allv Pv L2 ->
        lc_val (C L1 L2) = cross (lc_val L1) (lc_val L2) /\ allv Pv (C L1 L2)) ->
    r_mixed_comp rs D C u v w = mixed (vb_val u) (vb_val v) (vb_val w);
  ok_norm_zero : r_norm_zero rs = 0;
  ok_norm_scale : forall v k, r_norm_scale rs (norm v) k = norm (vscale k v) }.

Section EngineSound.
Context (rs : ruleset) (Hrs : rules_ok rs).
Context (ckey : atomv -> atomv -> Z) (z0 is1 : R -> bool) (split : vn -> option (R * vn)).
Context (A : atomv -> Prop).        (* the vector symbols in play *)

Definition vb_ok (x : vb) : Prop :=
  match x with
  | BAtom a => A a
  | BCross k a b => A a /\ A b /\ k = ckey a b
  end.
Definition good (L : vn) : Prop := allv vb_ok L.

(* the keys identify the objects: what `id` guarantees, in any creation order *)
Record keys_ok : Prop := mk_keys_ok {
  atoms_inj : forall a b, A a -> A b -> fst a = fst b -> a = b;
  ckey_inj : forall a b a' b', A a -> A b -> A a' -> A b' -> ckey a b = ckey a' b' -> a = a' /\ b = b';
  ckey_fresh : forall a b c, A a -> A b -> A c -> ckey a b <> fst c }.

Record oracles_ok : Prop := mk_oracles_ok {
  z0_ok : forall k, z0 k = true -> k = 0;
  is1_ok : forall k, is1 k = true -> k = 1;
  split_ok : forall L k L', split L = Some (k, L') -> lc_val L = vscale k (lc_val L') }.

Context (Hk : keys_ok) (Ho : oracles_ok).

Lemma vb_ok_inj x y : vb_ok x -> vb_ok y -> vb_key x = vb_key y -> x = y.
Proof.
  destruct Hk as [Hai Hci Hcf].
  destruct x as [a|k a b], y as [a'|k' a' b']; cbn; intros Hx Hy E.
  - f_equal. apply Hai; assumption.
  - destruct Hy as (Ha' & Hb' & ->). exfalso. eapply Hcf; [exact Ha'|exact Hb'|exact Hx|]. symmetry. exact E.
  - destruct Hx as (Ha & Hb & ->). exfalso. eapply Hcf; [exact Ha|exact Hb|exact Hy|]. exact E.
  - destruct Hx as (Ha & Hb & ->), Hy as (Ha' & Hb' & ->).
    destruct (Hci a b a' b') as [-> ->]; auto.
Qed.

Lemma vb_eqb_ok x y : vb_ok x -> vb_ok y -> vb_eqb x y = true -> x = y.
Proof.
  intros Hx Hy E. apply vb_ok_inj; [assumption..|].
  destruct x, y; cbn in *; try discriminate; apply Z.eqb_eq; assumption.
Qed.

Lemma good_app L1 L2 : good L1 -> good L2 -> good (L1 ++ L2).
Proof. unfold good, allv. rewrite Forall_app. auto. Qed.
Lemma good_single b : vb_ok b -> good (single b).
Proof. intros Hb. constructor; [exact Hb|constructor]. Qed.
Lemma good_scale k L : good L -> good (lc_scale k L).
Proof. unfold good, allv, lc_scale. rewrite Forall_map. cbn. auto. Qed.
Lemma good_of_incl L L' : incl (map snd L') (map snd L) -> good L -> good L'.
Proof.
  unfold good, allv. rewrite !Forall_forall. intros Hi HL [k b] Hin.
  assert (Hb : In b (map snd L)) by (apply Hi; apply in_map_iff; exists (k, b); auto).
  apply in_map_iff in Hb. destruct Hb as ([k' b'] & E & Hb). cbn in E; subst. apply (HL _ Hb).
Qed.
Lemma good_els L : (forall x, In x (map snd L) -> vb_ok x) -> good L.
Proof.
  intros Hx. unfold good, allv. apply Forall_forall. intros [k b] Hin. apply Hx.
  apply in_map_iff. exists (k, b). auto.
Qed.
Lemma good_in L x : good L -> In x (map snd L) -> vb_ok x.
Proof.
  unfold good, allv. rewrite Forall_forall. intros HL Hin.
  apply in_map_iff in Hin. destruct Hin as ([k b] & E & Hb). cbn in E; subst. apply (HL _ Hb).
Qed.

Lemma bare_ok L b : bare is1 L = Some b -> lc_val L = vb_val b /\ (good L -> vb_ok b).
Proof.
  unfold bare. destruct L as [|[k b'] [|? ?]]; try discriminate.
  destruct (is1 k) eqn:E; [|discriminate]. intros [= ->].
  apply (is1_ok Ho) in E. subst. split.
  - apply lc_val_single.
  - intros HL. inversion HL; assumption.
Qed.

Lemma dot_pair_ok v w : dot_pair rs v w = dot (vb_val v) (vb_val w).
Proof.
  destruct v as [a|k a b], w as [c|k' c d]; cbn [dot_pair vb_val].
  - reflexivity.
  - apply (ok_dot_xc rs Hrs).
  - apply (ok_dot_cx rs Hrs).
  - apply (ok_dot_cc rs Hrs).
Qed.

Lemma cross_pair_ok v w : vb_ok v -> vb_ok w ->
  lc_val (cross_pair rs ckey v w) = cross (vb_val v) (vb_val w) /\ good (cross_pair rs ckey v w).
Proof.
  destruct v as [a|k a b], w as [c|k' c d]; cbn [cross_pair vb_val vb_ok]; intros Hv Hw.
  - split; [apply lc_val_single|]. apply good_single. cbn. auto.
  - destruct Hw as (Hc & Hd & _). split; [apply (ok_cross_xc rs Hrs)|]. apply good_els. intros x Hx.
    apply (el_cross_xc rs Hrs) in Hx. destruct Hx as [->| ->]; assumption.
  - destruct Hv as (Ha & Hb & _). split; [apply (ok_cross_cx rs Hrs)|]. apply good_els. intros x Hx.
    apply (el_cross_cx rs Hrs) in Hx. destruct Hx as [->| ->]; assumption.
  - destruct Hv as (Ha & Hb & _), Hw as (Hc & Hd & _). split; [apply (ok_cross_cc rs Hrs)|].
    apply good_els. intros x Hx.
    apply (el_cross_cc rs Hrs) in Hx. destruct Hx as [->|[->|[->| ->]]]; assumption.
Qed.

(* ---- facts about the terms produced for good arguments ---- *)

Definition pool (args : list vn) : list vb := flat_map (map snd) args.

Lemma pool_ok args : Forall good args -> forall x, In x (pool args) -> vb_ok x.
Proof.
  induction 1 as [|L args HL Hargs IH]; cbn [pool flat_map]; [intros ? []|].
  intros x Hx. apply in_app_or in Hx. destruct Hx as [Hx|Hx]; [eapply good_in; eassumption|apply IH; exact Hx].
Qed.

Lemma pool_inj args : Forall good args -> args_inj vb_key args.
Proof. intros Hg x y Hx Hy. apply vb_ok_inj; eapply pool_ok; eassumption. Qed.

Lemma accumulate_from {K B} (o : kops K) (eqb : B -> B -> bool) (raw : list (oterm K B)) e :
  In e (accumulate o eqb raw) -> exists e', In e' raw /\ fst e = fst e'.
Proof.
  unfold accumulate.
  assert (G : forall m0, In e (fold_left (fun m e => acc_add o eqb (fst (fst e)) (snd (fst e)) (snd e) m) raw m0) ->
     (exists e', In e' raw /\ fst e = fst e') \/ (exists e', In e' m0 /\ fst e = fst e')).
  { induction raw as [|r raw IH]; intros m0 Hin; cbn [fold_left] in Hin; [right; exists e; auto|].
    apply IH in Hin. destruct Hin as [(e' & H1 & H2)|(e' & H1 & H2)]; [left; exists e'; split; [now right|assumption]|].
    assert (Hacc : forall m s t k, In e' (acc_add o eqb s t k m) -> fst e' = (s, t) \/ exists e'', In e'' m /\ fst e' = fst e'').
    { clear. induction m as [|[[s' t'] k'] m IHm]; intros s t k Hin; cbn [acc_add] in Hin.
      - destruct Hin as [<-|[]]. left. reflexivity.
      - destruct ((s =? s')%Z && list_eqb eqb t t').
        + destruct Hin as [<-|Hin]; right; [exists (s', t', k'); split; [now left|reflexivity]|exists e'; split; [now right|reflexivity]].
        + destruct Hin as [<-|Hin]; [right; exists (s', t', k'); split; [now left|reflexivity]|].
          apply IHm in Hin. destruct Hin as [E|(e'' & Hi & E)]; [left; assumption|right; exists e''; split; [now right|assumption]]. }
    apply Hacc in H1. destruct H1 as [E|(e'' & Hi & E)].
    - left. exists r. split; [now left|]. rewrite H2, E. destruct r as [[? ?] ?]. reflexivity.
    - right. exists e''. split; [assumption|congruence]. }
  intros Hin. apply G in Hin. destruct Hin as [Hin|(e' & [] & _)]. exact Hin.
Qed.

Lemma ordered_mul_from (args : list vn) e : In e (ordered_mul (rops z0) vb_eqb vb_key args) ->
  exists k bs, In (k, bs) (omul_terms (rops z0) args) /\ fst e = (fst (sort_with_sign vb_key bs), snd (sort_with_sign vb_key bs)).
Proof.
  unfold ordered_mul. intros Hin. apply filter_In in Hin. destruct Hin as [Hin _].
  apply accumulate_from in Hin. destruct Hin as (e' & Hin & E).
  unfold ordered_mul_raw in Hin. apply in_map_iff in Hin. destruct Hin as ([k bs] & E' & Hin).
  exists k, bs. split; [assumption|]. rewrite E, <- E'. reflexivity.
Qed.

Lemma term_shape2 (L1 L2 : vn) k bs : In (k, bs) (omul_terms (rops z0) [L1; L2]) ->
  exists b1 b2, bs = [b1; b2] /\ In b1 (map snd L1) /\ In b2 (map snd L2).
Proof.
  intros Hin. apply omul_terms_shape in Hin. inversion Hin as [|b1 ? bs1 ? H1 Hr]; subst.
  inversion Hr as [|b2 ? bs2 ? H2 Hr2]; subst. inversion Hr2; subst. exists b1, b2. auto.
Qed.

Lemma term_shape3 (L1 L2 L3 : vn) k bs : In (k, bs) (omul_terms (rops z0) [L1; L2; L3]) ->
  exists b1 b2 b3, bs = [b1; b2; b3] /\ In b1 (map snd L1) /\ In b2 (map snd L2) /\ In b3 (map snd L3).
Proof.
  intros Hin. apply omul_terms_shape in Hin. inversion Hin as [|b1 ? bs1 ? H1 Hr]; subst.
  inversion Hr as [|b2 ? bs2 ? H2 Hr2]; subst. inversion Hr2 as [|b3 ? bs3 ? H3 Hr3]; subst. inversion Hr3; subst.
  exists b1, b2, b3. auto.
Qed.

Lemma sorted_shape2 (b1 b2 : vb) : exists v w, snd (sort_with_sign vb_key [b1; b2]) = [v; w] /\
  In v [b1; b2] /\ In w [b1; b2].
Proof.
  pose proof (sws_length vb_key [b1; b2]) as Hl. pose proof (sws_incl vb_key [b1; b2]) as Hi.
  destruct (snd (sort_with_sign vb_key [b1; b2])) as [|v [|w [|? ?]]]; try discriminate.
  exists v, w. split; [reflexivity|]. split; apply Hi; cbn; auto.
Qed.

Lemma sorted_shape3 (b1 b2 b3 : vb) : exists u v w, snd (sort_with_sign vb_key [b1; b2; b3]) = [u; v; w] /\
  In u [b1; b2; b3] /\ In v [b1; b2; b3] /\ In w [b1; b2; b3].
Proof.
  pose proof (sws_length vb_key [b1; b2; b3]) as Hl. pose proof (sws_incl vb_key [b1; b2; b3]) as Hi.
  destruct (snd (sort_with_sign vb_key [b1; b2; b3])) as [|u [|v [|w [|? ?]]]]; try discriminate.
  exists u, v, w. split; [reflexivity|]. repeat split; apply Hi; cbn; auto.
Qed.

Lemma sum_terms_osum g h m :
  (forall e, In e m -> g (fst (fst e)) (snd (fst e)) (snd e) = snd e * h (fst (fst e)) (snd (fst e))) ->
  sum_terms g m = osum idR h m.
Proof.
  induction m as [|e m IH]; intros E; [reflexivity|].
  change (sum_terms g (e :: m)) with (g (fst (fst e)) (snd (fst e)) (snd e) + sum_terms g m).
  change (osum idR h (e :: m)) with (idR (snd e) * h (fst (fst e)) (snd (fst e)) + osum idR h m).
  rewrite IH by (intros; apply E; now right).
  rewrite (E e) by now left. reflexivity.
Qed.

Let Hhom : khom (rops z0) idR := rops_hom z0 (z0_ok Ho).

Lemma pair_inj (L1 L2 : vn) b1 b2 : good L1 -> good L2 -> In b1 (map snd L1) -> In b2 (map snd L2) ->
  key_inj_on vb_key [b1; b2].
Proof.
  intros H1 H2 Hb1 Hb2 x y Hx Hy.
  assert (G : forall z, In z [b1; b2] -> vb_ok z).
  { intros z [<-|[<-|[]]]; [apply (good_in L1)|apply (good_in L2)]; assumption. }
  apply vb_ok_inj; apply G; assumption.
Qed.

(* ---- VectorDot ---- *)

Lemma eng_dot_fallback L1 L2 : good L1 -> good L2 ->
  sum_terms (fun s t f =>
      match t with
      | [v; w] => if (s =? 0)%Z then z_dot rs (vb_val v) f else a_dot rs (dot_pair rs v w) f (IZR s)
      | _ => 0
      end) (ordered_mul (rops z0) vb_eqb vb_key [L1; L2]) = dot (lc_val L1) (lc_val L2).
Proof.
  intros H1 H2.
  set (h := fun (s : Z) (t : list vb) =>
     match t with
     | [v; w] => if (s =? 0)%Z then dot (vb_val v) (vb_val v) else dot (vb_val v) (vb_val w)
     | _ => 0
     end).
  rewrite (sum_terms_osum _ h).
  2:{ intros [[s t] f] _; cbn [fst snd]. unfold h. destruct t as [|v [|w [|? ?]]]; try ring.
      destruct (s =? 0)%Z; [rewrite (ok_z_dot rs Hrs); ring|rewrite (ok_a_dot rs Hrs), dot_pair_ok; ring]. }
  rewrite (ordered_mul_sum (rops z0) idR Hhom vb_eqb vb_ok vb_eqb_ok h vb_key [L1; L2]).
  2:{ apply pool_ok. repeat constructor; assumption. }
  change (dot (lc_val L1) (lc_val L2)) with (fdot ([] ++ map (lcv idR vb_val) [L1; L2])).
  rewrite (expand (rops z0) idR Hhom vb_val fdot fdot_ml [L1; L2] []).
  apply tsum_ext. intros [k bs] Hin. cbn [snd app].
  destruct (term_shape2 L1 L2 k bs Hin) as (b1 & b2 & -> & Hb1 & Hb2).
  pose proof (pair_inj L1 L2 b1 b2 H1 H2 Hb1 Hb2) as Hinj.
  destruct (sorted_shape2 b1 b2) as (v & w & Es & Hv & Hw).
  unfold h. rewrite Es.
  destruct (fst (sort_with_sign vb_key [b1; b2]) =? 0)%Z eqn:Ez.
  - apply Z.eqb_eq in Ez. apply sws_sign_zero_iff in Ez.
    assert (b1 = b2).
    { destruct (Z.eq_dec (vb_key b1) (vb_key b2)) as [E|N]; [apply Hinj; cbn; auto|].
      exfalso. apply Ez. cbn. constructor; [intros [X|[]]; congruence|]. constructor; [intros []|constructor]. }
    subst b2. assert (v = b1) by (destruct Hv as [<-|[<-|[]]]; reflexivity). subst v. reflexivity.
  - rewrite (sym_sort_with_sign vb_val vb_key fdot [b1; b2] fdot_sym Hinj), Es. reflexivity.
Qed.

Theorem eng_dot_sound L1 L2 : good L1 -> good L2 ->
  eng_dot rs z0 is1 L1 L2 = dot (lc_val L1) (lc_val L2).
Proof.
  intros H1 H2. unfold eng_dot.
  destruct (bare is1 L1) as [[a|k a b]|] eqn:E1; destruct (bare is1 L2) as [[c|k' c d]|] eqn:E2;
    try (apply eng_dot_fallback; assumption);
    try (apply bare_ok in E1; destruct E1 as [E1 _]); try (apply bare_ok in E2; destruct E2 as [E2 _]).
  - rewrite (ok_dot_xc rs Hrs), E2. reflexivity.
  - rewrite (ok_dot_cx rs Hrs), E1. reflexivity.
  - rewrite (ok_dot_cc rs Hrs), E1, E2. reflexivity.
  - rewrite (ok_dot_cx rs Hrs), E1. reflexivity.
  - rewrite (ok_dot_xc rs Hrs), E2. reflexivity.
Qed.

(* ---- VectorCross ---- *)

Lemma shape_pool (bs : list vb) (args : list vn) :
  Forall2 (fun b a => In b (map snd a)) bs args -> incl bs (pool args).
Proof.
  induction 1 as [|b a bs' args' Hb Hrest IH]; [intros ? []|].
  intros z [<-|Hz]; cbn [pool flat_map]; apply in_or_app; [left; assumption|right; apply IH; assumption].
Qed.

Lemma terms_ok (args : list vn) e : Forall good args ->
  In e (ordered_mul (rops z0) vb_eqb vb_key args) -> Forall vb_ok (snd (fst e)).
Proof.
  intros Hg Hin. apply ordered_mul_from in Hin. destruct Hin as (k & bs & Hin & E).
  rewrite E. cbn [snd]. apply Forall_forall. intros x Hx. apply sws_incl in Hx.
  apply (pool_ok args Hg). apply omul_terms_shape in Hin. apply (shape_pool _ _ Hin). exact Hx.
Qed.

Lemma proj_cat_terms i g m :
  proj i (lc_val (cat_terms g m)) = sum_terms (fun s t f => proj i (lc_val (g s t f))) m.
Proof.
  induction m as [|e m IH]; [cbn; apply proj_vzero|].
  unfold cat_terms in *. cbn [flat_map]. rewrite lc_val_app, proj_vadd, IH. reflexivity.
Qed.

Lemma good_cat g m : (forall e, In e m -> good (g (fst (fst e)) (snd (fst e)) (snd e))) -> good (cat_terms g m).
Proof.
  induction m as [|e m IH]; intros Hg; [constructor|].
  unfold cat_terms in *. cbn [flat_map]. apply good_app; [apply Hg; now left|apply IH; intros; apply Hg; now right].
Qed.

Lemma eng_cross_fallback L1 L2 : good L1 -> good L2 ->
  let r := cat_terms (fun s t f =>
      match t with
      | [v; w] => if (s =? 0)%Z then z_cross rs else a_cross rs (cross_pair rs ckey v w) f (IZR s)
      | _ => []
      end) (ordered_mul (rops z0) vb_eqb vb_key [L1; L2]) in
  lc_val r = cross (lc_val L1) (lc_val L2) /\ good r.
Proof.
  intros H1 H2.
  assert (Hargs : Forall good [L1; L2]) by (repeat constructor; assumption).
  cbv zeta. split.
  - apply v3_proj_eq. intros i. rewrite proj_cat_terms.
    rewrite (sum_terms_osum _ (fun s t => IZR s * fcross i (map vb_val t))).
    + change (proj i (cross (lc_val L1) (lc_val L2))) with (fcross i (map (lcv idR vb_val) [L1; L2])).
      symmetry. apply (ordered_mul_sound_alt (rops z0) idR Hhom vb_val vb_eqb vb_ok vb_eqb_ok vb_key (fcross i) [L1; L2]).
      * apply fcross_ml.
      * apply fcross_alt.
      * apply pool_inj. exact Hargs.
      * intros x Hx. apply (pool_ok _ Hargs). exact Hx.
    + intros [[s t] f] Hin. cbn [fst snd]. apply terms_ok in Hin; [|exact Hargs]. cbn [fst snd] in Hin.
      destruct t as [|v [|w [|? ?]]]; cbn [map fcross]; try (rewrite lc_val_nil, proj_vzero; ring).
      inversion Hin as [|? ? Hv Hr]; subst. inversion Hr as [|? ? Hw _]; subst.
      destruct (s =? 0)%Z eqn:Ez.
      * apply Z.eqb_eq in Ez. subst s. rewrite (ok_z_cross rs Hrs), lc_val_nil, proj_vzero. ring.
      * rewrite (ok_a_cross rs Hrs), proj_vscale. destruct (cross_pair_ok v w Hv Hw) as [-> _]. ring.
  - apply good_cat. intros [[s t] f] Hin. cbn [fst snd]. apply terms_ok in Hin; [|exact Hargs]. cbn [fst snd] in Hin.
    destruct t as [|v [|w [|? ?]]]; try constructor.
    inversion Hin as [|? ? Hv Hr]; subst. inversion Hr as [|? ? Hw _]; subst.
    destruct (s =? 0)%Z; [rewrite (ok_z_cross rs Hrs); constructor|].
    eapply good_of_incl; [apply (el_a_cross rs Hrs)|]. apply (cross_pair_ok v w Hv Hw).
Qed.

Theorem eng_cross_sound L1 L2 : good L1 -> good L2 ->
  lc_val (eng_cross rs ckey z0 is1 L1 L2) = cross (lc_val L1) (lc_val L2) /\ good (eng_cross rs ckey z0 is1 L1 L2).
Proof.
  intros H1 H2. unfold eng_cross.
  destruct (bare is1 L1) as [[a|k a b]|] eqn:E1; destruct (bare is1 L2) as [[c|k' c d]|] eqn:E2;
    try (apply eng_cross_fallback; assumption);
    try (apply bare_ok in E1; destruct E1 as [E1 G1]; specialize (G1 H1));
    try (apply bare_ok in E2; destruct E2 as [E2 G2]; specialize (G2 H2)); cbn [vb_ok] in *.
  - destruct G2 as (Hc & Hd & _). split; [rewrite (ok_cross_xc rs Hrs), E2; reflexivity|].
    apply good_els. intros x Hx. apply (el_cross_xc rs Hrs) in Hx. destruct Hx as [->| ->]; assumption.
  - destruct G1 as (Ha & Hb & _). split; [rewrite (ok_cross_cx rs Hrs), E1; reflexivity|].
    apply good_els. intros x Hx. apply (el_cross_cx rs Hrs) in Hx. destruct Hx as [->| ->]; assumption.
  - destruct G1 as (Ha & Hb & _), G2 as (Hc & Hd & _). split; [rewrite (ok_cross_cc rs Hrs), E1, E2; reflexivity|].
    apply good_els. intros x Hx. apply (el_cross_cc rs Hrs) in Hx. destruct Hx as [->|[->|[->| ->]]]; assumption.
  - destruct G1 as (Ha & Hb & _). split; [rewrite (ok_cross_cx rs Hrs), E1; reflexivity|].
    apply good_els. intros x Hx. apply (el_cross_cx rs Hrs) in Hx. destruct Hx as [->| ->]; assumption.
  - destruct G2 as (Hc & Hd & _). split; [rewrite (ok_cross_xc rs Hrs), E2; reflexivity|].
    apply good_els. intros x Hx. apply (el_cross_xc rs Hrs) in Hx. destruct Hx as [->| ->]; assumption.
Qed.

(* ---- VectorMixedProduct ---- *)

Lemma mixed_triple_ok u v w : vb_ok u -> vb_ok v -> vb_ok w ->
  mixed_triple rs ckey z0 is1 u v w = mixed (vb_val u) (vb_val v) (vb_val w).
Proof.
  intros Hu Hv Hw.
  assert (G : r_mixed_comp rs (eng_dot rs z0 is1) (eng_cross rs ckey z0 is1) u v w =
              mixed (vb_val u) (vb_val v) (vb_val w)).
  { apply (ok_mixed_comp rs Hrs vb_ok); try assumption.
    - intros L1 L2 G1 G2. apply eng_dot_sound; assumption.
    - intros L1 L2 G1 G2. apply eng_cross_sound; assumption. }
  destruct u, v, w; cbn [mixed_triple]; try exact G. reflexivity.
Qed.

Theorem eng_mixed_sound L1 L2 L3 : good L1 -> good L2 -> good L3 ->
  eng_mixed rs ckey z0 is1 L1 L2 L3 = mixed (lc_val L1) (lc_val L2) (lc_val L3).
Proof.
  intros H1 H2 H3.
  assert (Hargs : Forall good [L1; L2; L3]) by (repeat constructor; assumption).
  unfold eng_mixed.
  rewrite (sum_terms_osum _ (fun s t => IZR s * fmixed (map vb_val t))).
  - change (mixed (lc_val L1) (lc_val L2) (lc_val L3)) with (fmixed (map (lcv idR vb_val) [L1; L2; L3])).
    symmetry. apply (ordered_mul_sound_alt (rops z0) idR Hhom vb_val vb_eqb vb_ok vb_eqb_ok vb_key fmixed [L1; L2; L3]).
    + apply fmixed_ml.
    + apply fmixed_alt.
    + apply pool_inj. exact Hargs.
    + intros x Hx. apply (pool_ok _ Hargs). exact Hx.
  - intros [[s t] f] Hin. cbn [fst snd]. apply terms_ok in Hin; [|exact Hargs]. cbn [fst snd] in Hin.
    destruct t as [|u [|v [|w [|? ?]]]]; cbn [map fmixed]; try ring.
    inversion Hin as [|? ? Hu Hr]; subst. inversion Hr as [|? ? Hv Hr2]; subst. inversion Hr2 as [|? ? Hw _]; subst.
    destruct (s =? 0)%Z eqn:Ez.
    + apply Z.eqb_eq in Ez. subst s. rewrite (ok_z_mixed rs Hrs). ring.
    + rewrite (ok_a_mixed rs Hrs), mixed_triple_ok by assumption. ring.
Qed.

(* ---- VectorNorm ---- *)

Theorem eng_norm_sound L : eng_norm rs split L = norm (lc_val L).
Proof.
  unfold eng_norm. destruct L as [|kb L].
  - rewrite (ok_norm_zero rs Hrs), lc_val_nil, norm_zero. reflexivity.
  - destruct (split (kb :: L)) as [[k L']|] eqn:E; [|reflexivity].
    rewrite (ok_norm_scale rs Hrs), <- (split_ok Ho _ _ _ E). reflexivity.
Qed.

End EngineSound.

(* ================================================================================================
   whole expressions
   ================================================================================================ *)

Fixpoint vatoms (A : atomv -> Prop) (e : vexpr) : Prop :=
  match e with
  | VZero => True
  | VSym a => A a
  | VAdd x y => vatoms A x /\ vatoms A y
  | VScale k x => satoms A k /\ vatoms A x
  | VCrossE x y => vatoms A x /\ vatoms A y
  end
with satoms (A : atomv -> Prop) (e : sexpr) : Prop :=
  match e with
  | SConst _ => True
  | SAdd p q => satoms A p /\ satoms A q
  | SMul p q => satoms A p /\ satoms A q
  | SDotE x y => vatoms A x /\ vatoms A y
  | SMixedE x y z => vatoms A x /\ vatoms A y /\ vatoms A z
  | SNormE x => vatoms A x
  end.

Scheme vexpr_mut := Induction for vexpr Sort Prop
  with sexpr_mut := Induction for sexpr Sort Prop.
Combined Scheme vsexpr_ind from vexpr_mut, sexpr_mut.

(* SymPy's regrouping of a sum of scaled vectors keeps the value and introduces no new vectors *)
Definition regroup_ok (regroup : vn -> vn) : Prop :=
  forall L, lc_val (regroup L) = lc_val L /\ incl (map snd (regroup L)) (map snd L).

Section RouteSound.
Context (rs : ruleset) (Hrs : rules_ok rs).
Context (ckey : atomv -> atomv -> Z) (z0 is1 : R -> bool) (split : vn -> option (R * vn)) (regroup : vn -> vn).
Context (A : atomv -> Prop) (Hk : keys_ok ckey A) (Ho : oracles_ok z0 is1 split) (Hr : regroup_ok regroup).

Notation RV := (route_v rs ckey z0 is1 split regroup).
Notation RS := (route_s rs ckey z0 is1 split regroup).

Lemma rv_zero : RV VZero = []. Proof. reflexivity. Qed.
Lemma rv_sym a : RV (VSym a) = single (BAtom a). Proof. reflexivity. Qed.
Lemma rv_add x y : RV (VAdd x y) = regroup (RV x ++ RV y). Proof. reflexivity. Qed.
Lemma rv_scale k x : RV (VScale k x) = regroup (lc_scale (RS k) (RV x)). Proof. reflexivity. Qed.
Lemma rv_cross x y : RV (VCrossE x y) = regroup (eng_cross rs ckey z0 is1 (RV x) (RV y)). Proof. reflexivity. Qed.
Lemma rs_const r : RS (SConst r) = r. Proof. reflexivity. Qed.
Lemma rs_add p q : RS (SAdd p q) = RS p + RS q. Proof. reflexivity. Qed.
Lemma rs_mul p q : RS (SMul p q) = RS p * RS q. Proof. reflexivity. Qed.
Lemma rs_dot x y : RS (SDotE x y) = eng_dot rs z0 is1 (RV x) (RV y). Proof. reflexivity. Qed.
Lemma rs_mixed x y z : RS (SMixedE x y z) = eng_mixed rs ckey z0 is1 (RV x) (RV y) (RV z). Proof. reflexivity. Qed.
Lemma rs_norm x : RS (SNormE x) = eng_norm rs split (RV x). Proof. reflexivity. Qed.

Lemma route_sound :
  (forall e, vatoms A e -> good ckey A (RV e) /\ lc_val (RV e) = eval_v e) /\
  (forall s, satoms A s -> RS s = eval_s s).
Proof.
  apply vsexpr_ind; cbn [vatoms satoms eval_v eval_s].
  - intros _. rewrite rv_zero. split; [constructor|reflexivity].
  - intros a Ha. rewrite rv_sym. split; [apply good_single; exact Ha|apply lc_val_single].
  - intros x IHx y IHy [Hx Hy]. destruct (IHx Hx) as [Gx Ex], (IHy Hy) as [Gy Ey].
    rewrite rv_add. destruct (Hr (RV x ++ RV y)) as [E I].
    split; [eapply good_of_incl; [exact I|apply good_app; assumption]|].
    rewrite E, lc_val_app, Ex, Ey. reflexivity.
  - intros k IHk x IHx [Hks Hx]. destruct (IHx Hx) as [Gx Ex].
    rewrite rv_scale. destruct (Hr (lc_scale (RS k) (RV x))) as [E I].
    split; [eapply good_of_incl; [exact I|apply good_scale; assumption]|].
    rewrite E, lc_val_scale, Ex, (IHk Hks). reflexivity.
  - intros x IHx y IHy [Hx Hy]. destruct (IHx Hx) as [Gx Ex], (IHy Hy) as [Gy Ey].
    rewrite rv_cross.
    destruct (eng_cross_sound rs Hrs ckey z0 is1 split A Hk Ho _ _ Gx Gy) as [Ec Gc].
    destruct (Hr (eng_cross rs ckey z0 is1 (RV x) (RV y))) as [E I].
    split; [eapply good_of_incl; [exact I|exact Gc]|].
    rewrite E, Ec, Ex, Ey. reflexivity.
  - intros r _. apply rs_const.
  - intros p IHp q IHq [Hp Hq]. rewrite rs_add, (IHp Hp), (IHq Hq). reflexivity.
  - intros p IHp q IHq [Hp Hq]. rewrite rs_mul, (IHp Hp), (IHq Hq). reflexivity.
  - intros x IHx y IHy [Hx Hy]. destruct (IHx Hx) as [Gx Ex], (IHy Hy) as [Gy Ey].
    rewrite rs_dot, (eng_dot_sound rs Hrs ckey z0 is1 split A Hk Ho _ _ Gx Gy), Ex, Ey. reflexivity.
  - intros x IHx y IHy z IHz (Hx & Hy & Hz).
    destruct (IHx Hx) as [Gx Ex], (IHy Hy) as [Gy Ey], (IHz Hz) as [Gz Ez].
    rewrite rs_mixed, (eng_mixed_sound rs Hrs ckey z0 is1 split A Hk Ho _ _ _ Gx Gy Gz), Ex, Ey, Ez. reflexivity.
  - intros x IHx Hx. destruct (IHx Hx) as [Gx Ex].
    rewrite rs_norm, (eng_norm_sound rs Hrs z0 is1 split Ho), Ex. reflexivity.
Qed.

End RouteSound.

(* The value computed along the constructors' own route is the value of the expression: for every rule set
   whose bodies are valid identities of R^3, every assignment of object identities (keys) to the symbols
   and cross nodes that identifies them, every value of the symbols, every expression. *)
Theorem simplify_sound (rs : ruleset) : rules_ok rs ->
  forall ckey z0 is1 split regroup (A : atomv -> Prop),
  keys_ok ckey A -> oracles_ok z0 is1 split -> regroup_ok regroup ->
  (forall e, vatoms A e -> lc_val (route_v rs ckey z0 is1 split regroup e) = eval_v e) /\
  (forall s, satoms A s -> route_s rs ckey z0 is1 split regroup s = eval_s s).
Proof.
  intros Hrs ckey z0 is1 split regroup A Hk Ho Hr.
  destruct (route_sound rs Hrs ckey z0 is1 split regroup A Hk Ho Hr) as [Hv Hs].
  split; [intros e He; apply (Hv e He)|exact Hs].
Qed.

(* ================================================================================================
   tactics for the regenerated rule lemmas, and a reference instance (non-vacuity of rules_ok)
   ================================================================================================ *)

Ltac atoms_destruct :=
  repeat match goal with a : atomv |- _ => destruct a as [? ?] end.

(* scalar-valued rule body = its pattern *)
Ltac rule_scalar :=
  intros; atoms_destruct; cbn [aval snd fst];
  first [ v3_ring
        | rewrite <- ?norm_sq; v3_ring
        | rewrite ?norm_scale; ring ].

(* vector-valued rule body (a combination of the matched atoms) = its pattern *)
Ltac rule_vector :=
  intros; atoms_destruct; unfold lc_val, lc_scale, single; cbn [fold_right map fst snd vb_val aval];
  v3_ring.

Ltac rule_elements :=
  intros; cbn [map snd] in *;
  repeat match goal with H : In _ (_ :: _) |- _ => destruct H as [H|H] end;
  repeat match goal with H : In _ [] |- _ => destruct H end;
  subst; auto 6.

Definition reference_rules : ruleset := {|
  r_dot_cc a b c d := dot (aval a) (aval c) * dot (aval b) (aval d) - dot (aval b) (aval c) * dot (aval a) (aval d);
  r_dot_cx r a b := mixed r (aval a) (aval b);
  r_dot_xc l c d := mixed l (aval c) (aval d);
  r_cross_cc a b c d :=
    [(mixed (aval d) (aval a) (aval b), BAtom c); (- mixed (aval c) (aval a) (aval b), BAtom d)];
  r_cross_cx r a b := [(dot r (aval a), BAtom b); (- dot r (aval b), BAtom a)];
  r_cross_xc l c d := [(dot l (aval d), BAtom c); (- dot l (aval c), BAtom d)];
  z_dot v f := norm v ^ 2 * f;
  a_dot p f s := p * f;
  z_cross := [];
  a_cross c f s := lc_scale (f * s) c;
  z_mixed := 0;
  a_mixed m f s := m * f * s;
  r_mixed_comp D C u v w := D (single u) (C (single v) (single w));
  r_norm_zero := 0;
  r_norm_scale n k := n * Rabs k |}.

Lemma allv_single (Pv : vb -> Prop) b : Pv b -> allv Pv (single b).
Proof. intros Hb. constructor; [exact Hb|constructor]. Qed.

(* the composite arm of VectorMixedProduct, when it is VectorDot(u, VectorCross(v, w)) *)
Lemma mixed_comp_dot_cross (Pv : vb -> Prop) (D : vn -> vn -> R) (C : vn -> vn -> vn) u v w :
  Pv u -> Pv v -> Pv w ->
  (forall L1 L2, allv Pv L1 -> allv Pv L2 -> D L1 L2 = dot (lc_val L1) (lc_val L2)) ->
  (forall L1 L2, allv Pv L1 -> allv Pv L2 ->
      lc_val (C L1 L2) = cross (lc_val L1) (lc_val L2) /\ allv Pv (C L1 L2)) ->
  D (single u) (C (single v) (single w)) = mixed (vb_val u) (vb_val v) (vb_val w).
Proof.
  intros Hu Hv Hw HD HC.
  destruct (HC (single v) (single w) (allv_single Pv v Hv) (allv_single Pv w Hw)) as [Ec Gc].
  rewrite HD by (try apply allv_single; assumption). rewrite Ec, !lc_val_single. reflexivity.
Qed.

Lemma lc_scale_els k L : map snd (lc_scale k L) = map snd L.
Proof. unfold lc_scale. rewrite map_map. reflexivity. Qed.

Lemma reference_rules_ok : rules_ok reference_rules.
Proof.
  constructor; cbn [reference_rules r_dot_cc r_dot_cx r_dot_xc r_cross_cc r_cross_cx r_cross_xc z_dot a_dot
                     z_cross a_cross z_mixed a_mixed r_mixed_comp r_norm_zero r_norm_scale].
  - rule_scalar.
  - rule_scalar.
  - rule_scalar.
  - rule_vector.
  - rule_vector.
  - rule_vector.
  - rule_elements.
  - rule_elements.
  - rule_elements.
  - rule_scalar.
  - rule_scalar.
  - reflexivity.
  - intros. rewrite lc_val_scale. reflexivity.
  - intros c f s. rewrite lc_scale_els. apply incl_refl.
  - reflexivity.
  - rule_scalar.
  - intros. apply (mixed_comp_dot_cross Pv); assumption.
  - reflexivity.
  - rule_scalar.
Qed.

(* non-vacuity of the other hypotheses of simplify_sound: three symbols with ids 10 < 20 < 30 *)
Definition ex_A (pa pb pc : V3) (a : atomv) : Prop := a = (10%Z, pa) \/ a = (20%Z, pb) \/ a = (30%Z, pc).
Definition ex_ckey (a b : atomv) : Z := (100 + 10 * fst a + fst b)%Z.

Example ex_keys_ok (pa pb pc : V3) : keys_ok ex_ckey (ex_A pa pb pc).
Proof.
  constructor; unfold ex_A, ex_ckey.
  - intros a b [->|[->| ->]] [->|[->| ->]]; cbn; intros E; try reflexivity; discriminate.
  - intros a b a' b' [->|[->| ->]] [->|[->| ->]] [->|[->| ->]] [->|[->| ->]]; cbn; intros E;
      try discriminate; split; reflexivity.
  - intros a b c [->|[->| ->]] [->|[->| ->]] [->|[->| ->]]; cbn; discriminate.
Qed.

Example ex_oracles_ok : oracles_ok (fun _ => false) (fun _ => false) (fun _ => None).
Proof. constructor; intros; discriminate. Qed.

Example ex_regroup_ok : regroup_ok (fun L => L).
Proof. intros L. split; [reflexivity|apply incl_refl]. Qed.

(* (a x b) . (a x b) along the route of the constructors (created in the order b, a -- or any other --
   the value is the Lagrange identity's) *)
Example ex_route (pa pb pc : V3) :
  route_s reference_rules ex_ckey (fun _ => false) (fun _ => false) (fun _ => None) (fun L => L)
    (SDotE (VCrossE (VSym (10%Z, pa)) (VSym (20%Z, pb))) (VCrossE (VSym (10%Z, pa)) (VSym (20%Z, pb))))
  = dot (cross pa pb) (cross pa pb).
Proof.
  apply (proj2 (simplify_sound reference_rules reference_rules_ok ex_ckey _ _ _ _ (ex_A pa pb pc)
          (ex_keys_ok pa pb pc) ex_oracles_ok ex_regroup_ok)).
  cbn. unfold ex_A. auto 10.
Qed.

(* the executable part: _ordered_mul on (2a + 3b) and (5b - a) with id(a) = 7 > id(b) = 4 *)
Example ex_ordered_mul :
  ordered_mul zops Z.eqb (fun x => x) [[(2, 7); (3, 4)]; [(5, 4); (-1, 7)]]%Z
  = [((-1)%Z, [4; 7], 10); (0, [7; 7], -2); (0, [4; 4], 15); (1, [4; 7], -3)]%Z.
Proof. vm_compute. reflexivity. Qed.
