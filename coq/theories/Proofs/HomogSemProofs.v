(* C01 -- semantic adequacy of `Homog` over the reals (fragment of Model/HomogSem.v). *)
From Coq Require Import List QArith Qreals Reals Lra Bool.
From VP Require Import Base.Dim Proofs.DimProofs Model.Homog Proofs.HomogProofs Model.HomogSem.
Import ListNotations.
Local Open Scope R_scope.

(* ---- dotQR / scale ---------------------------------------------------------------------------------- *)

Lemma Q2R_0 : Q2R 0 = 0.
Proof. unfold Q2R. simpl. lra. Qed.

Lemma dot_deq a b mu : deq a b -> dotQR a mu = dotQR b mu.
Proof.
  intros H; revert mu; induction H as [|x y a b Hxy Hab IH]; intros mu; [reflexivity|].
  destruct mu as [|m mu]; cbn; [reflexivity|]. rewrite (Qeq_eqR _ _ Hxy), IH. reflexivity.
Qed.

Lemma dot_dimless a mu : dimless a -> dotQR a mu = 0.
Proof.
  intros H; revert mu; induction H as [|x a Hx Ha IH]; intros mu; [reflexivity|].
  destruct mu as [|m mu]; cbn; [reflexivity|]. rewrite (Qeq_eqR _ _ Hx), Q2R_0, IH. lra.
Qed.

Lemma dot_dmul a : forall b mu, length a = length b -> dotQR (dmul a b) mu = dotQR a mu + dotQR b mu.
Proof.
  induction a as [|x a IH]; intros [|y b] mu Hl; cbn in *; try discriminate; [lra|].
  destruct mu as [|m mu]; cbn; [lra|].
  fold (dmul a b). rewrite IH by congruence. rewrite Q2R_plus. lra.
Qed.

Lemma dot_dpow a r : forall mu, dotQR (dpow a r) mu = Q2R r * dotQR a mu.
Proof.
  induction a as [|x a IH]; intros mu; cbn; [lra|].
  destruct mu as [|m mu]; cbn; [lra|].
  fold (dpow a r). rewrite IH, Q2R_mult. lra.
Qed.

Lemma scale_pos lam d : 0 < scale lam d.
Proof. apply exp_pos. Qed.

Lemma scale_deq lam a b : deq a b -> scale lam a = scale lam b.
Proof. intros H. unfold scale. rewrite (dot_deq _ _ _ H). reflexivity. Qed.

Lemma scale_dimless lam a : dimless a -> scale lam a = 1.
Proof. intros H. unfold scale. rewrite dot_dimless by exact H. apply exp_0. Qed.

Lemma scale_dmul lam a b : length a = length b -> scale lam (dmul a b) = scale lam a * scale lam b.
Proof. intros H. unfold scale. rewrite dot_dmul by exact H. apply exp_plus. Qed.

Lemma Rpower_exp t r : Rpower (exp t) r = exp (r * t).
Proof. unfold Rpower. rewrite ln_exp. reflexivity. Qed.

Lemma scale_dpow lam a r : scale lam (dpow a r) = Rpower (scale lam a) (Q2R r).
Proof. unfold scale. rewrite Rpower_exp, dot_dpow. reflexivity. Qed.

(* ---- positivity --------------------------------------------------------------------------------------- *)

Lemma sval_pos cst rho s : positive_valuation cst rho -> 0 < sval cst rho s.
Proof.
  intros [Hc Hr]. induction s as [c|n d|a IHa b IHb|a IHa b IHb|b IHb r]; cbn.
  - apply Hc.
  - apply Hr.
  - apply Rplus_lt_0_compat; assumption.
  - apply Rmult_lt_0_compat; assumption.
  - unfold Rpower. apply exp_pos.
Qed.

Lemma rescale_positive cst rho lam : positive_valuation cst rho -> positive_valuation cst (rescale lam rho).
Proof.
  intros [Hc Hr]. split; [exact Hc|]. intros n d. unfold rescale.
  apply Rmult_lt_0_compat; [apply scale_pos | apply Hr].
Qed.

(* ---- the checker on the fragment ---------------------------------------------------------------------- *)

Lemma infer_forget_not_any s : infer (forget s) <> Some Any.
Proof.
  induction s as [c|n d|a IHa b IHb|a IHa b IHb|b IHb r]; cbn [forget infer omap].
  - discriminate.
  - discriminate.
  - destruct (infer (forget a)) as [[|da]|]; [destruct (IHa eq_refl) | | discriminate].
    destruct (infer (forget b)) as [[|db]|]; [destruct (IHb eq_refl) | | discriminate].
    cbn. destruct (deqb da db); discriminate.
  - destruct (infer (forget a)) as [[|da]|]; [destruct (IHa eq_refl) | | discriminate].
    destruct (infer (forget b)) as [[|db]|]; [destruct (IHb eq_refl) | | discriminate].
    cbn. discriminate.
  - destruct (infer (forget b)) as [[|db]|]; [destruct (IHb eq_refl) | | discriminate].
    cbn. destruct (dimensionless db); discriminate.
Qed.

Lemma scaling_infer cst rho lam : positive_valuation cst rho ->
  forall s d, swf s -> infer (forget s) = Some (D d) ->
  wf_dim d /\ sval cst (rescale lam rho) s = scale lam d * sval cst rho s.
Proof.
  intros Hp. induction s as [c|n d0|a IHa b IHb|a IHa b IHb|b IHb r]; intros d Hwf H;
    cbn [forget infer omap] in H.
  - injection H as <-. split; [reflexivity|]. cbn. rewrite scale_dimless by apply dimless_dzero. lra.
  - injection H as <-. split; [apply erase_angle_wf; exact Hwf | reflexivity].
  - destruct Hwf as [Wa Wb].
    destruct (infer (forget a)) as [[|da]|] eqn:Ea; [destruct (infer_forget_not_any _ Ea) | | discriminate].
    destruct (infer (forget b)) as [[|db]|] eqn:Eb; [destruct (infer_forget_not_any _ Eb) | | discriminate].
    cbn in H. destruct (deqb da db) eqn:E; [|discriminate]. injection H as <-.
    destruct (IHa _ Wa eq_refl) as [Wda Ha]. destruct (IHb _ Wb eq_refl) as [Wdb Hb].
    split; [exact Wda|]. cbn. rewrite Ha, Hb.
    apply deqb_deq in E. rewrite (scale_deq lam _ _ (deq_sym _ _ E)). ring.
  - destruct Hwf as [Wa Wb].
    destruct (infer (forget a)) as [[|da]|] eqn:Ea; [destruct (infer_forget_not_any _ Ea) | | discriminate].
    destruct (infer (forget b)) as [[|db]|] eqn:Eb; [destruct (infer_forget_not_any _ Eb) | | discriminate].
    change (Some (D (dmul da (dmul db dzero))) = Some (D d)) in H. injection H as <-.
    destruct (IHa _ Wa eq_refl) as [Wda Ha]. destruct (IHb _ Wb eq_refl) as [Wdb Hb].
    assert (Wz : wf_dim (dmul db dzero)) by (apply dmul_wf; [exact Wdb | reflexivity]).
    split; [apply dmul_wf; assumption|]. cbn [sval]. rewrite Ha, Hb.
    unfold wf_dim in Wda, Wdb, Wz.
    rewrite (scale_dmul lam da (dmul db dzero)) by (transitivity NB; [exact Wda | symmetry; exact Wz]).
    rewrite (scale_dmul lam db dzero) by (transitivity NB; [exact Wdb | reflexivity]).
    rewrite (scale_dimless lam dzero) by apply dimless_dzero. ring.
  - destruct (infer (forget b)) as [[|db]|] eqn:Eb; [destruct (infer_forget_not_any _ Eb) | | discriminate].
    cbn in H. destruct (IHb _ Hwf eq_refl) as [Wdb Hb].
    assert (Pb : 0 < sval cst rho b) by (apply sval_pos; exact Hp).
    destruct (dimensionless db) eqn:E.
    + injection H as <-. split; [exact Wdb|]. cbn. rewrite Hb.
      apply dimensionless_dimless in E. rewrite (scale_dimless lam db E). rewrite !Rmult_1_l. reflexivity.
    + injection H as <-. split; [apply dpow_wf; exact Wdb|]. cbn. rewrite Hb.
      rewrite scale_dpow. symmetry. apply Rpower_mult_distr; [apply scale_pos | exact Pb].
Qed.

(* ---- the theorems -------------------------------------------------------------------------------------- *)

Theorem scaling_invariance s d cst rho lam :
  swf s -> positive_valuation cst rho -> Homog (forget s) (D d) ->
  sval cst (rescale lam rho) s = scale lam d * sval cst rho s.
Proof.
  intros W P H. destruct (infer_complete _ _ H) as (x' & E & Q).
  destruct x' as [|a']; [destruct (infer_forget_not_any _ E)|]. cbn in Q.
  destruct (scaling_infer cst rho lam P s a' W E) as [_ Hs].
  rewrite Hs, (scale_deq lam _ _ Q). reflexivity.
Qed.

Lemma homog_forget_is_D s x : Homog (forget s) x -> exists a, x = D a.
Proof.
  intros H. destruct (infer_complete _ _ H) as (x' & E & Q).
  destruct x' as [|a']; [destruct (infer_forget_not_any _ E)|].
  destruct x as [|a]; [contradiction | exists a; reflexivity].
Qed.

(* the truth of a homogeneous equation does not depend on the system of units *)
Theorem homogeneous_equation_unit_invariant a b d cst rho lam :
  swf a -> swf b -> positive_valuation cst rho -> Homog (DRel (forget a) (forget b)) d ->
  (sval cst rho a = sval cst rho b <-> sval cst (rescale lam rho) a = sval cst (rescale lam rho) b).
Proof.
  intros Wa Wb P H. destruct (rel_sides _ _ _ H) as (dl & dr & Hl & Hr & Cl & Cr).
  destruct (homog_forget_is_D _ _ Hl) as [la ->]. destruct (homog_forget_is_D _ _ Hr) as [ra ->].
  destruct d as [|d0]; [contradiction|]. cbn in Cl, Cr.
  rewrite (scaling_invariance a la cst rho lam Wa P Hl), (scaling_invariance b ra cst rho lam Wb P Hr).
  rewrite (scale_deq lam _ _ Cl), (scale_deq lam _ _ Cr).
  split; intros E.
  - rewrite E. reflexivity.
  - apply Rmult_eq_reg_l in E; [exact E|]. apply Rgt_not_eq, scale_pos.
Qed.

(* ---- inhomogeneity is observable ------------------------------------------------------------------------ *)

Lemma dot_ones d : forall n, dotQR d (map ln (repeat 1 n)) = 0.
Proof.
  induction d as [|q d IH]; intros [|n]; cbn; try reflexivity. rewrite ln_1, IH. lra.
Qed.

Lemma dot_one_hot x d : forall i n, (i < n)%nat ->
  dotQR d (map ln (set_nth i x (repeat 1 n))) = Q2R (nth i d 0%Q) * ln x.
Proof.
  induction d as [|q d IH]; intros i n Hi.
  - destruct (set_nth i x (repeat 1 n)); destruct i; cbn; rewrite Q2R_0; lra.
  - destruct n as [|n]; [inversion Hi|]. destruct i as [|i]; cbn.
    + rewrite dot_ones. lra.
    + rewrite ln_1, IH by (apply PeanoNat.Nat.succ_lt_mono; exact Hi). lra.
Qed.

Theorem rescaling_separates da db i :
  (i < NB)%nat -> ~ (nth i da 0%Q == nth i db 0%Q)%Q ->
  scale (one_hot i 2) da <> scale (one_hot i 2) db.
Proof.
  intros Hi Hne E. unfold scale, one_hot in E. apply exp_inv in E.
  rewrite !dot_one_hot in E by exact Hi.
  apply Rmult_eq_reg_r in E.
  - apply Hne, eqR_Qeq, E.
  - assert (L := ln_lt_2). lra.
Qed.

(* if two terms have dimensions that differ in base unit i, doubling that unit changes their ratio:
   they cannot be added or equated meaningfully *)
Theorem inhomogeneous_witness a b da db i cst rho :
  swf a -> swf b -> positive_valuation cst rho ->
  Homog (forget a) (D da) -> Homog (forget b) (D db) ->
  (i < NB)%nat -> ~ (nth i da 0%Q == nth i db 0%Q)%Q ->
  sval cst (rescale (one_hot i 2) rho) a / sval cst (rescale (one_hot i 2) rho) b
    <> sval cst rho a / sval cst rho b.
Proof.
  intros Wa Wb P Ha Hb Hi Hne E.
  apply (rescaling_separates da db i Hi Hne).
  rewrite (scaling_invariance a da cst rho _ Wa P Ha), (scaling_invariance b db cst rho _ Wb P Hb) in E.
  assert (Pa := sval_pos cst rho a P). assert (Pb := sval_pos cst rho b P).
  assert (Sa := scale_pos (one_hot i 2) da). assert (Sb := scale_pos (one_hot i 2) db).
  set (sa := scale (one_hot i 2) da) in *. set (sb := scale (one_hot i 2) db) in *.
  set (va := sval cst rho a) in *. set (vb := sval cst rho b) in *.
  assert (K : sa * va * vb = va * (sb * vb)).
  { apply (f_equal (fun t => t * (sb * vb) * vb)) in E.
    replace (sa * va / (sb * vb) * (sb * vb) * vb) with (sa * va * vb) in E by (field; lra).
    replace (va / vb * (sb * vb) * vb) with (va * (sb * vb)) in E by (field; lra).
    exact E. }
  apply Rmult_eq_reg_r with (va * vb); [|apply Rgt_not_eq, Rmult_lt_0_compat; assumption]. lra.
Qed.

(* ---- non-vacuity: s = v*t + s0 at a concrete valuation ---------------------------------------------------- *)

Local Open Scope Q_scope.
Definition Ld : dim := [1; 0; 0; 0; 0; 0; 0; 0; 0].
Definition Td : dim := [0; 0; 1; 0; 0; 0; 0; 0; 0].
Definition Vd : dim := [1; 0; -1; 0; 0; 0; 0; 0; 0].
Local Open Scope R_scope.

Example ex_fragment_homog :
  Homog (DRel (forget (SLeaf 0 Ld)) (forget (SAdd (SMul (SLeaf 1 Vd) (SLeaf 2 Td)) (SLeaf 3 Ld)))) (D Ld).
Proof. apply HomogProofs.infer_sound. vm_compute. reflexivity. Qed.

Example ex_fragment_scaling cst rho lam :
  positive_valuation cst rho ->
  sval cst (rescale lam rho) (SMul (SLeaf 1 Vd) (SLeaf 2 Td)) = scale lam Ld * sval cst rho (SMul (SLeaf 1 Vd) (SLeaf 2 Td)).
Proof.
  intros P. apply scaling_invariance; [cbn; split; reflexivity | exact P |].
  apply HomogProofs.infer_sound. vm_compute. reflexivity.
Qed.
