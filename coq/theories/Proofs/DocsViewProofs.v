(* Lemmas about Model/DocsView.v (C19): the directive substitution. *)
From Coq Require Import List Bool Arith String Ascii ZArith Lia.
From VP Require Import Model.DocsView.
Import ListNotations.
Local Notation length := List.length.

(* ------------------------------------------------------------------------------------------- *)
(* str.find                                                                                      *)
(* ------------------------------------------------------------------------------------------- *)

Lemma prefixb_app : forall p s, prefixb p s = true -> exists r, s = p ++ r.
Proof.
  induction p as [|a p IH]; intros s H; cbn in H.
  - exists s. reflexivity.
  - destruct s as [|b s]; [discriminate|]. apply andb_true_iff in H. destruct H as [H1 H2].
    apply Ascii.eqb_eq in H1. subst b. destruct (IH _ H2) as [r ->]. exists r. reflexivity.
Qed.

Lemma prefixb_refl_app : forall p r, prefixb p (p ++ r) = true.
Proof. induction p as [|a p IH]; intros r; cbn; [reflexivity|]. now rewrite Ascii.eqb_refl, IH. Qed.

(* the reported position is an occurrence ... *)
Lemma find_sub_sound : forall p s n, find_sub p s = Some n -> exists r, skipn n s = p ++ r /\ n <= length s.
Proof.
  intros p s; induction s as [|c s IH]; intros n H; cbn in H.
  - destruct (prefixb p []) eqn:E; [|discriminate]. inversion H; subst n.
    destruct (prefixb_app _ _ E) as [r Hr]. exists r. cbn. split; [exact Hr|lia].
  - destruct (prefixb p (c :: s)) eqn:E.
    + inversion H; subst n. destruct (prefixb_app _ _ E) as [r Hr]. exists r. cbn. split; [exact Hr|lia].
    + destruct (find_sub p s) as [m|] eqn:F; [|discriminate]. cbn in H. inversion H; subst n.
      destruct (IH m eq_refl) as (r & Hr & Hm). exists r. cbn. split; [exact Hr|lia].
Qed.

(* ... and the first one *)
Lemma find_sub_first : forall p s n, find_sub p s = Some n -> forall m, m < n -> prefixb p (skipn m s) = false.
Proof.
  intros p s; induction s as [|c s IH]; intros n H m Hm; cbn in H.
  - destruct (prefixb p []); [inversion H; lia|discriminate].
  - destruct (prefixb p (c :: s)) eqn:E; [inversion H; lia|].
    destruct (find_sub p s) as [k|] eqn:F; [|discriminate]. cbn in H. inversion H; subst n.
    destruct m as [|m]; [exact E|]. cbn. apply (IH k eq_refl). lia.
Qed.

Lemma find_sub_none : forall p s, find_sub p s = None -> forall m, prefixb p (skipn m s) = false.
Proof.
  intros p s; induction s as [|c s IH]; intros H m; cbn in H.
  - destruct (prefixb p []) eqn:E; [discriminate|]. destruct m; exact E.
  - destruct (prefixb p (c :: s)) eqn:E; [discriminate|].
    destruct (find_sub p s) eqn:F; [discriminate|]. destruct m as [|m]; [exact E|]. cbn. now apply IH.
Qed.

(* completeness: an occurrence with no earlier occurrence is what find reports *)
Lemma find_sub_complete : forall p s n,
  prefixb p (skipn n s) = true -> n <= length s -> (forall m, m < n -> prefixb p (skipn m s) = false) -> find_sub p s = Some n.
Proof.
  intros p s; induction s as [|c s IH]; intros n H Hn Hfirst.
  - cbn in Hn. assert (n = 0) by lia. subst n. cbn in *. now rewrite H.
  - destruct n as [|n].
    + cbn in H. cbn. now rewrite H.
    + cbn [find_sub]. pose proof (Hfirst 0 ltac:(lia)) as H0. cbn [skipn] in H0. rewrite H0. cbn in H, Hn.
      rewrite (IH n H); [reflexivity|lia|]. intros m Hm. apply (Hfirst (S m)). lia.
Qed.

(* ------------------------------------------------------------------------------------------- *)
(* the substitution loop                                                                         *)
(* ------------------------------------------------------------------------------------------- *)

Lemma norm_idx_nonneg z n : (0 <= z)%Z -> norm_idx z n = Z.to_nat z.
Proof. intros H. unfold norm_idx. destruct (z <? 0)%Z eqn:E; [apply Z.ltb_lt in E; lia|reflexivity]. Qed.

Lemma firstn_app_exact {A} (l1 l2 : list A) n : firstn (length l1 + n) (l1 ++ l2) = l1 ++ firstn n l2.
Proof. induction l1; cbn; [reflexivity|]. now rewrite IHl1. Qed.

Lemma skipn_app_exact {A} (l1 l2 : list A) n : skipn (length l1 + n) (l1 ++ l2) = skipn n l2.
Proof. induction l1; cbn; [reflexivity|]. exact IHl1. Qed.

Lemma skipn_add {A} : forall a b (l : list A), skipn a (skipn b l) = skipn (b + a) l.
Proof. intros a b; induction b as [|b IH]; intros l; cbn; [reflexivity|]. destruct l; [now destruct a|apply IH]. Qed.

Lemma subst_one render doc s e k :
  s <= e -> e <= length doc ->
  fold_left (subst_step render) [mkDir s e k] (doc, 0%Z)
  = (firstn s doc ++ render k ++ skipn e doc,
     (Z.of_nat (length (render k)) - Z.of_nat (e - s))%Z).
Proof.
  intros Hse He. cbn [fold_left subst_step dstart dend dtype].
  unfold slice_to, slice_from. rewrite !norm_idx_nonneg by lia.
  replace (Z.to_nat (Z.of_nat s + 0)) with s by lia.
  replace (Z.to_nat (Z.of_nat e + 0)) with e by lia.
  f_equal. rewrite !app_length, firstn_length, skipn_length. lia.
Qed.

Lemma subst_two render doc s1 e1 k1 s2 e2 k2 :
  s1 <= e1 -> e1 <= s2 -> s2 <= e2 -> e2 <= length doc ->
  fst (fold_left (subst_step render) [mkDir s1 e1 k1; mkDir s2 e2 k2] (doc, 0%Z))
  = firstn s1 doc ++ render k1 ++ firstn (s2 - e1) (skipn e1 doc) ++ render k2 ++ skipn e2 doc.
Proof.
  intros H1 H2 H3 H4.
  change [mkDir s1 e1 k1; mkDir s2 e2 k2] with ([mkDir s1 e1 k1] ++ [mkDir s2 e2 k2]).
  rewrite fold_left_app. rewrite subst_one by lia.
  cbn [fold_left subst_step dstart dend dtype fst].
  set (r1 := render k1). set (off := (Z.of_nat (length r1) - Z.of_nat (e1 - s1))%Z).
  unfold slice_to, slice_from.
  rewrite !norm_idx_nonneg by lia.
  replace (Z.to_nat (Z.of_nat s2 + off)) with (length (firstn s1 doc ++ r1) + (s2 - e1))
    by (rewrite app_length, firstn_length; lia).
  replace (Z.to_nat (Z.of_nat e2 + off)) with (length (firstn s1 doc ++ r1) + (e2 - e1))
    by (rewrite app_length, firstn_length; lia).
  replace (firstn s1 doc ++ r1 ++ skipn e1 doc) with ((firstn s1 doc ++ r1) ++ skipn e1 doc)
    by (now rewrite <- app_assoc).
  rewrite firstn_app_exact, skipn_app_exact, skipn_add.
  replace (e1 + (e2 - e1)) with e2 by lia.
  repeat rewrite <- app_assoc. reflexivity.
Qed.

(* ------------------------------------------------------------------------------------------- *)
(* substitute_spec: what process_member_docstring returns, for both directive orders              *)
(* ------------------------------------------------------------------------------------------- *)

Lemma len_SYM : length SYM = 14. Proof. reflexivity. Qed.
Lemma len_LTX : length LTX = 13. Proof. reflexivity. Qed.

Lemma find_bound p s n : find_sub p s = Some n -> n + length p <= length s.
Proof.
  intros H. destruct (find_sub_sound _ _ _ H) as (r & Hr & Hn).
  assert (L : length (skipn n s) = length s - n) by apply skipn_length.
  rewrite Hr, app_length in L. lia.
Qed.

Lemma sort_one d : sort_dirs [d] = [d].
Proof. reflexivity. Qed.

Lemma sort_two d1 d2 : sort_dirs [d1; d2] = if Nat.leb (dstart d1) (dstart d2) then [d1; d2] else [d2; d1].
Proof. unfold sort_dirs. cbn. destruct (Nat.leb (dstart d1) (dstart d2)); reflexivity. Qed.

Lemma substitute_none_lemma render doc :
  find_sub SYM doc = None -> find_sub LTX doc = None -> process_docstring render doc = doc.
Proof. intros H1 H2. unfold process_docstring, find_directives. rewrite H1, H2. reflexivity. Qed.

Lemma substitute_symbol_only_lemma render doc p :
  find_sub SYM doc = Some p -> find_sub LTX doc = None ->
  process_docstring render doc = firstn p doc ++ render KSymbol ++ skipn (p + 14) doc.
Proof.
  intros H1 H2. unfold process_docstring, find_directives. rewrite H1, H2, len_SYM. cbn [app].
  unfold substitute. rewrite sort_one.
  pose proof (find_bound _ _ _ H1) as B. rewrite len_SYM in B.
  rewrite subst_one by lia. reflexivity.
Qed.

Lemma substitute_latex_only_lemma render doc p :
  find_sub SYM doc = None -> find_sub LTX doc = Some p ->
  process_docstring render doc = firstn p doc ++ render KLatex ++ skipn (p + 13) doc.
Proof.
  intros H1 H2. unfold process_docstring, find_directives. rewrite H1, H2, len_LTX. cbn [app].
  unfold substitute. rewrite sort_one.
  pose proof (find_bound _ _ _ H2) as B. rewrite len_LTX in B.
  rewrite subst_one by lia. reflexivity.
Qed.

Lemma substitute_symbol_then_latex_lemma render doc p1 p2 :
  find_sub SYM doc = Some p1 -> find_sub LTX doc = Some p2 -> p1 + 14 <= p2 ->
  process_docstring render doc
  = firstn p1 doc ++ render KSymbol ++ firstn (p2 - (p1 + 14)) (skipn (p1 + 14) doc) ++ render KLatex ++ skipn (p2 + 13) doc.
Proof.
  intros H1 H2 Hle. unfold process_docstring, find_directives. rewrite H1, H2, len_SYM, len_LTX. cbn [app].
  unfold substitute. rewrite sort_two. cbn [dstart].
  replace (Nat.leb p1 p2) with true by (symmetry; apply Nat.leb_le; lia).
  pose proof (find_bound _ _ _ H2) as B. rewrite len_LTX in B.
  apply subst_two; lia.
Qed.

Lemma substitute_latex_then_symbol_lemma render doc p1 p2 :
  find_sub SYM doc = Some p1 -> find_sub LTX doc = Some p2 -> p2 + 13 <= p1 ->
  process_docstring render doc
  = firstn p2 doc ++ render KLatex ++ firstn (p1 - (p2 + 13)) (skipn (p2 + 13) doc) ++ render KSymbol ++ skipn (p1 + 14) doc.
Proof.
  intros H1 H2 Hle. unfold process_docstring, find_directives. rewrite H1, H2, len_SYM, len_LTX. cbn [app].
  unfold substitute. rewrite sort_two. cbn [dstart].
  replace (Nat.leb p1 p2) with false by (symmetry; apply Nat.leb_gt; lia).
  pose proof (find_bound _ _ _ H1) as B. rewrite len_SYM in B.
  apply subst_two; lia.
Qed.

(* the same in the form  before ++ render d1 ++ middle ++ render d2 ++ after *)
Definition occurs (p s : text) : Prop := exists m, prefixb p (skipn m s) = true.

Lemma find_in_decomposition p b a :
  (forall m, m < length b -> prefixb p (skipn m (b ++ p ++ a)) = false) ->
  find_sub p (b ++ p ++ a) = Some (length b).
Proof.
  intros H. apply find_sub_complete.
  - replace (length b) with (length b + 0) by lia. rewrite skipn_app_exact. cbn. apply prefixb_refl_app.
  - rewrite app_length. lia.
  - exact H.
Qed.

Lemma substitute_spec_lemma render b m a :
  let doc := b ++ SYM ++ m ++ LTX ++ a in
  find_sub SYM doc = Some (length b) ->
  find_sub LTX doc = Some (length b + 14 + length m) ->
  process_docstring render doc = b ++ render KSymbol ++ m ++ render KLatex ++ a.
Proof.
  intros doc H1 H2.
  rewrite (substitute_symbol_then_latex_lemma render doc _ _ H1 H2) by lia.
  subst doc.
  replace (length b) with (length b + 0) at 1 by lia. rewrite firstn_app_exact. cbn [firstn]. rewrite app_nil_r.
  replace (b ++ SYM ++ m ++ LTX ++ a) with ((b ++ SYM) ++ m ++ LTX ++ a) by (now rewrite <- app_assoc).
  replace (length b + 14) with (length (b ++ SYM) + 0) by (rewrite app_length, len_SYM; lia).
  rewrite skipn_app_exact. cbn [skipn].
  replace (length (b ++ SYM) + 0 + length m - (length (b ++ SYM) + 0)) with (length m + 0) by lia.
  rewrite firstn_app_exact. cbn [firstn]. rewrite app_nil_r.
  replace ((b ++ SYM) ++ m ++ LTX ++ a) with (((b ++ SYM) ++ m ++ LTX) ++ a) by (repeat rewrite <- app_assoc; reflexivity).
  replace (length (b ++ SYM) + 0 + length m + 13) with (length ((b ++ SYM) ++ m ++ LTX) + 0)
    by (repeat rewrite app_length; rewrite len_LTX; lia).
  rewrite skipn_app_exact. reflexivity.
Qed.

Lemma substitute_spec_swapped_lemma render b m a :
  let doc := b ++ LTX ++ m ++ SYM ++ a in
  find_sub LTX doc = Some (length b) ->
  find_sub SYM doc = Some (length b + 13 + length m) ->
  process_docstring render doc = b ++ render KLatex ++ m ++ render KSymbol ++ a.
Proof.
  intros doc H2 H1.
  rewrite (substitute_latex_then_symbol_lemma render doc _ _ H1 H2) by lia.
  subst doc.
  replace (length b) with (length b + 0) at 1 by lia. rewrite firstn_app_exact. cbn [firstn]. rewrite app_nil_r.
  replace (b ++ LTX ++ m ++ SYM ++ a) with ((b ++ LTX) ++ m ++ SYM ++ a) by (now rewrite <- app_assoc).
  replace (length b + 13) with (length (b ++ LTX) + 0) by (rewrite app_length, len_LTX; lia).
  rewrite skipn_app_exact. cbn [skipn].
  replace (length (b ++ LTX) + 0 + length m - (length (b ++ LTX) + 0)) with (length m + 0) by lia.
  rewrite firstn_app_exact. cbn [firstn]. rewrite app_nil_r.
  replace ((b ++ LTX) ++ m ++ SYM ++ a) with (((b ++ LTX) ++ m ++ SYM) ++ a) by (repeat rewrite <- app_assoc; reflexivity).
  replace (length (b ++ LTX) + 0 + length m + 14) with (length ((b ++ LTX) ++ m ++ SYM) + 0)
    by (repeat rewrite app_length; rewrite len_SYM; lia).
  rewrite skipn_app_exact. reflexivity.
Qed.

Lemma find_reports_first_occurrence_lemma :
  forall p s n, find_sub p s = Some n ->
    (exists r, skipn n s = p ++ r /\ n <= length s) /\ forall m, m < n -> prefixb p (skipn m s) = false.
Proof. intros p s n H. split; [exact (find_sub_sound p s n H)|exact (find_sub_first p s n H)]. Qed.

(* non-vacuity *)
Example substitute_example :
  process_docstring (render_with (txt "F = m * a") (txt "        F = m a")) (txt ("Law." ++ String (ascii_of_nat 10) ":laws:symbol::" ++ String (ascii_of_nat 10) ":laws:latex::"))%string
  = (txt "Law." ++ [nl] ++ txt ":code:`F = m * a`" ++ [nl] ++ [nl] ++ txt "Latex:" ++ [nl] ++ txt "    .. math::" ++ [nl] ++ txt "        F = m a" ++ [nl]).
Proof. vm_compute. reflexivity. Qed.

Example short_rendering_negative_offset :
  process_docstring (fun k => match k with KSymbol => txt "x" | KLatex => txt "y" end) (txt "a:laws:symbol::b:laws:latex::c")
  = txt "axbyc".
Proof. vm_compute. reflexivity. Qed.

(* ------------------------------------------------------------------------------------------- *)
(* the file-writing step: afterwards the page holds exactly the new text, whatever it held before *)
(* ------------------------------------------------------------------------------------------- *)

Lemma text_eqb_eq : forall a b, text_eqb a b = true -> a = b.
Proof.
  induction a as [|x a IH]; intros [|y b] H; cbn in H; try discriminate; [reflexivity|].
  apply andb_true_iff in H. destruct H as [H1 H2]. apply Ascii.eqb_eq in H1. subst y. f_equal. now apply IH.
Qed.

Lemma fops_eqb_eq : forall a b, fops_eqb a b = true -> a = b.
Proof.
  induction a as [|x a IH]; intros [|y b] H; cbn in H; try discriminate; [reflexivity|].
  apply andb_true_iff in H. destruct H as [H1 H2]. f_equal; [destruct x, y; cbn in H1; try discriminate; reflexivity|now apply IH].
Qed.

Lemma write_at_empty new : write_at 0 new [] = new.
Proof. unfold write_at. cbn. destruct (List.length new); cbn; apply app_nil_r. Qed.

Lemma exact_missing_sound ops : In ops exact_when_missing -> forall new, run_fops new ops false ([], 0) = Some new.
Proof.
  intros H new. cbn in H. destruct H as [<-|[<-|[]]]; cbn -[write_at]; now rewrite write_at_empty.
Qed.

Lemma exact_exists_sound ops : In ops exact_when_exists -> forall new c, run_fops new ops true (c, 0) = Some new.
Proof.
  intros H new c. cbn in H. destruct H as [<-|[<-|[<-|[<-|[<-|[]]]]]]; cbn -[write_at text_eqb]; try (now rewrite write_at_empty).
  - destruct (text_eqb c new) eqn:E; [apply text_eqb_eq in E; now subst|now rewrite write_at_empty].
  - destruct (text_eqb c new) eqn:E; [apply text_eqb_eq in E; now subst|now rewrite write_at_empty].
Qed.

Lemma known_exact_sound_lemma : forall w, known_exact w = true -> forall old new, file_write w old new = Some new.
Proof.
  intros w H old new. unfold known_exact in H. apply andb_true_iff in H. destruct H as [H1 H2].
  apply existsb_exists in H1. destruct H1 as (o1 & I1 & E1). apply fops_eqb_eq in E1.
  apply existsb_exists in H2. destruct H2 as (o2 & I2 & E2). apply fops_eqb_eq in E2.
  destruct old as [c|]; cbn [file_write].
  - rewrite E2. now apply exact_exists_sound.
  - rewrite E1. now apply exact_missing_sound.
Qed.

Lemma dir_get_set p q t d : dir_get p (dir_set q t d) = if String.eqb p q then Some t else dir_get p d.
Proof.
  induction d as [|[r u] d IH]; cbn; [reflexivity|].
  destruct (String.eqb q r) eqn:E; cbn.
  - apply String.eqb_eq in E. subst r. destruct (String.eqb p q); reflexivity.
  - rewrite IH. destruct (String.eqb p r) eqn:E'; [|reflexivity].
    apply String.eqb_eq in E'. subst r. destruct (String.eqb p q) eqn:E''; [|reflexivity].
    apply String.eqb_eq in E''. subst q. rewrite String.eqb_refl in E. discriminate.
Qed.

Lemma generation_writes_every_page_lemma :
  forall w, (forall old new, file_write w old new = Some new) ->
  forall pages d0, NoDup (map fst pages) ->
    (forall p t, In (p, t) pages -> dir_get p (generate w pages d0) = Some t)
    /\ (forall q, ~ In q (map fst pages) -> dir_get q (generate w pages d0) = dir_get q d0).
Proof.
  intros w Hw. unfold generate. induction pages as [|[p t] pages IH]; intros d0 Hnd; cbn [fold_left map fst].
  - split; [intros p t []|reflexivity].
  - cbn [map fst] in Hnd. inversion Hnd as [|? ? Hnot Hnd']; subst.
    assert (Hs : gen_step w d0 (p, t) = dir_set p t d0) by (unfold gen_step; cbn [fst snd]; now rewrite Hw).
    rewrite Hs.
    destruct (IH (dir_set p t d0) Hnd') as [IH1 IH2]. split.
    + intros p' t' [E|Hin].
      * inversion E; subst p' t'. rewrite (IH2 p Hnot), dir_get_set, String.eqb_refl. reflexivity.
      * now apply IH1.
    + intros q Hq. rewrite IH2 by (intros Hin; apply Hq; now right). rewrite dir_get_set.
      destruct (String.eqb q p) eqn:E; [|reflexivity]. apply String.eqb_eq in E. subst q. exfalso. apply Hq. now left.
Qed.

(* the code as it stands: open(path, "w+") and write *)
Example current_writer_exact : known_exact (mkWriter [FOpenW; FWrite] [FOpenW; FWrite]) = true.
Proof. reflexivity. Qed.

(* "read, truncate at the current position (= end of file: nothing happens), seek(0), write": a shorter text keeps the old tail *)
Example truncate_at_eof_keeps_stale_tail :
  let w := mkWriter [FOpenW; FWrite] [FOpenRPlus; FStopIfEqual; FTruncate; FSeek0; FWrite] in
  known_exact w = false /\ file_write w (Some (txt "old longer page")) (txt "new") = Some (txt "new longer page").
Proof. vm_compute. split; reflexivity. Qed.
