(* Lemmas about Model/CollectE.v (symbolic dimension inference). *)
From Coq Require Import List QArith ZArith Bool NArith Lia Permutation.
From VP Require Import Base.Util Base.Dim Base.Val Model.CollectQ Model.CollectE Proofs.DimProofs Proofs.CollectQProofs.
Import ListNotations.

(* _collect_unique_dimension is the dimension bookkeeping of CollectQ's _collect_same_dimension with another
   error class and `dimensionless` as the default *)
Lemma unique_dim_go_sd ts : forall d,
  unique_dim_go d ts =
  match sd_dims d ts with
  | Some dfin => Ok (match dfin with Some x => x | None => dzero end)
  | None => Err E_UNITS
  end.
Proof.
  induction ts as [|[v td] r IH]; intros d; cbn [unique_dim_go sd_dims]; [reflexivity|].
  unfold sd_dim. destruct (is_any v); [apply IH|].
  destruct d as [dd|]; [|apply IH]. destruct (equivalent_dims dd td); [apply IH | reflexivity].
Qed.

(* accepted exactly when the terms that are not of any dimension are pairwise equivalent (order-free);
   the result is the dimension of such a term, or dimensionless when there is none *)
Theorem unique_dim_ok_iff ts d :
  unique_dim_go None ts = Ok d <->
  pairwise_equiv ts /\ d = match first_nonany ts with Some x => x | None => dzero end.
Proof.
  rewrite unique_dim_go_sd. destruct (sd_dims None ts) as [dfin|] eqn:E.
  - apply sd_dims_spec in E as [_ [Hp ->]]. split.
    + intros H; inversion H; subst. auto.
    + intros [_ ->]. reflexivity.
  - split; [discriminate|]. intros [Hp _]. exfalso.
    assert (H : sd_dims None ts = Some (first_nonany ts)).
    { apply sd_dims_spec. repeat split; auto. }
    congruence.
Qed.

Theorem unique_dim_refuses_iff ts :
  (exists k, unique_dim_go None ts = Err k) <-> ~ pairwise_equiv ts.
Proof.
  split.
  - intros [k Hk] Hp.
    assert (H : unique_dim_go None ts = Ok (match first_nonany ts with Some x => x | None => dzero end))
      by (apply unique_dim_ok_iff; auto).
    congruence.
  - intros Hn. destruct (unique_dim_go None ts) as [d|k] eqn:E; [|eexists; reflexivity].
    apply unique_dim_ok_iff in E as [Hp _]. contradiction.
Qed.

Theorem unique_dim_order_free ts ts' : Permutation ts ts' ->
  ((exists d, unique_dim_go None ts = Ok d) <-> (exists d, unique_dim_go None ts' = Ok d)).
Proof.
  intros P. split; intros [d H]; apply unique_dim_ok_iff in H as [Hp _]; eexists; apply unique_dim_ok_iff; split;
    try reflexivity; eapply pairwise_perm; try eassumption. apply Permutation_sym; assumption.
Qed.

(* the dimension reported is equivalent to that of every term not of any dimension *)
Theorem unique_dim_of_terms ts d :
  unique_dim_go None ts = Ok d -> forall t, In t ts -> is_any (fst t) = false -> equivalent_dims d (snd t) = true.
Proof.
  intros H t Ht Nt. apply unique_dim_ok_iff in H as [Hp ->].
  destruct (first_nonany ts) as [d0|] eqn:E.
  - destruct (first_nonany_in ts d0 E) as [v0 [Hi Hn]]. apply (Hp (v0, d0) t Hi Ht Hn Nt).
  - pose proof (first_nonany_none ts E t Ht). congruence.
Qed.

(* ---- node-level facts about infer_e ------------------------------------------------------------ *)
Theorem infer_add_spec l cs :
  classify infer_e l = Ok cs ->
  (forall d, unique_dim cs = Ok d -> infer_e (SAdd l) = Ok (add_val cs d, d)) /\
  (forall k, unique_dim cs = Err k -> infer_e (SAdd l) = Err k).
Proof. intros H. cbn [infer_e]. rewrite H. split; intros x ->; reflexivity. Qed.

Theorem infer_minmax_spec l cs (ismin : bool) :
  classify infer_e l = Ok cs ->
  (forall d, unique_dim cs = Ok d -> infer_e (if ismin then SMin l else SMax l) = Ok (VSym, d)) /\
  (forall k, unique_dim cs = Err k -> infer_e (if ismin then SMin l else SMax l) = Err k).
Proof. intros H. destruct ismin; cbn [infer_e]; rewrite H; split; intros x ->; reflexivity. Qed.

Theorem infer_child_error l k :
  classify infer_e l = Err k ->
  infer_e (SAdd l) = Err k /\ infer_e (SMul l) = Err k /\ infer_e (SMin l) = Err k /\ infer_e (SMax l) = Err k.
Proof. intros H. cbn [infer_e]. rewrite H. auto. Qed.

(* products multiply: with a quantity/number part that is not of any dimension, the dimension is the product of the
   dimensions of the quantities and of the symbolic factors; a product is never refused by itself *)
Theorem infer_mul_spec l cs :
  classify infer_e l = Ok cs ->
  infer_e (SMul l) = Ok (mul_of cs) /\
  (is_any (fold_left vmul (map fst (qtys_of cs)) (fold_left vmul (nums_of cs) (VQ 1))) = false ->
   snd (mul_of cs) =
   fold_left dmul (map snd (syms_of cs))
     (fold_left (fun d q => if is_any (fst q) then d else dmul d (snd q)) (qtys_of cs) dzero)).
Proof.
  intros H. cbn [infer_e]. rewrite H. split; [reflexivity|]. intros Hn. unfold mul_of. rewrite Hn. reflexivity.
Qed.

(* powers: refused exactly when the exponent is neither of any dimension nor dimensionless; a bare quantity in the
   exponent stands for its value *)
Definition exp_value (x : sexpr) (xv : val) : val := match x with SQty v _ => v | _ => xv end.

Theorem infer_pow_spec b x xv xd :
  infer_e x = Ok (xv, xd) ->
  (is_any xv = false -> dimensionless xd = false -> infer_e (SPow b x) = Err E_VALUE) /\
  (is_any xv = true \/ dimensionless xd = true ->
     forall bv bd d, infer_e b = Ok (bv, bd) -> dim_pow_expr bd (exp_value x xv) = Some d ->
     exists v, infer_e (SPow b x) = Ok (v, d)).
Proof.
  intros Hx. cbn [infer_e]. rewrite Hx. split.
  - intros H1 H2. rewrite H1, H2. reflexivity.
  - intros H bv bd d Hb Hd. unfold exp_value in Hd.
    assert (Hc : negb (is_any xv) && negb (dimensionless xd) = false).
    { destruct H as [H|H]; rewrite H; cbn; [reflexivity | apply andb_false_r]. }
    rewrite Hc, Hb, Hd. eexists; reflexivity.
Qed.

Lemma dpow_dimensionless bd q : dimensionless bd = true -> deq bd (dpow bd q).
Proof.
  intro E. apply dimensionless_iff in E. unfold dpow.
  revert E. generalize (length bd). intros n E.
  revert n E. induction bd as [|a r IH]; intros n E; cbn.
  - constructor.
  - destruct n; inversion E; subst. constructor; [rewrite H2; ring | eapply IH; eassumption].
Qed.

Theorem infer_pow_rational b x bv bd q :
  infer_e x = Ok (VQ q, dzero) -> infer_e b = Ok (bv, bd) ->
  exists v d, infer_e (SPow b x) = Ok (v, d) /\ deq d (dpow bd q).
Proof.
  intros Hx Hb.
  assert (Hnq : (match x with SQty v _ => v | _ => VQ q end) = VQ q).
  { destruct x; try reflexivity. cbn [infer_e] in Hx. discriminate. }
  cbn [infer_e]. rewrite Hx.
  assert (Hz : dimensionless dzero = true) by (vm_compute; reflexivity). rewrite Hz. cbn [negb andb].
  rewrite andb_false_r, Hb, Hnq. unfold dim_pow_expr.
  destruct (dimensionless bd) eqn:E.
  - eexists; eexists. split; [reflexivity|]. apply dpow_dimensionless; exact E.
  - eexists; eexists. split; [reflexivity | apply deq_refl].
Qed.

(* ... and the same when the exponent is a bare dimensionless quantity of value q *)
Theorem infer_pow_quantity b bv bd q xd :
  dimensionless xd = true -> infer_e b = Ok (bv, bd) ->
  exists v d, infer_e (SPow b (SQty (VQ q) xd)) = Ok (v, d) /\ deq d (dpow bd q).
Proof.
  intros Hd Hb. cbn [infer_e]. rewrite Hd. cbn [negb andb]. rewrite andb_false_r, Hb. unfold dim_pow_expr.
  destruct (dimensionless bd) eqn:E.
  - eexists; eexists. split; [reflexivity|]. apply dpow_dimensionless; exact E.
  - eexists; eexists. split; [reflexivity | apply deq_refl].
Qed.

(* a derivative divides by the dimensions of its variables *)
Theorem infer_deriv_single fd z a n av ad :
  infer_e a = Ok (av, ad) ->
  infer_e (SDeriv fd z [(a, n)]) = Ok (if z then VQ 0 else VSym, ddiv fd (dpow ad n)).
Proof. intros H. cbn [infer_e]. rewrite H. reflexivity. Qed.

Theorem infer_deriv_two fd z a n av ad a' n' av' ad' :
  infer_e a = Ok (av, ad) -> infer_e a' = Ok (av', ad') ->
  infer_e (SDeriv fd z [(a, n); (a', n')]) = Ok (if z then VQ 0 else VSym, ddiv (ddiv fd (dpow ad n)) (dpow ad' n')).
Proof. intros H H'. cbn [infer_e]. rewrite H, H'. reflexivity. Qed.

(* an applied function takes its declared dimension; its arguments are only required to be inferable *)
Theorem infer_fun_spec d l :
  Forall (fun a => exists r, infer_e a = Ok r) l -> infer_e (SFun d l) = Ok (VSym, d).
Proof.
  intros H. cbn [infer_e]. induction H as [|a r [x Hx] Hr IH]; [reflexivity|]. rewrite Hx. exact IH.
Qed.

Theorem infer_leaves v d :
  infer_e (SQty v d) = Ok (VSym, d) /\ infer_e (SDimSym d) = Ok (VSym, d) /\
  infer_e (SNum v) = Ok (v, dzero) /\ infer_e SPlain = Ok (VSym, dzero).
Proof. repeat split; reflexivity. Qed.

(* ---- the historical witness: a zero quantity listed first must not fix the dimension ------------- *)
Definition e_length : dim := base 0.
Definition e_time : dim := base 2.

Example zero_first_accepted :
  infer_e (SAdd [SQty (VQ 0) e_length; SDimSym e_time]) = Ok (VSym, e_time) /\
  infer_e (SAdd [SQty (VQ 0) e_length; SQty (VQ 5) e_time; SDimSym e_time]) = Ok (VSym, e_time) /\
  infer_e (SAdd [SQty (VQ 3) e_length; SDimSym e_time]) = Err E_UNITS /\
  infer_e (SAdd [SNum (VQ 2); SDimSym e_length]) = Err E_UNITS /\
  infer_e (SAdd [SNum (VQ 0); SDimSym e_length]) = Ok (VSym, e_length).
Proof. vm_compute. repeat split; reflexivity. Qed.
