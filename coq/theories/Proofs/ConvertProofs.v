(* Lemmas about Model/Convert.v (C07). *)
From Coq Require Import List QArith ZArith Bool NArith Qabs Qround Qpower Lia Setoid Qfield.
From VP Require Import Base.Util Base.Dim Base.Val Model.CollectQ Model.Gate Model.Convert Proofs.DimProofs.
Import ListNotations.
Local Open Scope Q_scope.

(* ------------------------------------------------------------------------------------------------ *)
(* small facts                                                                                       *)
(* ------------------------------------------------------------------------------------------------ *)

Lemma qzero_true q : qzero q = true <-> q == 0.
Proof. unfold qzero. apply Qeq_bool_iff. Qed.

Lemma qzero_false q : qzero q = false <-> ~ q == 0.
Proof.
  unfold qzero. split.
  - intros H E. apply Qeq_bool_iff in E. congruence.
  - intros H. destruct (Qeq_bool q 0) eqn:E; [|reflexivity]. apply Qeq_bool_iff in E. contradiction.
Qed.

Lemma vdiv_VQ a b n : vdiv (VQ a) (VQ b) = VQ n -> ~ b == 0 /\ n * b == a.
Proof.
  unfold vdiv. cbn [vzero]. destruct (qzero b) eqn:Eb.
  - destruct (qzero a); discriminate.
  - intros H. assert (E : Qred (a / b) = n) by congruence. rewrite <- E. clear H E.
    apply qzero_false in Eb. split; [exact Eb|].
    rewrite Qred_correct. field. exact Eb.
Qed.

Lemma vdiv_VQ_nonzero a b : ~ b == 0 -> vdiv (VQ a) (VQ b) = VQ (Qred (a / b)).
Proof. intros H. apply qzero_false in H. unfold vdiv. cbn [vzero]. rewrite H. reflexivity. Qed.

(* the gate as convert_to calls it: actual = a quantity, expected = a Dimension *)
Definition gate_qd (sv : val) (dv du : dim) : verdict := gate1 (GExpr (QQty sv dv)) (GDim du).

Lemma gate_qd_unfold sv dv du :
  gate_qd sv dv du =
    if negb (is_number sv) then Some E_UNITS
    else if is_any sv || is_anydim_instance dv then None
    else if dimensionless (erase_angle dv) && negb (dimensionless (erase_angle du)) then Some E_TYPE
    else if equivalent_dims (erase_angle dv) (erase_angle du) then None else Some E_UNITS.
Proof.
  unfold gate_qd, gate1. cbn [collect].
  destruct (negb (is_number sv)); [reflexivity|].
  destruct (is_any sv || is_anydim_instance dv); reflexivity.
Qed.

Lemma dimensionless_mismatch a b :
  dimensionless a = true -> dimensionless b = false -> deqb a b = false.
Proof.
  intros Ha Hb. destruct (deqb a b) eqn:E; [|reflexivity].
  apply deqb_deq, dimensionless_deq in E. congruence.
Qed.

(* the quantity matches everything: zero / infinite / NaN magnitude, or the any_dimension wildcard *)
Definition wild (sv : val) (dv : dim) : bool := is_any sv || is_anydim_instance dv.

(* the gate passes exactly for wildcards and for dimensions equivalent after angle erasure *)
Lemma gate_qd_pass_iff sv dv du :
  is_number sv = true ->
  (gate_qd sv dv du = None <-> wild sv dv = true \/ deq (erase_angle dv) (erase_angle du)).
Proof.
  intros Hn. rewrite gate_qd_unfold, Hn. cbn [negb]. unfold wild.
  destruct (is_any sv || is_anydim_instance dv); [split; auto|].
  destruct (dimensionless (erase_angle dv) && negb (dimensionless (erase_angle du))) eqn:E.
  - apply andb_true_iff in E as [E1 E2]. apply negb_true_iff in E2.
    pose proof (dimensionless_mismatch _ _ E1 E2) as F.
    split; [discriminate|]. intros [H|H]; [discriminate|]. apply deqb_deq in H. congruence.
  - unfold equivalent_dims. destruct (deqb (erase_angle dv) (erase_angle du)) eqn:F.
    + split; [intros _; right; apply deqb_deq; exact F | reflexivity].
    + split; [discriminate|]. intros [H|H]; [discriminate|]. apply deqb_deq in H. congruence.
Qed.

Lemma convert_core_ok sv dv su du r :
  convert_core sv dv su du = Ok r <-> gate_qd sv dv du = None /\ r = vdiv sv su.
Proof.
  unfold convert_core. fold (gate_qd sv dv du). destruct (gate_qd sv dv du).
  - split; [discriminate | intros [H _]; discriminate].
  - split; [intros H; inversion H; auto | intros [_ H]; subst; reflexivity].
Qed.

(* ------------------------------------------------------------------------------------------------ *)
(* convert_spec: the returned number n satisfies  n * unit = quantity                                *)
(* ------------------------------------------------------------------------------------------------ *)

Lemma convert_core_spec a dv b du n :
  convert_core (VQ a) dv (VQ b) du = Ok (VQ n) ->
  ~ b == 0 /\ n * b == a /\ (wild (VQ a) dv = true \/ deq (erase_angle dv) (erase_angle du)).
Proof.
  intros H. apply convert_core_ok in H as [Hg Hr]. symmetry in Hr. apply vdiv_VQ in Hr as [Hb Hn].
  split; [exact Hb|]. split; [exact Hn|]. apply gate_qd_pass_iff in Hg; [exact Hg | reflexivity].
Qed.

Lemma convert_to_inv value target r :
  convert_to value target = Ok r ->
  exists sv dv su du, as_quantity value = Ok (sv, dv) /\ as_quantity target = Ok (su, du) /\
                      convert_core sv dv su du = Ok r.
Proof.
  unfold convert_to. destruct (as_quantity value) as [[sv dv]|]; [|discriminate].
  destruct (as_quantity target) as [[su du]|]; [|discriminate].
  intros H. exists sv, dv, su, du. auto.
Qed.

Theorem convert_spec value target n a dv b du :
  as_quantity value = Ok (VQ a, dv) -> as_quantity target = Ok (VQ b, du) ->
  convert_to value target = Ok (VQ n) ->
  n * b == a /\ ~ b == 0 /\ (wild (VQ a) dv = true \/ deq (erase_angle dv) (erase_angle du)).
Proof.
  intros Hv Ht H. unfold convert_to in H. rewrite Hv, Ht in H.
  apply convert_core_spec in H as (H1 & H2 & H3). auto.
Qed.

(* ------------------------------------------------------------------------------------------------ *)
(* convert_refuses_iff                                                                               *)
(* ------------------------------------------------------------------------------------------------ *)

Theorem convert_refuses_iff value target sv dv su du :
  as_quantity value = Ok (sv, dv) -> as_quantity target = Ok (su, du) -> is_number sv = true ->
  ((exists k, convert_to value target = Err k) <->
   wild sv dv = false /\ ~ deq (erase_angle dv) (erase_angle du)).
Proof.
  intros Hv Ht Hn. unfold convert_to. rewrite Hv, Ht. unfold convert_core. fold (gate_qd sv dv du).
  pose proof (gate_qd_pass_iff sv dv du Hn) as P.
  destruct (gate_qd sv dv du) as [k|].
  - split.
    + intros _. split.
      * destruct (wild sv dv) eqn:W; [|reflexivity]. destruct P as [_ P]. discriminate P. auto.
      * intros D. destruct P as [_ P]. discriminate P. auto.
    + intros _. exists k. reflexivity.
  - split.
    + intros [k H]. discriminate.
    + intros [W D]. destruct P as [P _]. destruct (P eq_refl) as [H|H]; [congruence | contradiction].
Qed.

(* the refusal is a units error, or a type error when the value is dimensionless and the unit is not *)
Lemma convert_refusal_class sv dv su du k :
  is_number sv = true -> convert_core sv dv su du = Err k -> k = E_UNITS \/ k = E_TYPE.
Proof.
  intros Hn. unfold convert_core. fold (gate_qd sv dv du). rewrite gate_qd_unfold, Hn. cbn [negb].
  destruct (is_any sv || is_anydim_instance dv); [discriminate|].
  destruct (dimensionless (erase_angle dv) && negb (dimensionless (erase_angle du))).
  - intros H; inversion H; auto.
  - destruct (equivalent_dims (erase_angle dv) (erase_angle du)); [discriminate|]. intros H; inversion H; auto.
Qed.

(* ------------------------------------------------------------------------------------------------ *)
(* convert_compose                                                                                   *)
(* ------------------------------------------------------------------------------------------------ *)

Lemma convert_core_compose a da b db c dc x y :
  is_anydim_instance db = false ->
  convert_core (VQ a) da (VQ b) db = Ok (VQ x) ->
  convert_core (VQ b) db (VQ c) dc = Ok (VQ y) ->
  exists z, convert_core (VQ a) da (VQ c) dc = Ok (VQ z) /\ z == x * y.
Proof.
  intros Hb H1 H2.
  apply convert_core_spec in H1 as (Hb0 & Hx & G1).
  apply convert_core_spec in H2 as (Hc0 & Hy & G2).
  exists (Qred (a / c)). split.
  - apply convert_core_ok. split; [|symmetry; apply vdiv_VQ_nonzero; exact Hc0].
    apply gate_qd_pass_iff; [reflexivity|].
    destruct G1 as [G1|G1]; [left; exact G1|].
    destruct G2 as [G2|G2].
    + unfold wild in G2. rewrite Hb, orb_false_r in G2. cbn [is_any] in G2. apply qzero_true in G2. contradiction.
    + right. eapply deq_trans; eassumption.
  - rewrite Qred_correct. rewrite <- Hx, <- Hy. field. exact Hc0.
Qed.

Theorem convert_compose A B C a da b db c dc x y :
  as_quantity A = Ok (VQ a, da) -> as_quantity B = Ok (VQ b, db) -> as_quantity C = Ok (VQ c, dc) ->
  is_anydim_instance db = false ->
  convert_to A B = Ok (VQ x) -> convert_to B C = Ok (VQ y) ->
  exists z, convert_to A C = Ok (VQ z) /\ z == x * y.
Proof.
  intros HA HB HC Hw H1 H2. unfold convert_to in *. rewrite HA, HB in H1. rewrite HB, HC in H2. rewrite HA, HC.
  eapply convert_core_compose; eassumption.
Qed.

(* invertibility: converting back gives the reciprocal *)
Theorem convert_inverse A B a da b db x :
  as_quantity A = Ok (VQ a, da) -> as_quantity B = Ok (VQ b, db) ->
  is_anydim_instance da = false -> ~ a == 0 ->
  convert_to A B = Ok (VQ x) ->
  exists y, convert_to B A = Ok (VQ y) /\ x * y == 1.
Proof.
  intros HA HB Hw Ha H. unfold convert_to in *. rewrite HA, HB in H. rewrite HB, HA.
  apply convert_core_spec in H as (Hb0 & Hx & G).
  exists (Qred (b / a)). split.
  - apply convert_core_ok. split; [|symmetry; apply vdiv_VQ_nonzero; exact Ha].
    apply gate_qd_pass_iff; [reflexivity|]. right.
    destruct G as [G|G].
    + unfold wild in G. rewrite Hw, orb_false_r in G. cbn [is_any] in G. apply qzero_true in G. contradiction.
    + apply deq_sym. exact G.
  - rewrite Qred_correct. rewrite <- Hx. field. split; [exact Hb0|].
    intros E. apply Ha. rewrite <- Hx, E. ring.
Qed.

(* the wildcard dimension is not transitive: why convert_compose excludes it for the middle unit *)
Example convert_compose_wildcard_caveat :
  exists a da b db c dc,
    convert_core (VQ a) da (VQ b) db = Ok (VQ 1) /\ convert_core (VQ b) db (VQ c) dc = Ok (VQ 1) /\
    convert_core (VQ a) da (VQ c) dc = Err E_UNITS.
Proof.
  exists 1, (set_nth ANGLE 1 any_dimension), 1, any_dimension, 1, (base 0). vm_compute. auto.
Qed.

(* ------------------------------------------------------------------------------------------------ *)
(* linearity                                                                                         *)
(* ------------------------------------------------------------------------------------------------ *)

Theorem convert_linear_scale k a dv b du x x' :
  convert_core (VQ a) dv (VQ b) du = Ok (VQ x) ->
  convert_core (VQ (k * a)) dv (VQ b) du = Ok (VQ x') ->
  x' == k * x.
Proof.
  intros H1 H2. apply convert_core_spec in H1 as (Hb & Hx & _). apply convert_core_spec in H2 as (_ & Hx' & _).
  assert (E : x' * b == (k * x) * b) by (rewrite Hx', <- Hx; ring).
  apply Qmult_inj_r in E; assumption.
Qed.

Theorem convert_linear_add a1 a2 dv b du x1 x2 x :
  convert_core (VQ a1) dv (VQ b) du = Ok (VQ x1) ->
  convert_core (VQ a2) dv (VQ b) du = Ok (VQ x2) ->
  convert_core (VQ (a1 + a2)) dv (VQ b) du = Ok (VQ x) ->
  x == x1 + x2.
Proof.
  intros H1 H2 H3. apply convert_core_spec in H1 as (Hb & Hx1 & _). apply convert_core_spec in H2 as (_ & Hx2 & _).
  apply convert_core_spec in H3 as (_ & Hx & _).
  assert (E : x * b == (x1 + x2) * b) by (rewrite Hx, <- Hx1, <- Hx2; ring).
  apply Qmult_inj_r in E; assumption.
Qed.

(* a non-zero multiple of a quantity is convertible exactly when the quantity is (magnitude irrelevance) *)
Theorem convert_scale_verdict k a dv b du :
  ~ k == 0 -> ~ a == 0 ->
  (exists x, convert_core (VQ a) dv (VQ b) du = Ok x) <-> (exists x, convert_core (VQ (k * a)) dv (VQ b) du = Ok x).
Proof.
  intros Hk Ha.
  assert (Hka : ~ k * a == 0).
  { intros E. apply Qmult_integral in E. tauto. }
  assert (W : wild (VQ (k * a)) dv = wild (VQ a) dv).
  { unfold wild. cbn [is_any]. apply qzero_false in Ha. apply qzero_false in Hka. rewrite Ha, Hka. reflexivity. }
  split; intros [x H]; apply convert_core_ok in H as [G _]; eexists; apply convert_core_ok; (split; [|reflexivity]);
    (apply gate_qd_pass_iff; [reflexivity|]); (apply gate_qd_pass_iff in G; [|reflexivity]).
  - rewrite W. exact G.
  - rewrite <- W. exact G.
Qed.

(* ------------------------------------------------------------------------------------------------ *)
(* Celsius                                                                                           *)
(* ------------------------------------------------------------------------------------------------ *)

Theorem celsius_roundtrip off c : from_kelvin off (to_kelvin off c) == c.
Proof. unfold from_kelvin, to_kelvin. ring. Qed.

Theorem kelvin_roundtrip off k : to_kelvin off (from_kelvin off k) == k.
Proof. unfold from_kelvin, to_kelvin. ring. Qed.

Theorem celsius_offset off c : to_kelvin off c - c == off.
Proof. unfold to_kelvin. ring. Qed.

Lemma dmul_dzero_l d : wf_dim d -> deq (dmul dzero d) d.
Proof.
  unfold wf_dim. intros H.
  do 10 (destruct d as [|? d]; try discriminate H). cbn.
  repeat constructor; ring.
Qed.

(* through quantities: Celsius -> kelvin quantity -> Celsius, for EVERY temperature (absolute zero included: the
   explicit dimension=units.temperature keeps the dimension that a zero factor would otherwise lose) *)
Theorem celsius_quantity_roundtrip off ks kd td c :
  ~ ks == 0 -> deqb td kd = true ->
  exists sv dv, to_kelvin_quantity off (VQ ks) kd td c = Ok (sv, dv) /\
    exists c', from_kelvin_quantity off (VQ ks) kd sv dv = Ok (VQ c') /\ c' == c.
Proof.
  intros Hks Htd.
  unfold to_kelvin_quantity, quantity_ctor, to_kelvin. cbn [collect mul_go is_number].
  unfold mul_step. cbn [fst snd vmul].
  assert (R : exists dv0, (if is_any (VQ (Qred ((c + off) * ks))) then (VQ (Qred ((c + off) * ks)), dzero)
                           else (VQ (Qred ((c + off) * ks)), dmul dzero kd)) = (VQ (Qred ((c + off) * ks)), dv0)).
  { destruct (is_any (VQ (Qred ((c + off) * ks)))); eexists; reflexivity. }
  destruct R as [dv0 R]. rewrite R. cbn [complex_ok].
  eexists _, _. split; [reflexivity|].
  unfold from_kelvin_quantity. rewrite Htd. rewrite vdiv_VQ_nonzero by exact Hks.
  eexists. split; [reflexivity|].
  rewrite Qred_correct. unfold from_kelvin. rewrite !Qred_correct. field. exact Hks.
Qed.

(* absolute zero: 0 K keeps the temperature dimension and converts back to -273.15 *)
Example ex_celsius_absolute_zero :
  to_kelvin_quantity (27315 # 100) (VQ 1) (base TEMPERATURE) (base TEMPERATURE) (- (27315 # 100)) = Ok (VQ 0, base TEMPERATURE) /\
  from_kelvin_quantity (27315 # 100) (VQ 1) (base TEMPERATURE) (VQ 0) (base TEMPERATURE) = Ok (VQ (-5463 # 20)).   (* = -273.15, reduced *)
Proof. vm_compute. split; reflexivity. Qed.

(* without the explicit dimension the zero quantity is dimensionless and is refused (the defect repaired in d2bd6de) *)
Example ex_celsius_absolute_zero_without_override :
  quantity_ctor (QMul [QNum (VQ 0); QQty (VQ 1) (base TEMPERATURE)]) None = Ok (VQ 0, dzero) /\
  from_kelvin_quantity (27315 # 100) (VQ 1) (base TEMPERATURE) (VQ 0) dzero = Err E_TYPE.
Proof. vm_compute. split; reflexivity. Qed.

(* ------------------------------------------------------------------------------------------------ *)
(* convert_to_si                                                                                     *)
(* ------------------------------------------------------------------------------------------------ *)

(* "converting to the quantity's own SI unit returns its scale factor": in SymPy's gram-based table the
   statement that holds is  x * scale(si_unit(dim q)) = scale q  (the kilogram has scale 1000). *)
Theorem convert_self_si tbl a d x s du :
  quantity_ctor (si_unit_expr tbl d) None = Ok (VQ s, du) ->
  convert_to_si tbl (CQ (VQ a) d) = Ok (VQ x) ->
  x * s == a /\ ~ s == 0.
Proof.
  intros Hu H. unfold convert_to_si in H. cbn [as_quantity] in H.
  unfold convert_to in H. cbn [as_quantity] in H. rewrite Hu in H.
  apply convert_core_spec in H as (H1 & H2 & _). auto.
Qed.

(* ------------------------------------------------------------------------------------------------ *)
(* the SI unit of a dimension, convert_to_si, evaluate_expression                                    *)
(* ------------------------------------------------------------------------------------------------ *)

(* ---- integers among rationals ---- *)
Lemma is_int_spec x : is_int x = true <-> x == inject_Z (Qfloor x).
Proof. unfold is_int. apply Qeq_bool_iff. Qed.

Lemma is_int_comp x y : x == y -> is_int x = is_int y.
Proof.
  intros E. unfold is_int. rewrite (Qfloor_comp _ _ E).
  destruct (Qeq_bool x (inject_Z (Qfloor y))) eqn:A; symmetry.
  - apply Qeq_bool_iff. apply Qeq_bool_iff in A. transitivity x; [symmetry; exact E | exact A].
  - destruct (Qeq_bool y (inject_Z (Qfloor y))) eqn:B; [|reflexivity].
    apply Qeq_bool_iff in B. assert (C : x == inject_Z (Qfloor y)) by (transitivity y; assumption).
    apply Qeq_bool_iff in C. congruence.
Qed.

Lemma is_int_Z z : is_int (inject_Z z) = true.
Proof. apply is_int_spec. rewrite Qfloor_Z. reflexivity. Qed.

Lemma Qfloor_plus_int x y : is_int x = true -> is_int y = true ->
  Qfloor (x + y) = (Qfloor x + Qfloor y)%Z /\ is_int (x + y) = true.
Proof.
  intros Hx Hy. apply is_int_spec in Hx. apply is_int_spec in Hy.
  assert (E : x + y == inject_Z (Qfloor x + Qfloor y)) by (rewrite inject_Z_plus, <- Hx, <- Hy; reflexivity).
  split.
  - rewrite (Qfloor_comp _ _ E). apply Qfloor_Z.
  - rewrite (is_int_comp _ _ E). apply is_int_Z.
Qed.

Lemma Qfloor_mult_int x y : is_int x = true -> is_int y = true ->
  Qfloor (x * y) = (Qfloor x * Qfloor y)%Z /\ is_int (x * y) = true.
Proof.
  intros Hx Hy. apply is_int_spec in Hx. apply is_int_spec in Hy.
  assert (E : x * y == inject_Z (Qfloor x * Qfloor y)) by (rewrite inject_Z_mult, <- Hx, <- Hy; reflexivity).
  split.
  - rewrite (Qfloor_comp _ _ E). apply Qfloor_Z.
  - rewrite (is_int_comp _ _ E). apply is_int_Z.
Qed.

Lemma is_int_0 : is_int 0 = true.
Proof. reflexivity. Qed.

(* ---- b ** e for a non-zero rational base and an integer exponent (the only fact used about Val.vpow) ---- *)
Lemma vpow_int s y : ~ s == 0 -> is_int y = true ->
  exists q, vpow (VQ s) (VQ y) = VQ q /\ q == Qpower s (Qfloor y) /\ ~ q == 0.
Proof.
  intros Hs Hy. unfold vpow.
  destruct (qzero y) eqn:Ey.
  - exists 1. split; [reflexivity|]. apply qzero_true in Ey. rewrite (Qfloor_comp _ _ Ey). cbn. split; [reflexivity | discriminate].
  - destruct (Qeq_bool s 1) eqn:E1.
    + exists 1. split; [reflexivity|]. apply Qeq_bool_iff in E1. rewrite E1, Qpower_1. split; [reflexivity | discriminate].
    + rewrite Hy. apply qzero_false in Hs. rewrite Hs. cbn [andb].
      eexists. split; [reflexivity|]. rewrite Qred_correct. split; [reflexivity|].
      apply Qpower_not_0. apply qzero_false. exact Hs.
Qed.

Lemma vpow_Z s z q : vpow (VQ s) (VQ (inject_Z z)) = VQ q -> q == Qpower s z.
Proof.
  unfold vpow. destruct (qzero (inject_Z z)) eqn:Ez.
  - intros H. assert (E : 1 = q) by congruence. subst q. apply qzero_true in Ez.
    assert (z = 0%Z) by (rewrite <- (Qfloor_Z z), (Qfloor_comp _ _ Ez); reflexivity). subst z. reflexivity.
  - destruct (Qeq_bool s 1) eqn:E1.
    + intros H. assert (E : 1 = q) by congruence. subst q. apply Qeq_bool_iff in E1. rewrite E1, Qpower_1. reflexivity.
    + rewrite is_int_Z. destruct (qzero s && (Qnum (inject_Z z) <? 0)%Z); [discriminate|].
      intros H. assert (E : Qred (s ^ Qfloor (inject_Z z)) = q) by congruence. subst q.
      rewrite Qred_correct, Qfloor_Z. reflexivity.
Qed.

(* ---- the SI scale of a dimension as a rational number ---- *)
Definition int_dim (d : dim) : Prop := Forall (fun x => is_int x = true) d.

Definition row_scale (r : si_row) : Q := match fst r with VQ s => s | _ => 0 end.
Definition scales (tbl : list si_row) : list Q := map row_scale tbl.

Fixpoint sisQ (ss : list Q) (d : dim) : Q :=
  match ss, d with
  | s :: ss', x :: d' => Qpower s (Qfloor x) * sisQ ss' d'
  | _, _ => 1
  end.

Definition nonzeros (ss : list Q) : Prop := Forall (fun s => ~ s == 0) ss.

Lemma sisQ_nonzero ss d : nonzeros ss -> ~ sisQ ss d == 0.
Proof.
  intros H; revert d; induction H as [|s ss Hs H IH]; intros [|x d]; cbn; try discriminate.
  intros E. apply Qmult_integral in E as [E|E].
  - revert E. apply Qpower_not_0. exact Hs.
  - revert E. apply IH.
Qed.

Lemma sisQ_deq ss a b : deq a b -> sisQ ss a = sisQ ss b.
Proof.
  intros H; revert ss; induction H as [|x y a b Hxy Hab IH]; intros [|s ss]; cbn; try reflexivity.
  rewrite (Qfloor_comp _ _ Hxy), IH. reflexivity.
Qed.

Lemma int_dim_deq a b : deq a b -> int_dim a -> int_dim b.
Proof.
  intros H; induction H as [|x y a b Hxy Hab IH]; intros Ha; [constructor|].
  inversion Ha; subst. constructor; [rewrite <- (is_int_comp _ _ Hxy); assumption | apply IH; assumption].
Qed.

Lemma sisQ_dmul ss a b : nonzeros ss -> int_dim a -> int_dim b -> length a = length b ->
  sisQ ss (dmul a b) == sisQ ss a * sisQ ss b.
Proof.
  intros Hs; revert a b; induction Hs as [|s ss Hs0 Hs IH]; intros a b Ha Hb Hl.
  - destruct (dmul a b), a, b; cbn; ring.
  - destruct a as [|x a], b as [|y b]; cbn [sisQ dmul map2 length] in *; try discriminate; try ring.
    inversion Ha; subst. inversion Hb; subst.
    destruct (Qfloor_plus_int x y) as [E _]; try assumption.
    unfold dmul in IH. rewrite E, Qpower_plus by exact Hs0. rewrite IH; try assumption; [ring | congruence].
Qed.

Lemma int_dim_dmul a b : int_dim a -> int_dim b -> int_dim (dmul a b).
Proof.
  intros Ha; revert b; induction Ha as [|x a Hx Ha IH]; intros b Hb; cbn [dmul map2]; [constructor|].
  destruct Hb as [|y b Hy Hb]; constructor.
  - apply Qfloor_plus_int; assumption.
  - apply IH. exact Hb.
Qed.

Lemma int_dim_dpow a z : int_dim a -> int_dim (dpow a (inject_Z z)).
Proof.
  intros Ha; induction Ha as [|x a Hx Ha IH]; cbn [dpow map]; constructor; [|exact IH].
  apply Qfloor_mult_int; [assumption | apply is_int_Z].
Qed.

Lemma sisQ_dpow ss a z : int_dim a -> sisQ ss (dpow a (inject_Z z)) == Qpower (sisQ ss a) z.
Proof.
  revert a; induction ss as [|s ss IH]; intros a Ha.
  - destruct a; cbn; rewrite Qpower_1; reflexivity.
  - destruct a as [|x a]; cbn [sisQ dpow map]; [rewrite Qpower_1; reflexivity|].
    inversion Ha; subst.
    destruct (Qfloor_mult_int x (inject_Z z)) as [E _]; [assumption | apply is_int_Z |].
    unfold dpow in IH. rewrite E, Qfloor_Z, Qpower_mult, IH by assumption.
    rewrite Qmult_power. reflexivity.
Qed.

Lemma sisQ_dimensionless ss d : dimensionless d = true -> sisQ ss d == 1.
Proof.
  unfold dimensionless. revert ss; induction d as [|x d IH]; intros [|s ss] H; cbn; try reflexivity.
  cbn in H. apply andb_true_iff in H as [H1 H2]. apply Qeq_bool_iff in H1.
  rewrite (Qfloor_comp _ _ H1), IH by exact H2. cbn. ring.
Qed.

Lemma sisQ_dzero ss : sisQ ss dzero == 1.
Proof. apply sisQ_dimensionless. reflexivity. Qed.

Lemma int_dim_dzero : int_dim dzero.
Proof. repeat constructor. Qed.

(* ---- collect (dimension_to_si_unit d) ---- *)
Lemma dimensionless_dzero : dimensionless dzero = true.
Proof. reflexivity. Qed.

Lemma collect_si_factor s dd e : dimensionless dd = false ->
  collect (si_factor (VQ s, dd) e) = Ok (vpow (VQ s) (VQ e), dpow dd e).
Proof.
  intros H. unfold si_factor. cbn [collect fst snd is_number].
  rewrite dimensionless_dzero, orb_true_r. unfold dim_pow_val. rewrite H. reflexivity.
Qed.

Definition good_row (r : si_row) : Prop := exists s, fst r = VQ s /\ ~ s == 0 /\ dimensionless (snd r) = false.

Lemma vmul_VQ_nonzero a b : ~ a == 0 -> ~ b == 0 ->
  vmul (VQ a) (VQ b) = VQ (Qred (a * b)) /\ is_any (VQ (Qred (a * b))) = false.
Proof.
  intros Ha Hb. split; [reflexivity|]. cbn [is_any]. apply qzero_false. rewrite Qred_correct.
  intros E. apply Qmult_integral in E. tauto.
Qed.

Lemma mul_go_si rows : forall exps acc_s acc_d,
  Forall good_row rows -> int_dim exps -> ~ acc_s == 0 ->
  exists s, mul_go collect (Ok (VQ acc_s, acc_d)) (map2 si_factor rows exps) =
              Ok (VQ s, fold_left dmul (map2 (fun r e => dpow (snd r) e) rows exps) acc_d)
            /\ s == acc_s * sisQ (scales rows) exps /\ ~ s == 0.
Proof.
  induction rows as [|r rows IH]; intros exps acc_s acc_d Hr He Ha.
  - exists acc_s. cbn [map2 mul_go fold_left scales map sisQ]. split; [reflexivity|]. split; [ring | exact Ha].
  - destruct exps as [|e exps].
    + exists acc_s. cbn [map2 mul_go fold_left scales map sisQ]. split; [reflexivity|]. split; [ring | exact Ha].
    + inversion Hr as [|? ? Hg Hr']; subst. inversion He as [|? ? He0 He']; subst.
      destruct Hg as (s & Hs & Hs0 & Hd). destruct r as [rv rd]. cbn [fst snd] in *. subst rv.
      cbn [map2 mul_go]. rewrite collect_si_factor by exact Hd.
      destruct (vpow_int s e Hs0 He0) as (q & Hq & Hqv & Hq0). rewrite Hq.
      unfold mul_step. cbn [fst snd].
      destruct (vmul_VQ_nonzero acc_s q Ha Hq0) as [Hm Hany]. rewrite Hm, Hany.
      assert (Ha' : ~ Qred (acc_s * q) == 0).
      { rewrite Qred_correct. intros E. apply Qmult_integral in E. tauto. }
      destruct (IH exps (Qred (acc_s * q)) (dmul acc_d (dpow rd e)) Hr' He' Ha') as (s' & H1 & H2 & H3).
      exists s'. split; [exact H1|]. split; [|exact H3].
      rewrite H2, Qred_correct, Hqv. unfold scales. cbn [map sisQ row_scale fst]. ring.
Qed.

Lemma fold_left_dmul_deq L L' : Forall2 deq L L' -> forall a a', deq a a' ->
  deq (fold_left dmul L a) (fold_left dmul L' a').
Proof.
  induction 1 as [|x y L L' Hxy HL IH]; intros a a' Ha; cbn [fold_left]; [exact Ha|].
  apply IH. apply dmul_deq; assumption.
Qed.

Definition si_dim (d : dim) : dim := firstn 7 d ++ [0; 0].

Lemma table_ok_from_spec tbl : forall i, table_ok_from i tbl = true ->
  Forall2 (fun r j => exists s, fst r = VQ s /\ ~ s == 0 /\ deq (snd r) (base j)) tbl (seq i (length tbl)).
Proof.
  induction tbl as [|r tbl IH]; intros i H; cbn [length seq]; [constructor|].
  destruct r as [[s| | | | | | |] dd]; cbn [table_ok_from] in H; try discriminate.
  apply andb_true_iff in H as [H H3]. apply andb_true_iff in H as [H1 H2].
  constructor; [|apply IH; exact H3].
  exists s. cbn [fst snd]. split; [reflexivity|]. split.
  - apply qzero_false. destruct (qzero s); [discriminate | reflexivity].
  - apply deqb_deq. exact H2.
Qed.

Lemma good_row_of j r : (j < 7)%nat -> (exists s, fst r = VQ s /\ ~ s == 0 /\ deq (snd r) (base j)) -> good_row r.
Proof.
  intros Hj (s & H1 & H2 & H3). exists s. split; [exact H1|]. split; [exact H2|].
  rewrite (dimensionless_deq _ _ H3).
  do 7 (destruct j as [|j]; [reflexivity|]). lia.
Qed.

Lemma collect_si_unit tbl d : table_ok tbl = true -> wf_dim d -> int_dim d ->
  exists s du, collect (si_unit_expr tbl d) = Ok (VQ s, du) /\ s == sisQ (scales tbl) d /\ ~ s == 0 /\
               deq du (si_dim d).
Proof.
  intros Ht Hw Hi. unfold table_ok in Ht. apply andb_true_iff in Ht as [Hl Ht].
  apply Nat.eqb_eq in Hl. apply table_ok_from_spec in Ht. rewrite Hl in Ht. cbn [seq] in Ht.
  assert (Hg : Forall good_row tbl).
  { clear Hl. repeat match goal with H : Forall2 _ _ _ |- _ => inversion H; subst; clear H end.
    repeat constructor; eapply good_row_of; try eassumption; lia. }
  unfold si_unit_expr. cbn [collect is_number].
  assert (H1 : ~ 1 == 0) by discriminate.
  destruct (mul_go_si tbl d 1 dzero Hg Hi H1) as (s & E & Es & Es0).
  exists s. eexists. split; [exact E|]. split; [rewrite Es; ring|]. split; [exact Es0|].
  clear E Es Es0 Hg Hi.
  unfold wf_dim in Hw. do 10 (destruct d as [|? d]; try discriminate Hw). clear Hw Hl.
  repeat match goal with H : Forall2 _ _ _ |- _ => inversion H; subst; clear H end.
  repeat match goal with H : exists _, _ |- _ => destruct H as (? & _ & _ & ?) end.
  cbn [map2 snd].
  eapply deq_trans.
  - apply fold_left_dmul_deq; [|apply deq_refl].
    repeat (apply Forall2_cons; [apply dpow_deq; [eassumption | reflexivity]|]). apply Forall2_nil.
  - cbn. repeat constructor; ring.
Qed.

Definition anyd_free (d : dim) : Prop := nth ANYD d 0 == 0.

Lemma erase_si_dim d : wf_dim d -> anyd_free d -> deq (erase_angle d) (erase_angle (si_dim d)).
Proof.
  unfold wf_dim, anyd_free. intros Hw Ha. do 10 (destruct d as [|? d]; try discriminate Hw).
  cbn in Ha. cbn. repeat constructor; try reflexivity. exact Ha.
Qed.

Lemma quantity_ctor_si_unit tbl d : table_ok tbl = true -> wf_dim d -> int_dim d ->
  exists s du, quantity_ctor (si_unit_expr tbl d) None = Ok (VQ s, du) /\ s == sisQ (scales tbl) d /\ ~ s == 0 /\
               deq du (si_dim d).
Proof.
  intros Ht Hw Hi. destruct (collect_si_unit tbl d Ht Hw Hi) as (s & du & E & H).
  exists s, du. split; [|exact H]. unfold quantity_ctor. rewrite E. reflexivity.
Qed.

(* the SI value of a quantity: scale / (product of base-unit scales to the dimension's exponents) *)
Theorem convert_to_si_value tbl a d :
  table_ok tbl = true -> wf_dim d -> int_dim d -> anyd_free d ->
  exists x, convert_to_si tbl (CQ (VQ a) d) = Ok (VQ x) /\ x * sisQ (scales tbl) d == a.
Proof.
  intros Ht Hw Hi Ha. destruct (quantity_ctor_si_unit tbl d Ht Hw Hi) as (s & du & E & Es & Es0 & Ed).
  unfold convert_to_si, convert_to. cbn [as_quantity]. rewrite E.
  exists (Qred (a / s)). split.
  - apply convert_core_ok. split; [|symmetry; apply vdiv_VQ_nonzero; exact Es0].
    apply gate_qd_pass_iff; [reflexivity|]. right.
    eapply deq_trans; [apply erase_si_dim; assumption|]. apply erase_angle_deq, deq_sym. exact Ed.
  - rewrite Qred_correct, <- Es. field. exact Es0.
Qed.

Lemma si_dim_deq a b : deq a b -> deq (si_dim a) (si_dim b).
Proof.
  intros H. unfold si_dim.
  do 8 (destruct H as [|? ? ? ? ? H]; [repeat constructor; try reflexivity; assumption|]).
  cbn. repeat constructor; try reflexivity; assumption.
Qed.

Lemma sisQ_si_dim ss d : length ss = 7%nat -> sisQ ss (si_dim d) = sisQ ss d.
Proof.
  intros Hl. do 8 (destruct ss as [|? ss]; try discriminate Hl).
  unfold si_dim. do 7 (destruct d as [|? d]; try reflexivity).
Qed.

Lemma si_dim_wf d : wf_dim d -> wf_dim (si_dim d).
Proof. unfold wf_dim. intros H. do 10 (destruct d as [|? d]; try discriminate H). reflexivity. Qed.

Lemma si_dim_int d : int_dim d -> int_dim (si_dim d).
Proof.
  intros H. unfold si_dim.
  do 8 (destruct H as [|? ? ? H]; [repeat constructor; assumption|]).
  cbn. repeat constructor; assumption.
Qed.

Lemma si_dim_anyd_free d : wf_dim d -> anyd_free (si_dim d).
Proof. unfold wf_dim, anyd_free. intros H. do 10 (destruct d as [|? d]; try discriminate H). reflexivity. Qed.

Lemma wf_dim_deq a b : deq a b -> wf_dim a -> wf_dim b.
Proof. unfold wf_dim. intros H. rewrite (deq_length _ _ H). auto. Qed.

Lemma anyd_free_deq a b : deq a b -> anyd_free a -> anyd_free b.
Proof.
  unfold anyd_free. intros H.
  do 9 (destruct H as [|? ? ? ? ? H]; [auto|]). cbn. intros E. rewrite <- E. symmetry. assumption.
Qed.

Lemma scales_length tbl : table_ok tbl = true -> length (scales tbl) = 7%nat.
Proof.
  unfold table_ok. intros H. apply andb_true_iff in H as [H _]. apply Nat.eqb_eq in H.
  unfold scales. rewrite map_length. exact H.
Qed.

(* converting n * (SI unit of d) to SI gives n back *)
Theorem convert_si_unit_roundtrip tbl d n :
  table_ok tbl = true -> wf_dim d -> int_dim d -> ~ n == 0 ->
  exists x, convert_to_si tbl (CE (QMul [QNum (VQ n); si_unit_expr tbl d])) = Ok (VQ x) /\ x == n.
Proof.
  intros Ht Hw Hi Hn.
  destruct (collect_si_unit tbl d Ht Hw Hi) as (s & du & E & Es & Es0 & Ed).
  assert (Hq : as_quantity (CE (QMul [QNum (VQ n); si_unit_expr tbl d])) = Ok (VQ (Qred (n * s)), dmul dzero du)).
  { cbn [as_quantity]. unfold quantity_ctor. cbn [collect mul_go is_number]. rewrite E.
    unfold mul_step. cbn [fst snd]. destruct (vmul_VQ_nonzero n s Hn Es0) as [Hm Hany]. rewrite Hm, Hany. reflexivity. }
  unfold convert_to_si. rewrite Hq.
  assert (Hdq : deq (dmul dzero du) (si_dim d)).
  { eapply deq_trans; [apply dmul_dzero_l; eapply wf_dim_deq; [apply deq_sym; exact Ed | apply si_dim_wf; exact Hw]|exact Ed]. }
  assert (Hw' : wf_dim (dmul dzero du)) by (eapply wf_dim_deq; [apply deq_sym; exact Hdq | apply si_dim_wf; exact Hw]).
  assert (Hi' : int_dim (dmul dzero du)) by (eapply int_dim_deq; [apply deq_sym; exact Hdq | apply si_dim_int; exact Hi]).
  assert (Ha' : anyd_free (dmul dzero du)) by (eapply anyd_free_deq; [apply deq_sym; exact Hdq | apply si_dim_anyd_free; exact Hw]).
  destruct (convert_to_si_value tbl (Qred (n * s)) _ Ht Hw' Hi' Ha') as (x & Hx & Hxs).
  unfold convert_to_si in Hx. cbn [as_quantity] in Hx.
  exists x. split; [exact Hx|].
  rewrite (sisQ_deq _ _ _ Hdq), sisQ_si_dim in Hxs by (apply scales_length; exact Ht).
  rewrite Qred_correct, <- Es in Hxs.
  apply Qmult_inj_r in Hxs; assumption.
Qed.

(* ------------------------------------------------------------------------------------------------ *)
(* evaluate_expression preserves the value                                                           *)
(* ------------------------------------------------------------------------------------------------ *)

Definition good_dim (d : dim) : Prop := wf_dim d /\ int_dim d /\ anyd_free d.

Lemma good_dim_dzero : good_dim dzero.
Proof. split; [reflexivity|]. split; [apply int_dim_dzero | reflexivity]. Qed.

Lemma anyd_free_dmul a b : wf_dim a -> wf_dim b -> anyd_free a -> anyd_free b -> anyd_free (dmul a b).
Proof.
  unfold wf_dim, anyd_free. intros Ha Hb.
  do 10 (destruct a as [|? a]; try discriminate Ha). do 10 (destruct b as [|? b]; try discriminate Hb).
  cbn [dmul map2 nth ANYD]. intros E1 E2. rewrite E1, E2. reflexivity.
Qed.

Lemma anyd_free_dpow a q : wf_dim a -> anyd_free a -> anyd_free (dpow a q).
Proof.
  unfold wf_dim, anyd_free. intros Ha.
  do 10 (destruct a as [|? a]; try discriminate Ha).
  cbn [dpow map nth ANYD]. intros E1. rewrite E1. ring.
Qed.

Lemma good_dim_dmul a b : good_dim a -> good_dim b -> good_dim (dmul a b).
Proof.
  intros (A1 & A2 & A3) (B1 & B2 & B3). split; [apply dmul_wf; assumption|].
  split; [apply int_dim_dmul; assumption | apply anyd_free_dmul; assumption].
Qed.

Lemma good_dim_dpow a z : good_dim a -> good_dim (dpow a (inject_Z z)).
Proof.
  intros (A1 & A2 & A3). split; [apply dpow_wf; assumption|].
  split; [apply int_dim_dpow; assumption | apply anyd_free_dpow; assumption].
Qed.

Lemma good_dim_deq a b : deq a b -> good_dim a -> good_dim b.
Proof.
  intros H (A1 & A2 & A3). split; [eapply wf_dim_deq; eassumption|].
  split; [eapply int_dim_deq; eassumption | eapply anyd_free_deq; eassumption].
Qed.

(* induction over n-ary trees *)
Section AexprInd.
  Context (P : aexpr -> Prop).
  Context (HN : forall q, P (ANum q)) (HQ : forall s d, P (AQty s d))
          (HA : forall l, Forall P l -> P (AAdd l)) (HM : forall l, Forall P l -> P (AMul l))
          (HP : forall a z, P a -> P (APow a z)).
  Fixpoint aexpr_ind' (e : aexpr) : P e :=
    match e with
    | ANum q => HN q
    | AQty s d => HQ s d
    | AAdd l => HA l ((fix go (l : list aexpr) : Forall P l :=
                         match l with [] => Forall_nil P | x :: r => Forall_cons x (aexpr_ind' x) (go r) end) l)
    | AMul l => HM l ((fix go (l : list aexpr) : Forall P l :=
                         match l with [] => Forall_nil P | x :: r => Forall_cons x (aexpr_ind' x) (go r) end) l)
    | APow a z => HP a z (aexpr_ind' a)
    end.
End AexprInd.

(* every sub-expression is a finite quantity with a finite SI value (no division by zero anywhere), and every
   quantity leaf has a well-formed integer dimension without the any_dimension pseudo-base *)
Fixpoint regular (tbl : list si_row) (e : aexpr) : Prop :=
  (exists S D N, collect (embed e) = Ok (VQ S, D) /\ eval_si tbl e = Ok (VQ N)) /\
  match e with
  | ANum _ => True
  | AQty _ d => good_dim d
  | AAdd l | AMul l => (fix all (l : list aexpr) : Prop := match l with [] => True | x :: r => regular tbl x /\ all r end) l
  | APow a _ => regular tbl a
  end.

Definition all_regular tbl (l : list aexpr) : Prop :=
  (fix all (l : list aexpr) : Prop := match l with [] => True | x :: r => regular tbl x /\ all r end) l.

Lemma regular_fin tbl e : regular tbl e -> exists S D N, collect (embed e) = Ok (VQ S, D) /\ eval_si tbl e = Ok (VQ N).
Proof. destruct e; intros [H _]; exact H. Qed.

Section Eval.
  Context (tbl : list si_row) (Ht : table_ok tbl = true).
  Let sis := sisQ (scales tbl).

  Lemma sis_nonzero d : ~ sis d == 0.
  Proof.
    apply sisQ_nonzero. unfold table_ok in Ht. apply andb_true_iff in Ht as [_ H].
    apply table_ok_from_spec in H. unfold nonzeros, scales.
    revert H. generalize (seq 0 (length tbl)). induction tbl as [|r t IH]; intros l H; [constructor|].
    inversion H as [|? j ? l' (s & E1 & E2 & _) H']; subst. cbn [map]. constructor; [|eapply IH; eassumption].
    unfold row_scale. rewrite E1. exact E2.
  Qed.

  Lemma nonzeros_scales : nonzeros (scales tbl).
  Proof.
    unfold table_ok in Ht. apply andb_true_iff in Ht as [_ H].
    apply table_ok_from_spec in H. unfold nonzeros, scales.
    revert H. generalize (seq 0 (length tbl)). induction tbl as [|r t IH]; intros l H; [constructor|].
    inversion H as [|? j ? l' (s & E1 & E2 & _) H']; subst. cbn [map]. constructor; [|eapply IH; eassumption].
    unfold row_scale. rewrite E1. exact E2.
  Qed.

  Definition PV (e : aexpr) : Prop :=
    forall S D N, collect (embed e) = Ok (VQ S, D) -> eval_si tbl e = Ok (VQ N) -> N * sis D == S /\ good_dim D.

  Lemma sis_dmul a b : good_dim a -> good_dim b -> sis (dmul a b) == sis a * sis b.
  Proof.
    intros (A1 & A2 & _) (B1 & B2 & _). apply sisQ_dmul; try assumption; [apply nonzeros_scales|].
    unfold wf_dim in *. congruence.
  Qed.

  Lemma zero_of_si n d s : n * sis d == s -> s == 0 -> n == 0.
  Proof.
    intros H E. rewrite E in H. apply Qmult_integral in H as [H|H]; [exact H|]. exfalso. exact (sis_nonzero d H).
  Qed.

  (* products *)
  Lemma mul_chain xs : Forall PV xs -> all_regular tbl xs ->
    forall accS accD accN S D N,
      accN * sis accD == accS -> good_dim accD ->
      mul_go collect (Ok (VQ accS, accD)) (map embed xs) = Ok (VQ S, D) ->
      ev_go (eval_si tbl) vmul (Ok (VQ accN)) xs = Ok (VQ N) ->
      N * sis D == S /\ good_dim D.
  Proof.
    induction 1 as [|x xs Hx Hxs IH]; intros Hr accS accD accN S D N Hinv Hg Hc He.
    - cbn [map mul_go] in Hc. cbn [ev_go] in He.
      assert (accS = S) by congruence. assert (accD = D) by congruence. assert (accN = N) by congruence. subst. auto.
    - destruct Hr as [Hrx Hr]. destruct (regular_fin _ _ Hrx) as (Sx & Dx & Nx & Ecx & Eex).
      cbn [map mul_go] in Hc. cbn [ev_go] in He. rewrite Ecx in Hc. rewrite Eex in He.
      destruct (Hx Sx Dx Nx Ecx Eex) as [Hvx Hgx].
      unfold mul_step in Hc. cbn [fst snd vmul lift2] in Hc, He. cbn [is_any] in Hc.
      destruct (qzero (Qred (accS * Sx))) eqn:Z.
      + apply qzero_true in Z. rewrite Qred_correct in Z.
        apply (IH Hr (Qred (accS * Sx)) dzero (Qred (accN * Nx)) S D N); [| apply good_dim_dzero | exact Hc | exact He].
        unfold sis at 1. rewrite sisQ_dzero, !Qred_correct.
        assert (E : (accN * Nx) * (sis accD * sis Dx) == 0) by (rewrite <- Z, <- Hinv, <- Hvx; ring).
        apply Qmult_integral in E as [E|E].
        * rewrite E, Z. ring.
        * exfalso. apply Qmult_integral in E as [E|E]; eapply sis_nonzero; exact E.
      + apply (IH Hr (Qred (accS * Sx)) (dmul accD Dx) (Qred (accN * Nx)) S D N); [| apply good_dim_dmul; assumption | exact Hc | exact He].
        rewrite sis_dmul by assumption. rewrite !Qred_correct, <- Hinv, <- Hvx. ring.
  Qed.

  (* sums: the running state of _collect_same_dimension *)
  Definition add_inv (f : option val) (d : option dim) (accN : Q) : Prop :=
    match f with
    | None => accN == 0 /\ d = None
    | Some fv => exists F, fv = VQ F /\
        match d with
        | Some dd => accN * sis dd == F /\ good_dim dd
        | None => accN == 0 /\ F == 0
        end
    end.

  Lemma add_chain xs : Forall PV xs -> all_regular tbl xs ->
    forall f d last accN S D N,
      add_inv f d accN -> good_dim last ->
      sd_go collect comb_add f d last (map embed xs) = Ok (VQ S, D) ->
      ev_go (eval_si tbl) vadd (Ok (VQ accN)) xs = Ok (VQ N) ->
      N * sis D == S /\ good_dim D.
  Proof.
    induction 1 as [|x xs Hx Hxs IH]; intros Hr f d last accN S D N Hinv Hl Hc He.
    - cbn [map sd_go] in Hc. cbn [ev_go] in He. assert (accN = N) by congruence. subst accN.
      destruct f as [fv|]; [|discriminate]. destruct Hinv as (F & -> & Hinv).
      assert (F = S) by congruence. subst F.
      destruct d as [dd|].
      + assert (dd = D) by congruence. subst dd. exact Hinv.
      + assert (last = D) by congruence. subst last. destruct Hinv as [E1 E2]. split; [|exact Hl].
        rewrite E1, E2. ring.
    - destruct Hr as [Hrx Hr]. destruct (regular_fin _ _ Hrx) as (Sx & Dx & Nx & Ecx & Eex).
      cbn [map sd_go] in Hc. cbn [ev_go] in He. rewrite Ecx in Hc. rewrite Eex in He.
      destruct (Hx Sx Dx Nx Ecx Eex) as [Hvx Hgx].
      cbn [lift2 vadd] in He.
      assert (Hstep : forall d', match f with
                        | None => sd_go collect comb_add (Some (VQ Sx)) d' Dx (map embed xs)
                        | Some x0 => match comb_add x0 (VQ Sx) with
                                     | Some y => sd_go collect comb_add (Some y) d' Dx (map embed xs)
                                     | None => Err E_VALUE
                                     end
                        end = sd_go collect comb_add (Some (match f with None => VQ Sx | Some x0 => vadd x0 (VQ Sx) end)) d' Dx (map embed xs)).
      { intros d'. destruct f; reflexivity. }
      unfold sd_dim in Hc. cbn [is_any] in Hc.
      destruct (qzero Sx) eqn:Z.
      + (* a zero term: of any dimension, its SI value is zero *)
        apply qzero_true in Z. pose proof (zero_of_si _ _ _ Hvx Z) as Zn.
        rewrite Hstep in Hc. refine (IH Hr _ d Dx (Qred (accN + Nx)) S D N _ Hgx Hc He).
        destruct f as [fv|].
        * destruct Hinv as (F & -> & Hinv). cbn [vadd]. exists (Qred (F + Sx)). split; [reflexivity|].
          destruct d as [dd|].
          -- destruct Hinv as [E G]. split; [|exact G]. rewrite !Qred_correct, Zn, Z, <- E. ring.
          -- destruct Hinv as [E1 E2]. rewrite !Qred_correct, Zn, Z, E1, E2. split; reflexivity.
        * destruct Hinv as [E ->]. exists Sx. split; [reflexivity|]. rewrite Qred_correct, Zn, Z, E. split; reflexivity.
      + apply qzero_false in Z.
        destruct d as [dd|].
        * destruct (equivalent_dims dd Dx) eqn:Q; [|discriminate].
          rewrite Hstep in Hc. refine (IH Hr _ (Some dd) Dx (Qred (accN + Nx)) S D N _ Hgx Hc He).
          destruct f as [fv|]; [|destruct Hinv; discriminate].
          destruct Hinv as (F & -> & E & G). cbn [vadd]. exists (Qred (F + Sx)). split; [reflexivity|]. split; [|exact G].
          apply deqb_deq in Q. unfold sis in *. rewrite (sisQ_deq _ _ _ Q) in *. rewrite !Qred_correct, <- E, <- Hvx. ring.
        * rewrite Hstep in Hc. refine (IH Hr _ (Some Dx) Dx (Qred (accN + Nx)) S D N _ Hgx Hc He).
          destruct f as [fv|].
          -- destruct Hinv as (F & -> & E1 & E2). cbn [vadd]. exists (Qred (F + Sx)). split; [reflexivity|]. split; [|exact Hgx].
             rewrite !Qred_correct, E1, E2, <- Hvx. ring.
          -- destruct Hinv as [E _]. exists Sx. split; [reflexivity|]. split; [|exact Hgx].
             rewrite Qred_correct, E, <- Hvx. ring.
  Qed.

  Lemma all_regular_of l : regular tbl (AAdd l) -> all_regular tbl l.
  Proof. intros [_ H]. exact H. Qed.
  Lemma all_regular_of_mul l : regular tbl (AMul l) -> all_regular tbl l.
  Proof. intros [_ H]. exact H. Qed.

  Lemma evaluate_PV e : regular tbl e -> PV e.
  Proof.
    induction e as [q|s d|l IH|l IH|a z IH] using aexpr_ind'; intros Hr S D N Hc He.
    - (* number *)
      cbn [embed collect is_number eval_si] in Hc, He.
      assert (q = S) by congruence. assert (dzero = D) by congruence. assert (q = N) by congruence. subst.
      split; [|apply good_dim_dzero]. unfold sis. rewrite sisQ_dzero. ring.
    - (* quantity *)
      destruct Hr as [_ Hg]. cbn [embed collect eval_si] in Hc, He.
      assert (s = S) by congruence. assert (d = D) by congruence. subst. split; [|exact Hg].
      destruct Hg as (G1 & G2 & G3).
      destruct (convert_to_si_value tbl S D Ht G1 G2 G3) as (x & Hx & Hxs).
      rewrite Hx in He. assert (x = N) by congruence. subst x. exact Hxs.
    - (* sum *)
      pose proof (all_regular_of _ Hr) as Hall.
      assert (IH' : Forall PV l).
      { clear Hc He Hr. induction IH as [|x l Hx Hl IHl]; [constructor|].
        destruct Hall as [H1 H2]. constructor; [apply Hx; exact H1 | apply IHl; exact H2]. }
      cbn [embed collect eval_si] in Hc, He.
      eapply (add_chain l IH' Hall None None dzero 0 S D N); [| apply good_dim_dzero | exact Hc | exact He].
      split; reflexivity.
    - (* product *)
      pose proof (all_regular_of_mul _ Hr) as Hall.
      assert (IH' : Forall PV l).
      { clear Hc He Hr. induction IH as [|x l Hx Hl IHl]; [constructor|].
        destruct Hall as [H1 H2]. constructor; [apply Hx; exact H1 | apply IHl; exact H2]. }
      cbn [embed collect eval_si] in Hc, He.
      destruct l as [|x xs]; [discriminate Hc|].
      cbn [map] in Hc. cbn [ev_go] in He.
      destruct Hall as [Hrx Hall]. destruct (regular_fin _ _ Hrx) as (Sx & Dx & Nx & Ecx & Eex).
      rewrite Ecx in Hc. rewrite Eex in He. cbn [lift2 vmul] in He.
      inversion IH' as [|? ? Hx Hxs]; subst.
      destruct (Hx Sx Dx Nx Ecx Eex) as [Hvx Hgx].
      eapply (mul_chain xs Hxs Hall Sx Dx (Qred (1 * Nx)) S D N); [| exact Hgx | exact Hc | exact He].
      rewrite Qred_correct, <- Hvx. ring.
    - (* integer power *)
      destruct Hr as [_ Hra]. destruct (regular_fin _ _ Hra) as (Sa & Da & Na & Eca & Eea).
      destruct (IH Hra Sa Da Na Eca Eea) as [Hva Hga].
      cbn [embed collect is_number eval_si] in Hc, He. rewrite Eca in Hc. rewrite Eea in He.
      rewrite dimensionless_dzero, orb_true_r in Hc. cbn [lift2] in He.
      assert (HN : N == Qpower Na z).
      { apply vpow_Z. congruence. }
      unfold dim_pow_val in Hc. destruct (dimensionless Da) eqn:Dl.
      + assert (HS : S == Qpower Sa z) by (apply vpow_Z; congruence).
        assert (Da = D) by congruence. subst D. split; [|exact Hga].
        unfold sis in *. rewrite (sisQ_dimensionless _ _ Dl) in *. rewrite HN, HS.
        assert (E : Na == Sa) by (rewrite <- Hva; ring). rewrite E. ring.
      + assert (HS : S == Qpower Sa z) by (apply vpow_Z; congruence).
        assert (dpow Da (inject_Z z) = D) by congruence. subst D. split; [|apply good_dim_dpow; exact Hga].
        unfold sis in *. destruct Hga as (_ & G2 & _). rewrite sisQ_dpow by exact G2.
        rewrite HN, HS, <- Hva, Qmult_power. reflexivity.
  Qed.

  Theorem evaluate_preserves_value_sec e S D N :
    regular tbl e -> collect (embed e) = Ok (VQ S, D) -> eval_si tbl e = Ok (VQ N) ->
    N * sisQ (scales tbl) D == S.
  Proof. intros Hr Hc He. exact (proj1 (evaluate_PV e Hr S D N Hc He)). Qed.
End Eval.

Theorem evaluate_preserves_value tbl e S D N :
  table_ok tbl = true -> regular tbl e ->
  collect (embed e) = Ok (VQ S, D) -> eval_si tbl e = Ok (VQ N) ->
  exists N', convert_to_si tbl (CQ (VQ S) D) = Ok (VQ N') /\ N' == N.
Proof.
  intros Ht Hr Hc He. destruct (evaluate_PV tbl Ht e Hr S D N Hc He) as [Hv (G1 & G2 & G3)].
  destruct (convert_to_si_value tbl S D Ht G1 G2 G3) as (x & Hx & Hxs).
  exists x. split; [exact Hx|].
  assert (E : x * sisQ (scales tbl) D == N * sisQ (scales tbl) D) by (rewrite Hxs, Hv; reflexivity).
  apply Qmult_inj_r in E; [exact E|]. apply sisQ_nonzero. apply nonzeros_scales. exact Ht.
Qed.

(* ------------------------------------------------------------------------------------------------ *)
(* non-vacuity                                                                                       *)
(* ------------------------------------------------------------------------------------------------ *)

Definition ref_tbl : list si_row :=
  [(VQ 1, base 0); (VQ (1000 # 1), base 1); (VQ 1, base 2); (VQ 1, base 3); (VQ 1, base 4); (VQ 1, base 5); (VQ 1, base 6)].
Definition d_energy : dim := [2; 1; -2 # 1; 0; 0; 0; 0; 0; 0].
Definition d_length : dim := base 0.
Definition d_time : dim := base 2.

Example ref_tbl_ok : table_ok ref_tbl = true.
Proof. reflexivity. Qed.

(* 5 J (scale 5000 in the gram-based table) in kJ is 1/200 *)
Example ex_convert_joule_kilojoule :
  convert_to (CQ (VQ (5000 # 1)) d_energy) (CE (QMul [QNum (VQ (1000 # 1)); QQty (VQ (1000 # 1)) d_energy])) = Ok (VQ (1 # 200)).
Proof. vm_compute. reflexivity. Qed.

Example ex_convert_refused :
  convert_to (CQ (VQ (5000 # 1)) d_energy) (CQ (VQ 1) d_length) = Err E_UNITS.
Proof. vm_compute. reflexivity. Qed.

Example ex_number_refused : convert_to (CE (QNum (VQ (3 # 1)))) (CQ (VQ 1) d_length) = Err E_TYPE.
Proof. vm_compute. reflexivity. Qed.

(* Hz -> rad/s: equivalent through angle erasure *)
Example ex_hertz_rad_per_second :
  convert_to (CQ (VQ (3 # 1)) (dinv d_time)) (CQ (VQ 1) (dmul (base ANGLE) (dinv d_time))) = Ok (VQ (3 # 1)).
Proof. vm_compute. reflexivity. Qed.

(* zero metres "are" zero seconds: a zero magnitude matches every dimension (library convention, C04) *)
Example ex_zero_any_dimension : convert_to (CQ (VQ 0) d_length) (CQ (VQ 1) d_time) = Ok (VQ 0).
Proof. vm_compute. reflexivity. Qed.

(* 5 J to SI is 5, not the raw attribute 5000 *)
Example ex_si_joule : convert_to_si ref_tbl (CQ (VQ (5000 # 1)) d_energy) = Ok (VQ (5 # 1)).
Proof. vm_compute. reflexivity. Qed.

Example ex_regular :
  regular ref_tbl (AAdd [AMul [AQty (3 # 1) d_length; APow (AQty (2 # 1) d_time) (-1)]; AMul [ANum (2 # 1); AQty (5 # 1) (dmul d_length (dinv d_time))]]).
Proof.
  assert (G : forall d, wf_dimb d = true -> forallb is_int d = true -> Qeq_bool (nth ANYD d 0) 0 = true -> good_dim d).
  { intros d H1 H2 H3. split; [apply Nat.eqb_eq; exact H1|]. split.
    - unfold int_dim. apply Forall_forall. intros x Hx. rewrite forallb_forall in H2. apply H2. exact Hx.
    - apply Qeq_bool_iff. exact H3. }
  cbn [regular]. repeat split; try (eexists _, _, _; split; vm_compute; reflexivity); apply G; reflexivity.
Qed.

Example ex_evaluate :
  eval_si ref_tbl (AAdd [AMul [AQty (3 # 1) d_length; APow (AQty (2 # 1) d_time) (-1)]; AMul [ANum (2 # 1); AQty (5 # 1) (dmul d_length (dinv d_time))]])
  = Ok (VQ (23 # 2)).
Proof. vm_compute. reflexivity. Qed.
