(* Lemmas about the formal derivation D of Model/DiffAlg.v:
   it is a derivation (sum, Leibniz, quotient, sin/cos), mixed partial derivatives of jets commute by construction,
   the derivation through a map is the chain rule, and (D_correct) under the analytic reading of jets
   `ev (D i t)` IS the partial derivative of `ev t` (Ranalysis1.derivable_pt_lim). *)
From Coq Require Import ZArith Reals List Lra Lia Bool FunctionalExtensionality.
From VP Require Import Model.DiffAlg.
Import ListNotations.
Local Open Scope R_scope.

(* ---- D is a derivation --------------------------------------------------------------------------------- *)
Lemma D_const rho i z : ev rho (D i (TC z)) = 0.
Proof. reflexivity. Qed.

Lemma D_add rho i s t : ev rho (D i (TAdd s t)) = ev rho (D i s) + ev rho (D i t).
Proof. reflexivity. Qed.

Lemma D_leibniz rho i s t : ev rho (D i (TMul s t)) = ev rho (D i s) * ev rho t + ev rho s * ev rho (D i t).
Proof. reflexivity. Qed.

Lemma D_neg rho i s : ev rho (D i (TNeg s)) = - ev rho (D i s).
Proof. reflexivity. Qed.

Lemma D_inv rho i s : ev rho (D i (TInv s)) = - (ev rho (D i s) * / (ev rho s * ev rho s)).
Proof. reflexivity. Qed.

Lemma D_coord rho i j : ev rho (D i (TCoord j)) = if Nat.eqb i j then 1 else 0.
Proof. cbn. unfold delta. destruct (Nat.eqb i j); reflexivity. Qed.

Lemma D_sin rho i : ev rho (D i (TSin i)) = cos (vq rho i).
Proof. cbn. rewrite Nat.eqb_refl. reflexivity. Qed.

Lemma D_cos rho i : ev rho (D i (TCos i)) = - sin (vq rho i).
Proof. cbn. rewrite Nat.eqb_refl. reflexivity. Qed.

(* ---- Schwarz by construction: the multi-index only counts ---------------------------------------------- *)
Lemma D_jet_commute i j f a b c : D i (D j (TJ f a b c)) = D j (D i (TJ f a b c)).
Proof.
  destruct i as [|[|[|i]]], j as [|[|[|j]]]; reflexivity.
Qed.

(* ---- on TK-free terms the Jacobian argument is irrelevant ---------------------------------------------- *)
Lemma Dgen_jac_irrelevant jac1 jac2 i t : tk_free t = true -> Dgen jac1 i t = Dgen jac2 i t.
Proof.
  induction t; cbn; intros H; try reflexivity; try discriminate.
  - apply andb_true_iff in H as [H1 H2]. rewrite IHt1, IHt2 by assumption. reflexivity.
  - apply andb_true_iff in H as [H1 H2]. rewrite IHt1, IHt2 by assumption. reflexivity.
  - rewrite IHt by assumption. reflexivity.
  - rewrite IHt by assumption. reflexivity.
Qed.

(* ---- Dvia is the chain rule ----------------------------------------------------------------------------- *)
(* for a term t over the Cartesian variables and a TK-free map X:
     d/dq_i [ t o X ]  =  sum_k  (d_k t) o X  *  dX_k/dq_i   *)
Lemma Dvia_chain_rule rho X i t :
  (forall k, tk_free (X k) = true) -> cart_term t = true ->
  ev rho (Dvia X i (comp X t)) =
    ev rho (comp X (D 0%nat t)) * ev rho (D i (X 0%nat)) +
    ev rho (comp X (D 1%nat t)) * ev rho (D i (X 1%nat)) +
    ev rho (comp X (D 2%nat t)) * ev rho (D i (X 2%nat)).
Proof.
  intros HX. induction t; intros Ht; try discriminate.
  - cbn. ring.
  - cbn [comp]. unfold Dvia. rewrite (Dgen_jac_irrelevant _ (fun _ _ => T0)) by apply HX.
    fold (D i (X i0)). cbn [cart_term] in Ht. apply Nat.ltb_lt in Ht.
    destruct i0 as [|[|[|k]]]; [| | | lia]; cbn; ring.
  - cbn. ring.
  - cbn in Ht. apply andb_true_iff in Ht as [H1 H2].
    specialize (IHt1 H1). specialize (IHt2 H2).
    cbn [comp]. unfold Dvia in *. cbn [Dgen ev comp D] in *. rewrite IHt1, IHt2. ring.
  - cbn in Ht. apply andb_true_iff in Ht as [H1 H2].
    specialize (IHt1 H1). specialize (IHt2 H2).
    cbn [comp]. unfold Dvia in *. cbn [Dgen ev comp D] in *. rewrite IHt1, IHt2. ring.
  - cbn in Ht. specialize (IHt Ht).
    cbn [comp]. unfold Dvia in *. cbn [Dgen ev comp D] in *. rewrite IHt. ring.
  - cbn in Ht. specialize (IHt Ht).
    cbn [comp]. unfold Dvia in *. cbn [Dgen ev comp D] in *. rewrite IHt. ring.
Qed.

(* ---- D_correct: the analytic reading -------------------------------------------------------------------- *)
(* A smooth model assigns a valuation to every point p (a function nat -> R) such that the point of the valuation
   is p and every jet, as a function of the i-th variable, has the next jet as its derivative.  This is exactly
   what the jets of a family of C^k functions satisfy. *)
Definition upd (p : nat -> R) (i : nat) (x : R) : nat -> R := fun j => if Nat.eqb j i then x else p j.

Record smooth_model (M : (nat -> R) -> val) : Prop := {
  sm_point : forall p i, vq (M p) i = p i;
  sm_jet : forall p i f a b c, (i < 3)%nat ->
    derivable_pt_lim (fun x => vj (M (upd p i x)) f a b c) (p i) (ev (M p) (D i (TJ f a b c)));
  sm_const : forall p i f a b c x, (3 <= i)%nat -> vj (M (upd p i x)) f a b c = vj (M p) f a b c }.

(* all denominators of t are non-zero at the point *)
Fixpoint defined (rho : val) (t : tx) : Prop :=
  match t with
  | TAdd s u | TMul s u => defined rho s /\ defined rho u
  | TNeg s => defined rho s
  | TInv s => defined rho s /\ ev rho s <> 0
  | _ => True
  end.

Lemma upd_same p i : upd p i (p i) = p.
Proof.
  apply functional_extensionality. intros j. unfold upd.
  destruct (Nat.eqb j i) eqn:E; [apply Nat.eqb_eq in E; subst|]; reflexivity.
Qed.

Lemma dpl_ext (f g : R -> R) x l : (forall y, f y = g y) -> derivable_pt_lim f x l -> derivable_pt_lim g x l.
Proof.
  intros E H eps He. destruct (H eps He) as [d Hd]. exists d. intros h Hh Hh'.
  rewrite <- !E. apply Hd; assumption.
Qed.

Lemma dpl_eq (f : R -> R) x l l' : l = l' -> derivable_pt_lim f x l -> derivable_pt_lim f x l'.
Proof. intros ->. exact (fun H => H). Qed.

Theorem D_correct M (HM : smooth_model M) p i t :
  tk_free t = true -> defined (M p) t ->
  derivable_pt_lim (fun x => ev (M (upd p i x)) t) (p i) (ev (M p) (D i t)).
Proof.
  induction t; intros Hk Hd.
  - cbn. apply (derivable_pt_lim_const (IZR z)).
  - (* TCoord *)
    cbn [ev D Dgen]. unfold delta.
    apply (dpl_ext (fun x => upd p i x i0)).
    { intros x. symmetry. apply (sm_point _ HM). }
    unfold upd. destruct (Nat.eqb i i0) eqn:E.
    + apply Nat.eqb_eq in E. subst i0. rewrite Nat.eqb_refl. cbn. apply derivable_pt_lim_id.
    + rewrite Nat.eqb_sym, E. cbn. apply (derivable_pt_lim_const (p i0)).
  - (* TSin *)
    cbn [ev D Dgen].
    apply (dpl_ext (fun x => sin (upd p i x i0))).
    { intros x. rewrite (sm_point _ HM). reflexivity. }
    unfold upd. destruct (Nat.eqb i i0) eqn:E.
    + apply Nat.eqb_eq in E. subst i0. rewrite Nat.eqb_refl. cbn [ev].
      rewrite (sm_point _ HM). apply derivable_pt_lim_sin.
    + rewrite Nat.eqb_sym, E. cbn. apply (derivable_pt_lim_const (sin (p i0))).
  - (* TCos *)
    cbn [ev D Dgen].
    apply (dpl_ext (fun x => cos (upd p i x i0))).
    { intros x. rewrite (sm_point _ HM). reflexivity. }
    unfold upd. destruct (Nat.eqb i i0) eqn:E.
    + apply Nat.eqb_eq in E. subst i0. rewrite Nat.eqb_refl. cbn [ev].
      rewrite (sm_point _ HM). apply derivable_pt_lim_cos.
    + rewrite Nat.eqb_sym, E. cbn. apply (derivable_pt_lim_const (cos (p i0))).
  - (* TJ *)
    cbn [ev]. destruct (Nat.ltb i 3) eqn:E.
    + apply Nat.ltb_lt in E. apply (sm_jet _ HM); assumption.
    + apply Nat.ltb_ge in E.
      apply (dpl_ext (fun _ => vj (M p) f a b c)).
      { intros x. symmetry. apply (sm_const _ HM). assumption. }
      destruct i as [|[|[|i]]]; try lia. cbn. apply (derivable_pt_lim_const (vj (M p) f a b c)).
  - discriminate.
  - cbn in Hk. apply andb_true_iff in Hk as [H1 H2]. destruct Hd as [D1 D2].
    cbn [ev D Dgen].
    apply (derivable_pt_lim_plus (fun x => ev (M (upd p i x)) t1) (fun x => ev (M (upd p i x)) t2)).
    + apply IHt1; assumption.
    + apply IHt2; assumption.
  - cbn in Hk. apply andb_true_iff in Hk as [H1 H2]. destruct Hd as [D1 D2].
    cbn [ev D Dgen].
    pose proof (derivable_pt_lim_mult (fun x => ev (M (upd p i x)) t1) (fun x => ev (M (upd p i x)) t2) (p i) _ _
      (IHt1 H1 D1) (IHt2 H2 D2)) as Hm.
    cbv beta in Hm. rewrite upd_same in Hm. exact Hm.
  - cbn in Hk. cbn [ev D Dgen].
    apply (derivable_pt_lim_opp (fun x => ev (M (upd p i x)) t)). apply IHt; assumption.
  - cbn in Hk. destruct Hd as [D1 Hnz]. cbn [ev D Dgen].
    pose proof (derivable_pt_lim_div (fct_cte 1) (fun x => ev (M (upd p i x)) t) (p i) 0 _
      (derivable_pt_lim_const 1 (p i)) (IHt Hk D1)) as Hi.
    cbv beta in Hi. rewrite upd_same in Hi. specialize (Hi Hnz).
    apply (dpl_ext (fct_cte 1 / (fun x => ev (M (upd p i x)) t))%F).
    { intros y. unfold div_fct, fct_cte, Rdiv. ring. }
    eapply dpl_eq; [|exact Hi].
    unfold fct_cte, Rsqr, D. field. exact Hnz.
Qed.

(* ---- non-vacuity: a smooth model exists (all fields are exp(q0+q1+q2), every jet equals the field) ------- *)
Definition exp_model (p : nat -> R) : val :=
  mkval p (fun _ _ _ _ => exp (p 0%nat + p 1%nat + p 2%nat)) (fun _ _ _ _ => 0).

Example exp_model_smooth : smooth_model exp_model.
Proof.
  split.
  - reflexivity.
  - intros p i f a b c Hi.
    assert (Hb : ev (exp_model p) (D i (TJ f a b c)) = exp (p 0%nat + p 1%nat + p 2%nat)).
    { destruct i as [|[|[|i]]]; try lia; reflexivity. }
    rewrite Hb. cbn [vj exp_model].
    destruct i as [|[|[|i]]]; try lia; unfold upd; cbn [Nat.eqb].
    + apply (dpl_ext (Ranalysis1.comp exp (fun x => x + (p 1%nat + p 2%nat))%R)).
      { intros y. unfold Ranalysis1.comp. f_equal. ring. }
      eapply dpl_eq; [|apply derivable_pt_lim_comp;
        [apply (derivable_pt_lim_plus id (fct_cte (p 1%nat + p 2%nat)));
          [apply derivable_pt_lim_id | apply derivable_pt_lim_const] | apply derivable_pt_lim_exp]].
      unfold id, fct_cte. replace (p 0%nat + (p 1%nat + p 2%nat)) with (p 0%nat + p 1%nat + p 2%nat) by ring. ring.
    + apply (dpl_ext (Ranalysis1.comp exp (fun x => x + (p 0%nat + p 2%nat))%R)).
      { intros y. unfold Ranalysis1.comp. f_equal. ring. }
      eapply dpl_eq; [|apply derivable_pt_lim_comp;
        [apply (derivable_pt_lim_plus id (fct_cte (p 0%nat + p 2%nat)));
          [apply derivable_pt_lim_id | apply derivable_pt_lim_const] | apply derivable_pt_lim_exp]].
      unfold id, fct_cte. replace (p 1%nat + (p 0%nat + p 2%nat)) with (p 0%nat + p 1%nat + p 2%nat) by ring. ring.
    + apply (dpl_ext (Ranalysis1.comp exp (fun x => x + (p 0%nat + p 1%nat))%R)).
      { intros y. unfold Ranalysis1.comp. f_equal. ring. }
      eapply dpl_eq; [|apply derivable_pt_lim_comp;
        [apply (derivable_pt_lim_plus id (fct_cte (p 0%nat + p 1%nat)));
          [apply derivable_pt_lim_id | apply derivable_pt_lim_const] | apply derivable_pt_lim_exp]].
      unfold id, fct_cte. replace (p 2%nat + (p 0%nat + p 1%nat)) with (p 0%nat + p 1%nat + p 2%nat) by ring. ring.
  - intros p i f a b c x Hi. cbn [vj exp_model]. unfold upd.
    destruct i as [|[|[|i]]]; try lia. reflexivity.
Qed.
