(* Positional versus keyword passing (inspect.signature.bind as modelled in Gate.v): every way of splitting the same
   argument values into a positional prefix and keyword arguments, in any keyword order, binds the same values. *)
From Coq Require Import List QArith ZArith Bool NArith Lia Permutation.
From VP Require Import Base.Util Base.Dim Base.Val Model.CollectQ Model.Gate Proofs.GateProofs.
Import ListNotations.

Lemma mem_In n l : mem n l = true <-> In n l.
Proof.
  unfold mem. rewrite existsb_exists. split.
  - intros [x [Hx E]]. apply N.eqb_eq in E. subst. exact Hx.
  - intros H. exists n. split; [exact H | apply N.eqb_refl].
Qed.

Lemma nodupb_NoDup l : nodupb l = true <-> NoDup l.
Proof.
  induction l as [|x r IH]; cbn.
  - split; [constructor | reflexivity].
  - rewrite andb_true_iff, negb_true_iff, IH. split.
    + intros [H1 H2]. constructor; [|exact H2]. intros Hin. apply mem_In in Hin. congruence.
    + intros H. inversion H as [|? ? Hn Hr]; subst. split; [|exact Hr].
      destruct (mem x r) eqn:E; [apply mem_In in E; contradiction | reflexivity].
Qed.

Lemma bind_pos_firstn params vals n :
  length vals = length params -> (n <= length params)%nat ->
  bind_pos params (firstn n vals) = Some (combine (firstn n params) (firstn n vals), skipn n params).
Proof.
  revert vals n. induction params as [|p ps IH]; intros vals n Hl Hn.
  - destruct vals; [|discriminate]. assert (n = 0)%nat by (cbn in Hn; lia). subst. reflexivity.
  - destruct vals as [|v vs]; [discriminate|]. destruct n as [|n]; [reflexivity|].
    cbn [firstn bind_pos skipn combine]. rewrite (IH vs n); [reflexivity | cbn in Hl; lia | cbn in Hn; lia].
Qed.

Lemma lookup_app {A} p (l1 l2 : list (pname * A)) :
  lookup p (l1 ++ l2) = match lookup p l1 with Some v => Some v | None => lookup p l2 end.
Proof.
  induction l1 as [|[k x] r IH]; cbn; [reflexivity|]. destruct (N.eqb k p); [reflexivity | exact IH].
Qed.

Lemma lookup_none_notin {A} p (l : list (pname * A)) : ~ In p (map fst l) -> lookup p l = None.
Proof.
  induction l as [|[k x] r IH]; cbn; [reflexivity|]. intros H.
  destruct (N.eqb k p) eqn:E; [apply N.eqb_eq in E; subst; exfalso; apply H; left; reflexivity|].
  apply IH. intros Hin. apply H. right. exact Hin.
Qed.

Lemma lookup_perm {A} p (l l' : list (pname * A)) :
  NoDup (map fst l) -> Permutation l l' -> lookup p l = lookup p l'.
Proof.
  intros Hnd P. induction P as [|[k x] l l' P IH|[k1 x1] [k2 x2] l|l l' l'' P1 IH1 P2 IH2].
  - reflexivity.
  - cbn in *. inversion Hnd; subst. destruct (N.eqb k p); [reflexivity | apply IH; assumption].
  - cbn in *. inversion Hnd as [|? ? Hn1 Hr]; subst. inversion Hr; subst.
    destruct (N.eqb k1 p) eqn:E1, (N.eqb k2 p) eqn:E2; try reflexivity.
    apply N.eqb_eq in E1, E2. subst. exfalso. apply Hn1. left. reflexivity.
  - rewrite IH1 by assumption. apply IH2.
    eapply Permutation_NoDup; [apply Permutation_map; exact P1 | exact Hnd].
Qed.

Lemma combine_nil_r {A B} (l : list A) : combine l (@nil B) = [].
Proof. destruct l; reflexivity. Qed.

Lemma combine_split {A B} (l1 : list A) (l2 : list B) n :
  combine l1 l2 = combine (firstn n l1) (firstn n l2) ++ combine (skipn n l1) (skipn n l2).
Proof.
  revert l2 n. induction l1 as [|a r IH]; intros l2 n.
  - destruct n; reflexivity.
  - destruct l2 as [|b r2].
    + destruct n; cbn; rewrite ?combine_nil_r; reflexivity.
    + destruct n as [|n]; [reflexivity|]. cbn. f_equal. apply IH.
Qed.

Lemma map_fst_combine {A B} (l1 : list A) (l2 : list B) : length l1 = length l2 -> map fst (combine l1 l2) = l1.
Proof.
  revert l2. induction l1 as [|a r IH]; intros [|b r2] H; try discriminate; [reflexivity|].
  cbn. f_equal. apply IH. cbn in H. lia.
Qed.

Lemma NoDup_skipn {A} (l : list A) n : NoDup l -> NoDup (skipn n l).
Proof.
  revert n. induction l as [|a r IH]; intros [|n] H; cbn; auto. inversion H; subst. apply IH. assumption.
Qed.

(* the positional prefix may end anywhere, and the remaining arguments may be passed by keyword in any order:
   the call is accepted and every parameter is bound to the same value *)
Theorem bind_any_style params vals n kw :
  NoDup params -> length vals = length params -> (n <= length params)%nat ->
  Permutation kw (combine (skipn n params) (skipn n vals)) ->
  exists b, bind params (firstn n vals) kw = Some b /\
            forall p, lookup p b = lookup p (combine params vals).
Proof.
  intros Hnd Hl Hn P. unfold bind. rewrite (bind_pos_firstn params vals n Hl Hn).
  set (rest := skipn n params). set (kwref := combine rest (skipn n vals)) in *.
  assert (Hlen : length rest = length (skipn n vals)) by (unfold rest; rewrite !skipn_length; lia).
  assert (Hkeys : Permutation (map fst kw) rest).
  { rewrite <- (map_fst_combine rest (skipn n vals) Hlen). apply Permutation_map. exact P. }
  assert (Hndr : NoDup rest) by (apply NoDup_skipn; exact Hnd).
  assert (Hndk : NoDup (map fst kw)) by (eapply Permutation_NoDup; [apply Permutation_sym; exact Hkeys | exact Hndr]).
  assert (H1 : nodupb (map fst kw) = true) by (apply nodupb_NoDup; exact Hndk).
  assert (H2 : forallb (fun k => mem k rest) (map fst kw) = true).
  { apply forallb_forall. intros k Hk. apply mem_In. eapply Permutation_in; eassumption. }
  assert (H3 : forallb (fun p => mem p (map fst kw)) rest = true).
  { apply forallb_forall. intros k Hk. apply mem_In. eapply Permutation_in; [apply Permutation_sym; exact Hkeys | exact Hk]. }
  rewrite H1, H2, H3. cbn [andb]. eexists. split; [reflexivity|].
  intros p. rewrite (combine_split params vals n), !lookup_app.
  destruct (lookup p (combine (firstn n params) (firstn n vals))); [reflexivity|].
  apply lookup_perm; [exact Hndk | exact P].
Qed.

(* hence the verdict of a guarded call does not depend on the call style *)
Theorem guarded_call_style_irrelevant params guards out vals n kw n' kw' ret :
  NoDup params -> length vals = length params -> (n <= length params)%nat -> (n' <= length params)%nat ->
  Permutation kw (combine (skipn n params) (skipn n vals)) ->
  Permutation kw' (combine (skipn n' params) (skipn n' vals)) ->
  guarded_call params guards out (firstn n vals) kw ret = guarded_call params guards out (firstn n' vals) kw' ret.
Proof.
  intros Hnd Hl Hn Hn' P P'.
  destruct (bind_any_style params vals n kw Hnd Hl Hn P) as [b [Hb Hlb]].
  destruct (bind_any_style params vals n' kw' Hnd Hl Hn' P') as [b' [Hb' Hlb']].
  eapply bind_style_irrelevant; try eassumption. intros p _. rewrite Hlb, Hlb'. reflexivity.
Qed.
