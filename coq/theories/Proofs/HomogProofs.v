(* C01 -- lemmas about Model/Homog.v: the executable checker `infer` is sound and complete for the
   declarative judgment `Homog`. *)
From Coq Require Import List QArith Bool Lia Setoid.
From VP Require Import Base.Dim Proofs.DimProofs Model.Homog.
Import ListNotations.

(* ---- induction principle for the nested type ---------------------------------------------------- *)

Lemma dexpr_ind' (P : dexpr -> Prop)
  (PNum : P DNum) (PWild : P DWild) (PLeaf : forall d, P (DLeaf d))
  (PAdd : forall l, Forall P l -> P (DAdd l))
  (PMul : forall l, Forall P l -> P (DMul l))
  (PPow : forall b e q, P b -> P e -> P (DPow b e q))
  (PSame : forall e, P e -> P (DSame e))
  (PMinMax : forall l, Forall P l -> P (DMinMax l))
  (PFun : forall l, Forall P l -> P (DFun l))
  (PApp : forall d l, Forall P l -> P (DApp d l))
  (PDeriv : forall f v n, P f -> P (DDeriv f v n))
  (PIntegral : forall f v bs, P f -> Forall P bs -> P (DIntegral f v bs))
  (PSumIdx : forall f, P f -> P (DSumIdx f))
  (PProdIdx : forall f, P f -> P (DProdIdx f))
  (PPiecewise : forall vs cs, Forall P vs -> Forall P cs -> P (DPiecewise vs cs))
  (PRel : forall l r, P l -> P r -> P (DRel l r))
  (PTrue : P DTrue)
  (PConj : forall l, Forall P l -> P (DConj l)) :
  forall e, P e.
Proof.
  fix IH 1. intros e.
  assert (L : forall l : list dexpr, Forall P l).
  { fix go 1. intros [|x r]; [constructor | constructor; [apply IH | apply go]]. }
  destruct e.
  - exact PNum.
  - exact PWild.
  - apply PLeaf.
  - apply PAdd, L.
  - apply PMul, L.
  - apply PPow; apply IH.
  - apply PSame, IH.
  - apply PMinMax, L.
  - apply PFun, L.
  - apply PApp, L.
  - apply PDeriv, IH.
  - apply PIntegral; [apply IH | apply L].
  - apply PSumIdx, IH.
  - apply PProdIdx, IH.
  - apply PPiecewise; apply L.
  - apply PRel; apply IH.
  - exact PTrue.
  - apply PConj, L.
Qed.

(* ---- omap ---------------------------------------------------------------------------------------- *)

Lemma omap_Forall2 {A B} (f : A -> option B) l ys :
  omap f l = Some ys <-> Forall2 (fun x y => f x = Some y) l ys.
Proof.
  revert ys; induction l as [|x r IH]; intros ys; cbn.
  - split; intros H.
    + injection H as <-. constructor.
    + inversion H. reflexivity.
  - destruct (f x) as [y|] eqn:Ex.
    + destruct (omap f r) as [ys'|] eqn:Er.
      * split; intros H.
        -- injection H as <-. constructor; [exact Ex | apply IH; reflexivity].
        -- inversion H as [|x0 y0 r0 ys0 Hy Hr]; subst. rewrite Ex in Hy. injection Hy as <-.
           apply IH in Hr. injection Hr as <-. reflexivity.
      * split; intros H; [discriminate|].
        inversion H as [|x0 y0 r0 ys0 Hy Hr]; subst. apply IH in Hr. discriminate.
    + split; intros H; [discriminate|].
      inversion H as [|x0 y0 r0 ys0 Hy Hr]; subst. congruence.
Qed.

(* ---- dimensionless ------------------------------------------------------------------------------- *)

Lemma dimensionless_dimless a : dimensionless a = true <-> dimless a.
Proof.
  unfold dimensionless, dimless. induction a as [|x a IH]; cbn.
  - split; intros _; [constructor | reflexivity].
  - rewrite andb_true_iff, Qeq_bool_iff, IH. split.
    + intros [H1 H2]. constructor; assumption.
    + intros H. inversion H; subst. split; assumption.
Qed.

Lemma dimless_or_anyb_iff x : dimless_or_anyb x = true <-> dimless_or_any x.
Proof.
  destruct x as [|a]; cbn.
  - split; intros _; [exact I | reflexivity].
  - apply dimensionless_dimless.
Qed.

Lemma dimless_deq a b : deq a b -> dimless a -> dimless b.
Proof.
  unfold dimless. induction 1 as [|x y a b Hxy Hab IH]; intros H; [constructor|].
  inversion H; subst. constructor; [rewrite <- Hxy; assumption | apply IH; assumption].
Qed.

Lemma dimless_dpow a r : dimless a -> deq (dpow a r) a.
Proof.
  unfold dimless, dpow. induction 1 as [|x a Hx Ha IH]; cbn; constructor.
  - rewrite Hx. apply Qmult_0_l.
  - exact IH.
Qed.

Lemma dimless_dzero : dimless dzero.
Proof. unfold dimless, dzero. cbn. repeat constructor; reflexivity. Qed.

(* ---- adim_equiv / compat -------------------------------------------------------------------------- *)

Lemma adim_equiv_refl x : adim_equiv x x.
Proof. destruct x; cbn; [exact I | apply deq_refl]. Qed.

Lemma adim_equiv_sym x y : adim_equiv x y -> adim_equiv y x.
Proof. destruct x, y; cbn; auto. apply deq_sym. Qed.

Lemma adim_equiv_trans x y z : adim_equiv x y -> adim_equiv y z -> adim_equiv x z.
Proof. destruct x, y, z; cbn; auto; try contradiction. apply deq_trans. Qed.

Lemma compat_equiv_l x x' d : adim_equiv x x' -> compat x d -> compat x' d.
Proof.
  destruct x, x', d; cbn; auto; try contradiction.
  intros H1 H2. eapply deq_trans; [apply deq_sym; exact H1 | exact H2].
Qed.

Lemma dimless_or_any_equiv x y : adim_equiv x y -> dimless_or_any x -> dimless_or_any y.
Proof. destruct x, y; cbn; auto; try contradiction. apply dimless_deq. Qed.

Lemma amul_equiv x x' y y' : adim_equiv x x' -> adim_equiv y y' -> adim_equiv (amul x y) (amul x' y').
Proof.
  destruct x, x', y, y'; cbn; auto; try contradiction. apply dmul_deq.
Qed.

Lemma amul_all_equiv ds ds' : Forall2 adim_equiv ds ds' -> adim_equiv (amul_all ds) (amul_all ds').
Proof.
  induction 1 as [|x y l l' Hxy Hl IH]; cbn.
  - apply deq_refl.
  - apply amul_equiv; assumption.
Qed.

Lemma aderiv_equiv f f' v n : adim_equiv f f' -> adim_equiv (aderiv f v n) (aderiv f' v n).
Proof.
  destruct f, f', v; cbn; auto; try contradiction.
  intros H. apply dmul_deq; [exact H | apply deq_refl].
Qed.

(* ---- join ------------------------------------------------------------------------------------------ *)

Lemma join_all_sound ds : forall acc d,
  join_all acc ds = Some d ->
  compat acc d /\ Forall (fun x => compat x d) ds /\
  match d with Any => True | D _ => acc <> Any \/ Exists (fun x => x <> Any) ds end.
Proof.
  induction ds as [|x r IH]; intros acc d H; cbn in H.
  - injection H as <-. split; [|split; [constructor|]].
    + destruct acc; cbn; [exact I | apply deq_refl].
    + destruct acc; [exact I | left; discriminate].
  - destruct (join acc x) as [a|] eqn:J; [|discriminate].
    destruct (IH _ _ H) as (Ca & Cr & Ex).
    assert (K : compat acc d /\ compat x d /\ (a <> Any -> acc <> Any \/ x <> Any)).
    { destruct acc as [|p], x as [|q]; cbn in J.
      - injection J as <-. repeat split; cbn; auto.
      - injection J as <-. repeat split; cbn; auto.
      - injection J as <-. repeat split; cbn; auto; intros _; left; discriminate.
      - destruct (deqb p q) eqn:E; [|discriminate]. injection J as <-.
        apply deqb_deq in E. split; [exact Ca | split].
        + destruct d as [|b]; cbn in *; [contradiction|].
          eapply deq_trans; [apply deq_sym; exact E | exact Ca].
        + intros _. left; discriminate. }
    destruct K as (K1 & K2 & K3).
    split; [exact K1 | split; [constructor; assumption|]].
    destruct d as [|b]; [exact I|].
    destruct Ex as [Ha | Ex].
    + destruct (K3 Ha) as [?|?]; [left; assumption | right; constructor; assumption].
    + right. apply Exists_cons_tl. exact Ex.
Qed.

Lemma join_all_complete ds : forall acc d,
  compat acc d -> Forall (fun x => compat x d) ds ->
  exists d', join_all acc ds = Some d' /\ compat d' d /\
             (d' = Any -> acc = Any /\ Forall (fun x => x = Any) ds).
Proof.
  induction ds as [|x r IH]; intros acc d Ca Cr; cbn.
  - exists acc. repeat split; auto.
  - inversion Cr as [|x0 r0 Cx Cr']; subst.
    assert (K : exists a, join acc x = Some a /\ compat a d /\ (a = Any -> acc = Any /\ x = Any)).
    { destruct acc as [|p], x as [|q]; cbn.
      - exists Any; repeat split; auto.
      - exists (D q); repeat split; auto; discriminate.
      - exists (D p); repeat split; auto; discriminate.
      - destruct d as [|b]; cbn in Ca, Cx; [contradiction|].
        assert (E : deqb p q = true).
        { apply deqb_deq. eapply deq_trans; [exact Ca | apply deq_sym; exact Cx]. }
        rewrite E. exists (D p); repeat split; auto; discriminate. }
    destruct K as (a & J & Cad & Ka). rewrite J.
    destruct (IH a d Cad Cr') as (d' & Hd' & Cd' & Kd').
    exists d'. repeat split; auto.
    + apply Kd' in H. destruct H as [H _]. apply Ka in H. tauto.
    + apply Kd' in H. destruct H as [Ha Hr]. apply Ka in Ha. constructor; tauto.
Qed.

(* the fold computes the common dimension *)
Lemma join_all_common acc ds d :
  join_all acc ds = Some d -> common (acc :: ds) d.
Proof.
  intros H. destruct (join_all_sound _ _ _ H) as (Ca & Cr & Ex).
  split; [constructor; assumption|].
  destruct d; [exact I|]. destruct Ex as [?|?]; [left; assumption | right; assumption].
Qed.

Lemma common_Any_cons ds d : common (Any :: ds) d <-> common ds d.
Proof.
  unfold common. split; intros [H1 H2].
  - inversion H1; subst. split; [assumption|].
    destruct d; [exact I|]. inversion H2; subst; [congruence | assumption].
  - split; [constructor; [exact I | assumption]|].
    destruct d; [exact I|]. right; assumption.
Qed.

Lemma Forall2_equiv_compat ds ds' d :
  Forall2 adim_equiv ds ds' -> Forall (fun x => compat x d) ds -> Forall (fun x => compat x d) ds'.
Proof.
  induction 1 as [|x y l l' Hxy Hl IH]; intros H; [constructor|].
  inversion H; subst. constructor; [eapply compat_equiv_l; eassumption | apply IH; assumption].
Qed.

Lemma Forall2_equiv_exists ds ds' :
  Forall2 adim_equiv ds ds' -> Exists (fun x => x <> Any) ds -> Exists (fun x => x <> Any) ds'.
Proof.
  induction 1 as [|x y l l' Hxy Hl IH]; intros H; inversion H; subst.
  - left. destruct x, y; cbn in Hxy; try contradiction; try congruence; discriminate.
  - right. apply IH. assumption.
Qed.

Lemma common_join_all ds ds' d :
  common ds d -> Forall2 adim_equiv ds ds' ->
  exists d', join_all Any ds' = Some d' /\ adim_equiv d d'.
Proof.
  intros [C E] H.
  assert (C' := Forall2_equiv_compat _ _ _ H C).
  destruct (join_all_complete ds' Any d I C') as (d' & J & Cd & K).
  exists d'. split; [exact J|].
  destruct d as [|b].
  - destruct d'; cbn in *; [exact I | contradiction].
  - destruct d' as [|a']; cbn in *.
    + exfalso. destruct (K eq_refl) as [_ Hall].
      apply (Forall2_equiv_exists _ _ H) in E.
      apply Exists_exists in E. destruct E as (x & Hin & Hx).
      rewrite Forall_forall in Hall. apply Hx, Hall, Hin.
    + apply deq_sym. exact Cd.
Qed.

(* ---- apow ------------------------------------------------------------------------------------------ *)

Lemma apow_equiv_any q : apow Any q = Some Any.
Proof. reflexivity. Qed.

Lemma omap_cons {A B} (f : A -> option B) x r :
  omap f (x :: r) = match f x with
                    | None => None
                    | Some y => match omap f r with None => None | Some ys => Some (y :: ys) end
                    end.
Proof. reflexivity. Qed.

Lemma apow_sound b e q db de d :
  Homog b db -> Homog e de -> dimless_or_any de -> apow db q = Some d -> Homog (DPow b e q) d.
Proof.
  intros Hb He Hd H. destruct db as [|a]; cbn in H.
  - injection H as <-. eapply HPowAny; eassumption.
  - destruct (dimensionless a) eqn:E.
    + injection H as <-. apply dimensionless_dimless in E. eapply HPowDl; eassumption.
    + destruct q as [r|]; [|discriminate]. injection H as <-. eapply HPowQ; eassumption.
Qed.

Lemma Forall_dimless_or_anyb ds : forallb dimless_or_anyb ds = true <-> Forall dimless_or_any ds.
Proof.
  rewrite forallb_forall, Forall_forall. split; intros H x Hx; apply dimless_or_anyb_iff, H, Hx.
Qed.

Lemma Forall2_equiv_dimless ds ds' :
  Forall2 adim_equiv ds ds' -> Forall dimless_or_any ds -> Forall dimless_or_any ds'.
Proof.
  induction 1 as [|x y l l' Hxy Hl IH]; intros H; [constructor|].
  inversion H; subst. constructor; [eapply dimless_or_any_equiv; eassumption | apply IH; assumption].
Qed.

(* ---- soundness ------------------------------------------------------------------------------------- *)

Lemma Forall_omap_sound l ds :
  Forall (fun x => forall d, infer x = Some d -> Homog x d) l ->
  omap infer l = Some ds -> Forall2 Homog l ds.
Proof.
  intros HF H. apply omap_Forall2 in H.
  induction H as [|x d l ds Hx Hl IH]; [constructor|].
  inversion HF; subst. constructor; auto.
Qed.

Theorem infer_sound e : forall d, infer e = Some d -> Homog e d.
Proof.
  induction e as [ | | d | l IHl | l IHl | b e q IHb IHe | e IHe | l IHl | l IHl | d l IHl | f v n IHf
                 | f v bs IHf IHbs | f IHf | f IHf | vs cs IHvs IHcs | l r IHl IHr | | l IHl ] using dexpr_ind';
    intros d0 H; simpl in H.
  - injection H as <-. constructor.
  - injection H as <-. constructor.
  - injection H as <-. constructor.
  - destruct (omap infer l) as [ds|] eqn:E; [|discriminate].
    eapply HAdd; [eapply Forall_omap_sound; eassumption | apply common_Any_cons, join_all_common, H].
  - destruct (omap infer l) as [ds|] eqn:E; [|discriminate]. injection H as <-.
    apply HMul. eapply Forall_omap_sound; eassumption.
  - destruct (infer b) as [db|] eqn:Eb; [|discriminate].
    destruct (infer e) as [de|] eqn:Ee; [|discriminate].
    destruct (dimless_or_anyb de) eqn:Ed; [|discriminate].
    eapply apow_sound; eauto. apply dimless_or_anyb_iff. exact Ed.
  - apply HSame, IHe, H.
  - destruct (omap infer l) as [ds|] eqn:E; [|discriminate].
    eapply HMinMax; [eapply Forall_omap_sound; eassumption | apply common_Any_cons, join_all_common, H].
  - destruct (omap infer l) as [ds|] eqn:E; [|discriminate].
    destruct (forallb dimless_or_anyb ds) eqn:Ed; [|discriminate]. injection H as <-.
    eapply HFun; [eapply Forall_omap_sound; eassumption | apply Forall_dimless_or_anyb; exact Ed].
  - destruct (omap infer l) as [ds|] eqn:E; [|discriminate]. injection H as <-.
    eapply HApp. eapply Forall_omap_sound; eassumption.
  - destruct (infer f) as [df|] eqn:Ef; [|discriminate]. injection H as <-.
    apply HDeriv, IHf. reflexivity.
  - destruct (infer f) as [df|] eqn:Ef; [|discriminate].
    destruct (omap infer bs) as [ds|] eqn:E; [|discriminate].
    destruct (join_all (aerase v) ds) as [dv|] eqn:J; [|discriminate]. injection H as <-.
    eapply HIntegral; [apply IHf; reflexivity | eapply Forall_omap_sound; eassumption | apply join_all_common, J].
  - apply HSumIdx, IHf, H.
  - destruct (infer f) as [df|] eqn:Ef; [|discriminate].
    destruct (dimless_or_anyb df) eqn:Ed; [|discriminate]. injection H as <-.
    apply HProdIdx; [apply IHf; reflexivity | apply dimless_or_anyb_iff; exact Ed].
  - destruct (omap infer vs) as [ds|] eqn:E1; [|discriminate].
    destruct (omap infer cs) as [dcs|] eqn:E2; [|discriminate].
    eapply HPiecewise; [eapply Forall_omap_sound; eassumption | eapply Forall_omap_sound; eassumption
                       | apply common_Any_cons, join_all_common, H].
  - destruct (infer l) as [dl|] eqn:El; [|discriminate].
    destruct (infer r) as [dr|] eqn:Er; [|discriminate].
    eapply HRel; [apply IHl; reflexivity | apply IHr; reflexivity |].
    apply join_all_common. cbn. rewrite H. reflexivity.
  - injection H as <-. constructor.
  - destruct (omap infer l) as [ds|] eqn:E; [|discriminate]. injection H as <-.
    eapply HConj. eapply Forall_omap_sound; eassumption.
Qed.

(* ---- completeness ---------------------------------------------------------------------------------- *)

Definition complete_at (x : dexpr) : Prop :=
  forall d, Homog x d -> exists d', infer x = Some d' /\ adim_equiv d d'.

Lemma Forall_omap_complete l ds :
  Forall complete_at l -> Forall2 Homog l ds ->
  exists ds', omap infer l = Some ds' /\ Forall2 adim_equiv ds ds'.
Proof.
  intros HF H. induction H as [|x d l ds Hx Hl IH].
  - exists []. split; [reflexivity | constructor].
  - inversion HF as [|x0 l0 H1 H2]; subst.
    destruct (H1 _ Hx) as (d' & E & Q). destruct (IH H2) as (ds' & E' & Q').
    exists (d' :: ds'). rewrite omap_cons, E, E'. split; [reflexivity | constructor; assumption].
Qed.

Lemma equiv_Any_l x : adim_equiv Any x -> x = Any.
Proof. destruct x; cbn; [reflexivity | contradiction]. Qed.

Lemma equiv_D_l a x : adim_equiv (D a) x -> exists a', x = D a' /\ deq a a'.
Proof. destruct x as [|a']; cbn; [contradiction | intros H; exists a'; auto]. Qed.

Lemma join_all_Any_cons x r : join_all Any (x :: r) = join_all x r.
Proof. reflexivity. Qed.

Tactic Notation "list_c" constr(IH) constr(l) ident(ds') ident(E) ident(Q) :=
  match goal with HF : Forall2 Homog l _ |- _ => destruct (Forall_omap_complete _ _ IH HF) as (ds' & E & Q); rewrite E end.
Tactic Notation "one_c" constr(IH) constr(x) ident(d') ident(E) ident(Q) :=
  match goal with HF : Homog x _ |- _ => destruct (IH _ HF) as (d' & E & Q) end.
Tactic Notation "dl_c" constr(de') ident(Ed) :=
  assert (Ed : dimless_or_anyb de' = true)
    by (apply dimless_or_anyb_iff; eapply dimless_or_any_equiv; eassumption);
  rewrite Ed.

Theorem infer_complete e : forall d, Homog e d -> exists d', infer e = Some d' /\ adim_equiv d d'.
Proof.
  change (complete_at e).
  induction e as [ | | d | l IHl | l IHl | b e q IHb IHe | e IHe | l IHl | l IHl | d l IHl | f v n IHf
                 | f v bs IHf IHbs | f IHf | f IHf | vs cs IHvs IHcs | l r IHl IHr | | l IHl ] using dexpr_ind';
    intros d0 H; inversion H; subst; cbn [infer].
  - eexists; split; [reflexivity | apply adim_equiv_refl].
  - eexists; split; [reflexivity | apply adim_equiv_refl].
  - eexists; split; [reflexivity | apply adim_equiv_refl].
  - (* DAdd *)
    list_c IHl l ds' E Q. eapply common_join_all; eassumption.
  - (* DMul *)
    list_c IHl l ds' E Q. eexists; split; [reflexivity | apply amul_all_equiv; assumption].
  - (* DPow, wild base *)
    one_c IHb b db' Eb Qb. apply equiv_Any_l in Qb; subst db'.
    one_c IHe e de' Ee Qe. rewrite Eb, Ee. dl_c de' Ed.
    exists Any. split; [reflexivity | exact I].
  - (* DPow, dimensionless base *)
    one_c IHb b db' Eb Qb. apply equiv_D_l in Qb. destruct Qb as (a' & -> & Qa).
    one_c IHe e de' Ee Qe. rewrite Eb, Ee. dl_c de' Ed. cbn [apow].
    assert (Ea : dimensionless a' = true) by (apply dimensionless_dimless; eapply dimless_deq; eassumption).
    rewrite Ea. exists (D a'). split; [reflexivity | exact Qa].
  - (* DPow, rational exponent *)
    one_c IHb b db' Eb Qb. apply equiv_D_l in Qb. destruct Qb as (a' & -> & Qa).
    one_c IHe e de' Ee Qe. rewrite Eb, Ee. dl_c de' Ed. cbn [apow].
    destruct (dimensionless a') eqn:Ea.
    + exists (D a'). split; [reflexivity|].
      apply dimensionless_dimless in Ea.
      assert (Da : dimless a) by (eapply dimless_deq; [apply deq_sym; exact Qa | exact Ea]).
      change (deq (dpow a r) a').
      eapply deq_trans; [apply dimless_dpow; exact Da | exact Qa].
    + exists (D (dpow a' r)). split; [reflexivity|].
      change (deq (dpow a r) (dpow a' r)). apply dpow_deq; [exact Qa | reflexivity].
  - (* DSame *) apply IHe. assumption.
  - (* DMinMax *)
    list_c IHl l ds' E Q. eapply common_join_all; eassumption.
  - (* DFun *)
    list_c IHl l ds' E Q.
    assert (Ed : forallb dimless_or_anyb ds' = true)
      by (apply Forall_dimless_or_anyb; eapply Forall2_equiv_dimless; eassumption).
    rewrite Ed. eexists; split; [reflexivity | apply adim_equiv_refl].
  - (* DApp *)
    list_c IHl l ds' E Q. eexists; split; [reflexivity | apply adim_equiv_refl].
  - (* DDeriv *)
    one_c IHf f df' Ef Qf. rewrite Ef.
    eexists; split; [reflexivity | apply aderiv_equiv; exact Qf].
  - (* DIntegral *)
    one_c IHf f df' Ef Qf. rewrite Ef. list_c IHbs bs ds' E Q.
    match goal with HC : common (aerase v :: ?ds) _ |- _ =>
      assert (Q' : Forall2 adim_equiv (aerase v :: ds) (aerase v :: ds'))
        by (constructor; [apply adim_equiv_refl | exact Q]);
      destruct (common_join_all _ _ _ HC Q') as (dv' & J & Qv) end.
    rewrite join_all_Any_cons in J. rewrite J.
    eexists; split; [reflexivity | apply amul_equiv; assumption].
  - (* DSumIdx *) apply IHf. assumption.
  - (* DProdIdx *)
    one_c IHf f df' Ef Qf. rewrite Ef. dl_c df' Ed.
    exists df'. split; [reflexivity | exact Qf].
  - (* DPiecewise *)
    list_c IHvs vs ds' E Q. list_c IHcs cs dcs' E' Q'.
    eapply common_join_all; eassumption.
  - (* DRel *)
    one_c IHl l dl' El Ql. one_c IHr r dr' Er Qr. rewrite El, Er.
    match goal with HC : common [?dl; ?dr] _ |- _ =>
      assert (Q' : Forall2 adim_equiv [dl; dr] [dl'; dr']) by (repeat constructor; assumption);
      destruct (common_join_all _ _ _ HC Q') as (d' & J & Qd) end.
    rewrite join_all_Any_cons in J. cbn [join_all] in J.
    destruct (join dl' dr') as [j|]; [|discriminate]. injection J as <-.
    exists j. split; [reflexivity | exact Qd].
  - (* DTrue *) eexists; split; [reflexivity | exact I].
  - (* DConj *)
    list_c IHl l ds' E Q. exists Any. split; [reflexivity | exact I].
Qed.

(* ---- consequences ---------------------------------------------------------------------------------- *)

Theorem check_rel_iff e : check_rel e = true <-> exists d, Homog e d.
Proof.
  unfold check_rel. split.
  - destruct (infer e) as [d|] eqn:E; [|discriminate]. intros _. exists d. apply infer_sound, E.
  - intros [d H]. destruct (infer_complete _ _ H) as (d' & E & _). rewrite E. reflexivity.
Qed.

Theorem check_rel_false_iff e : check_rel e = false <-> forall d, ~ Homog e d.
Proof.
  split.
  - intros E d H. assert (T : check_rel e = true) by (apply check_rel_iff; exists d; exact H). congruence.
  - intros H. destruct (check_rel e) eqn:E; [|reflexivity].
    apply check_rel_iff in E. destruct E as [d Hd]. destruct (H d Hd).
Qed.

(* the dimension of a homogeneous expression is unique up to equivalence *)
Theorem homog_functional e d1 d2 : Homog e d1 -> Homog e d2 -> adim_equiv d1 d2.
Proof.
  intros H1 H2.
  destruct (infer_complete _ _ H1) as (a & Ea & Qa). destruct (infer_complete _ _ H2) as (b & Eb & Qb).
  rewrite Ea in Eb. injection Eb as <-.
  eapply adim_equiv_trans; [exact Qa | apply adim_equiv_sym; exact Qb].
Qed.

(* what the generated catalogue files use *)
Theorem catalogue_forall l : forallb check_rel l = true -> Forall (fun e => exists d, Homog e d) l.
Proof.
  rewrite forallb_forall, Forall_forall. intros H e He. apply check_rel_iff, H, He.
Qed.

(* both sides of an accepted relation have a dimension, and the two are compatible with the relation's *)
Theorem rel_sides l r d : Homog (DRel l r) d ->
  exists dl dr, Homog l dl /\ Homog r dr /\ compat dl d /\ compat dr d.
Proof.
  intros H. inversion H; subst.
  match goal with HC : common [?dl; ?dr] _ |- _ => exists dl, dr; destruct HC as [C _] end.
  inversion C as [|x0 l1 C1 C']; subst. inversion C' as [|x1 l2 C2 _]; subst. auto.
Qed.

(* ---- non-vacuity ----------------------------------------------------------------------------------- *)

Local Open Scope Q_scope.
Definition L_ : dim := [1; 0; 0; 0; 0; 0; 0; 0; 0].
Definition T_ : dim := [0; 0; 1; 0; 0; 0; 0; 0; 0].
Definition V_ : dim := [1; 0; -1; 0; 0; 0; 0; 0; 0].
Definition ANG_ : dim := [0; 0; 0; 0; 0; 0; 0; 1; 0].

(* s = v t + 0 is homogeneous, of dimension length *)
Example ex_accept : infer (DRel (DLeaf L_) (DAdd [DMul [DLeaf V_; DLeaf T_]; DWild])) = Some (D L_).
Proof. vm_compute. reflexivity. Qed.

(* s = v + t is not *)
Example ex_reject : forall d, ~ Homog (DRel (DLeaf L_) (DAdd [DLeaf V_; DLeaf T_])) d.
Proof. apply check_rel_false_iff. vm_compute. reflexivity. Qed.

(* sqrt of an area is a length; an angle counts as dimensionless inside sin *)
Example ex_pow_angle :
  infer (DRel (DLeaf L_) (DMul [DPow (DMul [DLeaf L_; DLeaf L_]) DNum (Some (1 # 2)); DFun [DLeaf ANG_]])) = Some (D L_).
Proof. vm_compute. reflexivity. Qed.

(* exp of a length is refused; a symbolic exponent on a dimensional base is refused; on a pure number it is fine *)
Example ex_fun_reject : check_rel (DFun [DLeaf L_]) = false.
Proof. vm_compute. reflexivity. Qed.
Example ex_symbolic_exponent : check_rel (DPow (DLeaf L_) (DLeaf dzero) None) = false
                               /\ check_rel (DPow DNum (DLeaf dzero) None) = true.
Proof. vm_compute. split; reflexivity. Qed.

(* d^2 x / dt^2 is an acceleration; the integral of a velocity over time (bounds: times) is a length *)
Example ex_deriv_int :
  infer (DDeriv (DLeaf L_) (D T_) 2) = Some (D [1; 0; -2; 0; 0; 0; 0; 0; 0]) /\
  check_rel (DRel (DLeaf L_) (DIntegral (DLeaf V_) (D T_) [DLeaf T_; DLeaf T_])) = true /\
  check_rel (DRel (DLeaf L_) (DIntegral (DLeaf V_) (D T_) [DLeaf T_; DLeaf L_])) = false.
Proof. vm_compute. repeat split; reflexivity. Qed.

(* the order of the terms does not matter, and a wild term does not hide a mismatch after it *)
Example ex_order : check_rel (DAdd [DLeaf L_; DWild; DLeaf T_]) = false /\ check_rel (DAdd [DWild; DLeaf T_; DLeaf L_]) = false.
Proof. vm_compute. split; reflexivity. Qed.
