(* Lemmas about Model/Gate.v *)
From Coq Require Import List QArith ZArith Bool NArith Lia.
From VP Require Import Base.Util Base.Dim Base.Val Model.CollectQ Model.Gate Proofs.DimProofs.
Import ListNotations.

(* what each side of the gate resolves to *)
Inductive side := SErr (k : N) | SWild | SD (d : dim).

Definition xside (x : garg) : side :=
  match x with
  | GDim d => SD d
  | GExpr e => match collect e with
               | Err k => SErr k
               | Ok (f, d) => if is_any f || is_anydim_instance d then SWild else SD d
               end
  end.

Definition aside (a : garg) : side :=
  match a with
  | GDim d => SD d
  | GExpr e => match collect e with
               | Err k => SErr k
               | Ok (f, d) => if negb (is_number f) then SErr E_UNITS
                              else if is_any f || is_anydim_instance d then SWild else SD d
               end
  end.

Definition verdict_of_dims (ad0 xd0 : dim) : verdict :=
  let ad := erase_angle ad0 in let xd := erase_angle xd0 in
  if dimensionless ad && negb (dimensionless xd) then Some E_TYPE
  else if equivalent_dims ad xd then None else Some E_UNITS.

Lemma gate1_sides a x :
  gate1 a x = match xside x with
              | SErr k => Some k
              | SWild => None
              | SD xd => match aside a with
                         | SErr k => Some k
                         | SWild => None
                         | SD ad => verdict_of_dims ad xd
                         end
              end.
Proof.
  unfold gate1, xside, aside, verdict_of_dims.
  destruct x as [xd|xe].
  - destruct a as [ad|ae]; [reflexivity|].
    destruct (collect ae) as [[f d]|k]; [|reflexivity].
    destruct (negb (is_number f)); [reflexivity|]. destruct (is_any f || is_anydim_instance d); reflexivity.
  - destruct (collect xe) as [[xf xd]|k]; [|reflexivity].
    destruct (is_any xf || is_anydim_instance xd); [reflexivity|].
    destruct a as [ad|ae]; [reflexivity|].
    destruct (collect ae) as [[f d]|k]; [|reflexivity].
    destruct (negb (is_number f)); [reflexivity|]. destruct (is_any f || is_anydim_instance d); reflexivity.
Qed.

Definition equiv_mod_angle (a b : dim) : Prop := deq (erase_angle a) (erase_angle b).

Lemma verdict_pass_iff ad xd : verdict_of_dims ad xd = None <-> equiv_mod_angle ad xd.
Proof.
  unfold verdict_of_dims, equiv_mod_angle, equivalent_dims. split.
  - destruct (dimensionless (erase_angle ad) && negb (dimensionless (erase_angle xd))); [discriminate|].
    destruct (deqb (erase_angle ad) (erase_angle xd)) eqn:E; [|discriminate]. intros _. apply deqb_deq. exact E.
  - intros H. rewrite (dimensionless_deq _ _ H). apply deqb_deq in H. rewrite H.
    destruct (dimensionless (erase_angle xd)); reflexivity.
Qed.

Lemma verdict_type_iff ad xd :
  verdict_of_dims ad xd = Some E_TYPE <->
  dimensionless (erase_angle ad) = true /\ dimensionless (erase_angle xd) = false.
Proof.
  unfold verdict_of_dims, E_TYPE, E_UNITS.
  destruct (dimensionless (erase_angle ad)), (dimensionless (erase_angle xd)); cbn [andb negb];
    destruct (equivalent_dims (erase_angle ad) (erase_angle xd)); split; intros H;
    try discriminate H; try (destruct H as [H1 H2]; discriminate); auto.
Qed.

Lemma verdict_units_iff ad xd :
  verdict_of_dims ad xd = Some E_UNITS <->
  ~ equiv_mod_angle ad xd /\ (dimensionless (erase_angle ad) = false \/ dimensionless (erase_angle xd) = true).
Proof.
  unfold verdict_of_dims, equiv_mod_angle, equivalent_dims, E_TYPE, E_UNITS.
  destruct (deqb (erase_angle ad) (erase_angle xd)) eqn:E.
  - assert (Hd := proj1 (deqb_deq _ _) E). rewrite (dimensionless_deq _ _ Hd).
    destruct (dimensionless (erase_angle xd)); cbn [andb negb]; split; intros H; try discriminate H;
      destruct H as [H _]; contradiction.
  - assert (Hn : ~ deq (erase_angle ad) (erase_angle xd)) by (intros H; apply deqb_deq in H; congruence).
    destruct (dimensionless (erase_angle ad)), (dimensionless (erase_angle xd)); cbn [andb negb]; split; intros H;
      try discriminate H; try reflexivity; try (split; [exact Hn | auto]).
    destruct H as [_ [H|H]]; discriminate.
Qed.

Lemma verdict_total ad xd :
  verdict_of_dims ad xd = None \/ verdict_of_dims ad xd = Some E_TYPE \/ verdict_of_dims ad xd = Some E_UNITS.
Proof.
  unfold verdict_of_dims. destruct (dimensionless (erase_angle ad) && negb (dimensionless (erase_angle xd))); auto.
  destruct (equivalent_dims (erase_angle ad) (erase_angle xd)); auto.
Qed.

(* ---- the three verdicts ------------------------------------------------------------------------ *)
Theorem gate1_pass_iff a x :
  gate1 a x = None <->
  xside x = SWild \/
  exists xd, xside x = SD xd /\ (aside a = SWild \/ exists ad, aside a = SD ad /\ equiv_mod_angle ad xd).
Proof.
  rewrite gate1_sides. destruct (xside x) as [k| |xd].
  - split; [discriminate|]. intros [H|[xd [H _]]]; discriminate.
  - split; auto.
  - destruct (aside a) as [k| |ad].
    + split; [discriminate|]. intros [H|[xd' [_ [H|[ad [H _]]]]]]; discriminate.
    + split; [|reflexivity]. intros _. right. exists xd. auto.
    + rewrite verdict_pass_iff. split.
      * intros H. right. exists xd. split; [reflexivity|]. right. exists ad. auto.
      * intros [H|[xd' [Hx [H|[ad' [Ha He]]]]]]; try discriminate. inversion Hx; inversion Ha; subst. exact He.
Qed.

Theorem gate1_typeerr_iff a x ad xd :
  xside x = SD xd -> aside a = SD ad ->
  (gate1 a x = Some E_TYPE <-> dimensionless (erase_angle ad) = true /\ dimensionless (erase_angle xd) = false).
Proof. intros Hx Ha. rewrite gate1_sides, Hx, Ha. apply verdict_type_iff. Qed.

Theorem gate1_unitserr_iff a x ad xd :
  xside x = SD xd -> aside a = SD ad ->
  (gate1 a x = Some E_UNITS <->
   ~ equiv_mod_angle ad xd /\ (dimensionless (erase_angle ad) = false \/ dimensionless (erase_angle xd) = true)).
Proof. intros Hx Ha. rewrite gate1_sides, Hx, Ha. apply verdict_units_iff. Qed.

Theorem gate1_partition a x ad xd :
  xside x = SD xd -> aside a = SD ad ->
  gate1 a x = None \/ gate1 a x = Some E_TYPE \/ gate1 a x = Some E_UNITS.
Proof. intros Hx Ha. rewrite gate1_sides, Hx, Ha. apply verdict_total. Qed.

(* a bare non-zero number where a dimensional quantity is required is a type error; zero, +-oo, nan pass *)
Theorem gate1_bare_number_refused v xd :
  is_number v = true -> is_any v = false -> dimensionless (erase_angle xd) = false ->
  gate1 (GExpr (QNum v)) (GDim xd) = Some E_TYPE.
Proof.
  intros Hn Ha Hx. rewrite gate1_sides.
  assert (Hs : aside (GExpr (QNum v)) = SD dzero).
  { unfold aside. cbn [collect]. rewrite Hn. cbn [negb]. rewrite Hn, Ha. reflexivity. }
  rewrite Hs. cbn [xside]. unfold verdict_of_dims. rewrite Hx. reflexivity.
Qed.

Theorem gate1_any_value_passes v d x :
  is_any v = true -> (forall k, xside x <> SErr k) ->
  gate1 (GExpr (QQty v d)) x = None /\ gate1 (GExpr (QNum v)) x = None.
Proof.
  intros Ha Hx.
  assert (Hn : is_number v = true) by (destruct v; try reflexivity; discriminate Ha).
  assert (H1 : aside (GExpr (QQty v d)) = SWild).
  { unfold aside. cbn [collect]. rewrite Hn. cbn [negb]. rewrite Ha. reflexivity. }
  assert (H2 : aside (GExpr (QNum v)) = SWild).
  { unfold aside. cbn [collect]. rewrite Hn. cbn [negb]. rewrite Hn, Ha. reflexivity. }
  rewrite !gate1_sides, H1, H2. destruct (xside x) as [k| |xd]; [exfalso; apply (Hx k); reflexivity | auto | auto].
Qed.

(* ---- magnitude and prefix irrelevance ---------------------------------------------------------- *)
Theorem gate1_magnitude_irrelevant v v' d x :
  is_number v = true -> is_number v' = true -> is_any v = false -> is_any v' = false ->
  gate1 (GExpr (QQty v d)) x = gate1 (GExpr (QQty v' d)) x.
Proof.
  intros N1 N2 A1 A2. rewrite !gate1_sides. unfold aside. cbn [collect]. rewrite N1, N2, A1, A2. reflexivity.
Qed.

Lemma qzero_mul p q : qzero p = false -> qzero q = false -> qzero (Qred (p * q)) = false.
Proof.
  unfold qzero. intros Hp Hq. destruct (Qeq_bool (Qred (p * q)) 0) eqn:E; [|reflexivity].
  apply Qeq_bool_iff in E. rewrite Qred_correct in E. apply Qmult_integral in E.
  destruct E as [E|E]; apply Qeq_bool_iff in E; congruence.
Qed.

Lemma deqb_congr_l a a' b : deq a a' -> deqb a b = deqb a' b.
Proof.
  intros H. destruct (deqb a b) eqn:E, (deqb a' b) eqn:F; try reflexivity.
  - apply deqb_deq in E. assert (G : deq a' b) by (eapply deq_trans; [apply deq_sym; exact H | exact E]).
    apply deqb_deq in G. congruence.
  - apply deqb_deq in F. assert (G : deq a b) by (eapply deq_trans; eassumption). apply deqb_deq in G. congruence.
Qed.

Lemma verdict_congr_l ad ad' xd : deq ad ad' -> verdict_of_dims ad xd = verdict_of_dims ad' xd.
Proof.
  intros H. unfold verdict_of_dims, equivalent_dims. apply erase_angle_deq in H.
  rewrite (dimensionless_deq _ _ H), (deqb_congr_l _ _ _ H). reflexivity.
Qed.

Lemma dmul_dzero_l d : wf_dim d -> deq (dmul dzero d) d.
Proof.
  unfold wf_dim, NB. intros H.
  do 9 (destruct d as [|? d]; [discriminate H|]). destruct d; [|discriminate H].
  cbn. repeat constructor; ring.
Qed.

Lemma anydim_congr d d' : deq d d' -> is_anydim_instance d = is_anydim_instance d'.
Proof. intros H. unfold is_anydim_instance. apply deqb_congr_l. exact H. Qed.

Lemma collect_prefix_mul p q d : qzero p = false -> qzero q = false ->
  collect (QMul [QPrefix (VQ p); QQty (VQ q) d]) = Ok (VQ (Qred (p * q)), dmul dzero d).
Proof.
  intros Hp Hq. cbn [collect mul_go]. unfold mul_step. cbn [fst snd vmul].
  change (is_any (VQ (Qred (p * q)))) with (qzero (Qred (p * q))). rewrite (qzero_mul p q Hp Hq). reflexivity.
Qed.

Theorem gate1_prefix_irrelevant p q d x :
  wf_dim d -> qzero p = false -> qzero q = false ->
  gate1 (GExpr (QMul [QPrefix (VQ p); QQty (VQ q) d])) x = gate1 (GExpr (QQty (VQ q) d)) x.
Proof.
  intros Hw Hp Hq. rewrite !gate1_sides. unfold aside. rewrite (collect_prefix_mul p q d Hp Hq). cbn [collect].
  cbn [is_number negb]. change (is_any (VQ (Qred (p * q)))) with (qzero (Qred (p * q))).
  change (is_any (VQ q)) with (qzero q). rewrite (qzero_mul p q Hp Hq), Hq. cbn [orb].
  rewrite (anydim_congr _ _ (dmul_dzero_l d Hw)).
  destruct (xside x) as [k| |xd]; try reflexivity.
  destruct (is_anydim_instance d); [reflexivity|]. apply verdict_congr_l, dmul_dzero_l, Hw.
Qed.

(* ---- sequences --------------------------------------------------------------------------------- *)
Lemma gate_items_one l x : forall idx,
  gate_items l idx (SOne x) = None <-> Forall (fun a => gate1 a x = None) l.
Proof.
  induction l as [|a r IH]; intros idx; cbn [gate_items].
  - split; [constructor | reflexivity].
  - destruct (gate1 a x) as [k|] eqn:E.
    + split; [discriminate|]. intros H. inversion H; congruence.
    + rewrite IH. split; [intros H; constructor; assumption | intros H; inversion H; assumption].
Qed.

Theorem gate_seq_pass_iff l x : gate (GSeq l) (SOne x) = None <-> Forall (fun a => gate1 a x = None) l.
Proof. unfold gate. apply gate_items_one. Qed.

Theorem gate_one a x : gate (GOne a) (SOne x) = gate1 a x.
Proof. unfold gate. cbn. destruct (gate1 a x); reflexivity. Qed.

(* the first failing element decides *)
Theorem gate_seq_first_failure l x k :
  gate (GSeq l) (SOne x) = Some k ->
  exists l1 a l2, l = l1 ++ a :: l2 /\ Forall (fun b => gate1 b x = None) l1 /\ gate1 a x = Some k.
Proof.
  unfold gate. generalize 0%nat. induction l as [|a r IH]; intros idx H; cbn [gate_items] in H; [discriminate|].
  destruct (gate1 a x) as [k'|] eqn:E.
  - inversion H; subst. exists [], a, r. repeat split; auto.
  - destruct (IH _ H) as [l1 [b [l2 [-> [H1 H2]]]]]. exists (a :: l1), b, l2. repeat split; auto.
Qed.

(* ---- decorated calls --------------------------------------------------------------------------- *)
Lemma check_params_pass params guards bound :
  check_params params guards bound = None ->
  forall p s, In p params -> lookup p guards = Some s -> exists v, lookup p bound = Some v /\ gate v s = None.
Proof.
  induction params as [|q ps IH]; intros H p s Hin Hg; [destruct Hin|].
  cbn [check_params] in H. destruct Hin as [->|Hin].
  - rewrite Hg in H. destruct (lookup p bound) as [v|]; [|discriminate]. destruct (gate v s) eqn:E; [discriminate|].
    exists v. auto.
  - destruct (lookup q guards) as [s'|].
    + destruct (lookup q bound) as [v|]; [|discriminate]. destruct (gate v s'); [discriminate|]. eapply IH; eassumption.
    + eapply IH; eassumption.
Qed.

(* a guarded function body runs, and its result is returned, only if every guarded argument and the result
   pass the gate *)
Theorem guarded_call_runs_only_if_all_pass params guards out pos kw ret :
  guarded_call params guards out pos kw ret = None ->
  exists bound, bind params pos kw = Some bound /\
    (forall p s, In p params -> lookup p guards = Some s -> exists v, lookup p bound = Some v /\ gate v s = None) /\
    (forall s, out = Some s -> gate ret s = None).
Proof.
  unfold guarded_call. destruct (bind params pos kw) as [bound|]; [|discriminate].
  destruct (check_params params guards bound) eqn:E; [discriminate|]. intros H.
  exists bound. split; [reflexivity|]. split.
  - apply check_params_pass. exact E.
  - intros s ->. exact H.
Qed.

Theorem output_gate params guards s pos kw ret k :
  gate ret s = Some k ->
  guarded_call params guards (Some s) pos kw ret <> None.
Proof.
  intros Hg H. apply guarded_call_runs_only_if_all_pass in H as [_ [_ [_ H]]]. specialize (H s eq_refl). congruence.
Qed.

(* the verdict depends on the bound arguments only through `lookup`: any two ways of passing the same
   arguments (positionally or by keyword, keywords in any order) that bind the same values give the same verdict *)
Lemma check_params_ext params guards b b' :
  (forall p, In p params -> lookup p b = lookup p b') -> check_params params guards b = check_params params guards b'.
Proof.
  induction params as [|q ps IH]; intros H; [reflexivity|]. cbn [check_params].
  rewrite (H q (or_introl eq_refl)).
  destruct (lookup q guards) as [s|]; [destruct (lookup q b') as [v|]; [destruct (gate v s)|]|];
    try reflexivity; apply IH; intros p Hp; apply H; right; exact Hp.
Qed.

Theorem bind_style_irrelevant params guards out pos kw pos' kw' ret b b' :
  bind params pos kw = Some b -> bind params pos' kw' = Some b' ->
  (forall p, In p params -> lookup p b = lookup p b') ->
  guarded_call params guards out pos kw ret = guarded_call params guards out pos' kw' ret.
Proof.
  intros Hb Hb' H. unfold guarded_call. rewrite Hb, Hb', (check_params_ext params guards b b' H). reflexivity.
Qed.

(* positional and keyword passing of the same values do bind the same values *)
Lemma lookup_app_l {A} p (l1 l2 : list (pname * A)) v : lookup p l1 = Some v -> lookup p (l1 ++ l2) = Some v.
Proof.
  induction l1 as [|[k x] r IH]; cbn; [discriminate|]. destruct (N.eqb k p); auto.
Qed.

Example bind_example :
  let a := GOne (GDim dzero) in let b := GOne (GDim (base 0)) in
  bind [1%N; 2%N] [a; b] [] = Some [(1%N, a); (2%N, b)] /\
  bind [1%N; 2%N] [a] [(2%N, b)] = Some [(1%N, a); (2%N, b)] /\
  bind [1%N; 2%N] [] [(2%N, b); (1%N, a)] = Some [(2%N, b); (1%N, a)] /\
  bind [1%N; 2%N] [a; b] [(2%N, b)] = None /\
  bind [1%N; 2%N] [a] [] = None.
Proof. vm_compute. repeat split; reflexivity. Qed.

(* non-vacuity: energy vs torque (equivalent), angular frequency vs frequency (equivalent through angle),
   length vs time, bare numbers *)
Definition d_energy : dim := [2; 1; -2; 0; 0; 0; 0; 0; 0]%Q.
Definition d_torque_per_rad : dim := [2; 1; -2; 0; 0; 0; 0; -1; 0]%Q.
Definition d_len : dim := base 0.
Definition d_tim : dim := base 2.

Example gate_examples :
  gate1 (GExpr (QQty (VQ 5) d_energy)) (GDim d_torque_per_rad) = None /\
  gate1 (GExpr (QQty (VQ 5) d_len)) (GDim d_tim) = Some E_UNITS /\
  gate1 (GExpr (QNum (VQ 5))) (GDim d_len) = Some E_TYPE /\
  gate1 (GExpr (QNum (VQ 0))) (GDim d_len) = None /\
  gate1 (GExpr (QNum VNaN)) (GDim d_len) = None /\
  gate1 (GExpr (QQty (VQ 5) d_len)) (GExpr (QQty (VQ 0) d_tim)) = None /\
  gate1 (GExpr (QQty (VQ 5) d_len)) (GDim dzero) = Some E_UNITS /\
  gate1 (GExpr (QNum VSym)) (GDim d_len) = Some E_VALUE.
Proof. vm_compute. repeat split; reflexivity. Qed.
