(* The structural derivative Dv / Ds of Model/VecDiff.v is the derivative: for expressions whose atoms are
   differentiable (vector functions with the stated derivative), t |-> value is differentiable at t with
   derivative the value of D e -- sums, scalings, dot / cross / mixed products by the product rule, the norm
   where it does not vanish. *)
From Coq Require Import Reals Ranalysis Sqrt_reg Lra.
From VP Require Import Model.Vec3 Model.VecDiff Proofs.Vec3Proofs.
Local Open Scope R_scope.

Notation dl := derivable_pt_lim.

Lemma dl_eq f t l l' : dl f t l -> l = l' -> dl f t l'.
Proof. intros H <-. exact H. Qed.

Lemma dl_ext f g t l : (forall u, f u = g u) -> dl f t l -> dl g t l.
Proof.
  intros E H eps He. destruct (H eps He) as [d Hd]. exists d. intros h Hh Hlt. rewrite <- !E. apply Hd; assumption.
Qed.

Lemma dl_const c t : dl (fun _ => c) t 0.
Proof. exact (derivable_pt_lim_const c t). Qed.
Lemma dl_id t : dl (fun u => u) t 1.
Proof. exact (derivable_pt_lim_id t). Qed.
Lemma dl_plus f g t a b : dl f t a -> dl g t b -> dl (fun u => f u + g u) t (a + b).
Proof. exact (derivable_pt_lim_plus f g t a b). Qed.
Lemma dl_minus f g t a b : dl f t a -> dl g t b -> dl (fun u => f u - g u) t (a - b).
Proof. exact (derivable_pt_lim_minus f g t a b). Qed.
Lemma dl_mult f g t a b : dl f t a -> dl g t b -> dl (fun u => f u * g u) t (a * g t + f t * b).
Proof. exact (derivable_pt_lim_mult f g t a b). Qed.
Lemma dl_div f g t a b : dl f t a -> dl g t b -> g t <> 0 ->
  dl (fun u => f u / g u) t ((a * g t - b * f t) / Rsqr (g t)).
Proof. exact (derivable_pt_lim_div f g t a b). Qed.
Lemma dl_sqrt f t a : dl f t a -> 0 < f t -> dl (fun u => sqrt (f u)) t (/ (2 * sqrt (f t)) * a).
Proof.
  intros H Hp. exact (derivable_pt_lim_comp f sqrt t a (/ (2 * sqrt (f t))) H (derivable_pt_lim_sqrt (f t) Hp)).
Qed.

(* ---- vector-valued building blocks ---- *)

Lemma dlim3_const v t : dlim3 (fun _ => v) t vzero.
Proof. repeat split; apply dl_const. Qed.

Lemma dlim3_add F G t A B : dlim3 F t A -> dlim3 G t B -> dlim3 (fun u => vadd (F u) (G u)) t (vadd A B).
Proof.
  intros (F1 & F2 & F3) (G1 & G2 & G3). repeat split; cbn [vadd vx vy vz].
  - exact (dl_plus _ _ _ _ _ F1 G1).
  - exact (dl_plus _ _ _ _ _ F2 G2).
  - exact (dl_plus _ _ _ _ _ F3 G3).
Qed.

Lemma dlim3_scale k F t a A : dl k t a -> dlim3 F t A ->
  dlim3 (fun u => vscale (k u) (F u)) t (vadd (vscale a (F t)) (vscale (k t) A)).
Proof.
  intros Hk (F1 & F2 & F3). repeat split; cbn [vadd vscale vx vy vz].
  - exact (dl_mult _ _ _ _ _ Hk F1).
  - exact (dl_mult _ _ _ _ _ Hk F2).
  - exact (dl_mult _ _ _ _ _ Hk F3).
Qed.

Lemma dlim3_cross F G t A B : dlim3 F t A -> dlim3 G t B ->
  dlim3 (fun u => cross (F u) (G u)) t (vadd (cross A (G t)) (cross (F t) B)).
Proof.
  intros (F1 & F2 & F3) (G1 & G2 & G3). repeat split; cbn [vadd cross vx vy vz].
  - eapply dl_eq; [exact (dl_minus _ _ _ _ _ (dl_mult _ _ _ _ _ F2 G3) (dl_mult _ _ _ _ _ F3 G2))|cbv beta; ring].
  - eapply dl_eq; [exact (dl_minus _ _ _ _ _ (dl_mult _ _ _ _ _ F3 G1) (dl_mult _ _ _ _ _ F1 G3))|cbv beta; ring].
  - eapply dl_eq; [exact (dl_minus _ _ _ _ _ (dl_mult _ _ _ _ _ F1 G2) (dl_mult _ _ _ _ _ F2 G1))|cbv beta; ring].
Qed.

Lemma dl_dot F G t A B : dlim3 F t A -> dlim3 G t B ->
  dl (fun u => dot (F u) (G u)) t (dot A (G t) + dot (F t) B).
Proof.
  intros (F1 & F2 & F3) (G1 & G2 & G3). unfold dot.
  eapply dl_eq;
    [exact (dl_plus _ _ _ _ _ (dl_plus _ _ _ _ _ (dl_mult _ _ _ _ _ F1 G1) (dl_mult _ _ _ _ _ F2 G2)) (dl_mult _ _ _ _ _ F3 G3))|cbv beta; ring].
Qed.

Lemma dl_norm F t A : dlim3 F t A -> norm (F t) <> 0 ->
  dl (fun u => norm (F u)) t (dot (F t) A / norm (F t)).
Proof.
  intros HF Hn. unfold norm at 1.
  assert (Hp : 0 < dot (F t) (F t)).
  { pose proof (dot_self_nonneg (F t)) as H0. destruct H0 as [H0|H0]; [exact H0|].
    exfalso. apply Hn. unfold norm. rewrite <- H0. apply sqrt_0. }
  eapply dl_eq; [exact (dl_sqrt _ _ _ (dl_dot F F t A A HF HF) Hp)|].
  cbv beta. fold (norm (F t)). rewrite (dot_comm A (F t)). field. exact Hn.
Qed.

(* ---- the theorem ---- *)

Scheme pv_mut := Induction for pv Sort Prop
  with ps_mut := Induction for ps Sort Prop.
Combined Scheme pvs_ind from pv_mut, ps_mut.

Theorem diff_is_derivative :
  (forall e t, wf_v e t -> dlim3 (pval_v e) t (pval_v (Dv e) t)) /\
  (forall e t, wf_s e t -> dl (pval_s e) t (pval_s (Ds e) t)).
Proof.
  apply pvs_ind.
  - intros v t _. cbn [pval_v Dv]. apply (dlim3_const v t).
  - intros f n t H. cbn [pval_v Dv wf_v] in *. exact H.
  - intros x IHx y IHy t [Hx Hy]. cbn [pval_v Dv].
    exact (dlim3_add _ _ _ _ _ (IHx t Hx) (IHy t Hy)).
  - intros k IHk x IHx t [Hk Hx]. cbn [pval_v Dv].
    exact (dlim3_scale _ _ _ _ _ (IHk t Hk) (IHx t Hx)).
  - intros x IHx y IHy t [Hx Hy]. cbn [pval_v Dv].
    exact (dlim3_cross _ _ _ _ _ (IHx t Hx) (IHy t Hy)).
  - intros r t _. cbn [pval_s Ds]. apply dl_const.
  - intros t _. cbn [pval_s Ds]. apply dl_id.
  - intros p IHp q IHq t [Hp Hq]. cbn [pval_s Ds]. exact (dl_plus _ _ _ _ _ (IHp t Hp) (IHq t Hq)).
  - intros p IHp q IHq t [Hp Hq]. cbn [pval_s Ds]. exact (dl_mult _ _ _ _ _ (IHp t Hp) (IHq t Hq)).
  - intros p IHp q IHq t (Hp & Hq & Hn). cbn [pval_s Ds].
    eapply dl_eq; [exact (dl_div _ _ _ _ _ (IHp t Hp) (IHq t Hq) Hn)|].
    cbv beta. unfold Rsqr. field. exact Hn.
  - intros x IHx y IHy t [Hx Hy]. cbn [pval_s Ds pval_v].
    exact (dl_dot _ _ _ _ _ (IHx t Hx) (IHy t Hy)).
  - intros x IHx y IHy z IHz t (Hx & Hy & Hz). cbn [pval_s Ds pval_v]. unfold mixed.
    exact (dl_dot _ _ _ _ _ (IHx t Hx) (dlim3_cross _ _ _ _ _ (IHy t Hy) (IHz t Hz))).
  - intros x IHx t [Hx Hn]. cbn [pval_s Ds pval_v].
    exact (dl_norm _ _ _ (IHx t Hx) Hn).
Qed.

(* non-vacuity: d/dt [ (t a) . (b + t^2 a) ]  at t, for constant vectors a, b *)
Example diff_ex (a b : V3) (t : R) :
  dl (pval_s (PDotS (PScaleV PPar (PSym a)) (PAddV (PSym b) (PScaleV (PMulS PPar PPar) (PSym a))))) t
     (dot a b + 3 * t * t * dot a a).
Proof.
  eapply dl_eq.
  - apply (proj2 diff_is_derivative). cbn. tauto.
  - cbn [pval_s pval_v Ds Dv]. destruct a as [a1 a2 a3], b as [b1 b2 b3].
    cbv [dot vadd vscale vzero Vec3.vx Vec3.vy Vec3.vz]. ring.
Qed.
