(* Self-consistency of the hand-entered reference table Model/Consts.v: the CODATA / IAU values entered there satisfy
   the identities of property C20 among themselves, and the expected dimensions are mutually consistent.
   (The catalogue's own values are checked against this table by lemmas generated on every run, harness/props/c20.py.) *)
From Coq Require Import Reals List QArith ZArith Bool.
From Interval Require Import Tactic.
From VP Require Import Base.Dim Model.Consts.
Import ListNotations.
Local Open Scope R_scope.

Ltac refs_unfold :=
  unfold tol_identity, tol_default, wien_x, ref_speed_of_light, ref_planck, ref_hbar, ref_elementary_charge,
    ref_boltzmann_constant, ref_avogadro_constant, ref_molar_gas_constant, ref_faraday_constant,
    ref_stefan_boltzmann_constant, ref_wien_displacement_constant, ref_vacuum_permeability,
    ref_vacuum_permittivity, ref_vacuum_impedance, ref_electron_rest_mass, ref_richardson_constant,
    ref_proton_rest_mass, ref_neutron_rest_mass, ref_atomic_mass_constant, ref_fine_structure_constant,
    ref_rydberg_constant, ref_bohr_magneton, ref_rydberg_frequency, ref_bohr_radius.

Ltac refs_interval := refs_unfold; interval with (i_prec 120).

Lemma refs_gas_constant :
  Rabs (ref_molar_gas_constant / (ref_boltzmann_constant * ref_avogadro_constant) - 1) <= tol_identity.
Proof. refs_interval. Qed.

Lemma refs_faraday :
  Rabs (ref_faraday_constant / (ref_elementary_charge * ref_avogadro_constant) - 1) <= tol_identity.
Proof. refs_interval. Qed.

Lemma refs_hbar : Rabs (ref_hbar / (ref_planck / (2 * PI)) - 1) <= tol_identity.
Proof. refs_interval. Qed.

Lemma refs_maxwell :
  Rabs (ref_vacuum_permittivity * ref_vacuum_permeability * ref_speed_of_light ^ 2 - 1) <= tol_identity.
Proof. refs_interval. Qed.

Lemma refs_impedance :
  Rabs (ref_vacuum_impedance / (ref_vacuum_permeability * ref_speed_of_light) - 1) <= tol_identity.
Proof. refs_interval. Qed.

Lemma refs_stefan_boltzmann :
  Rabs (ref_stefan_boltzmann_constant /
        (2 * PI ^ 5 * ref_boltzmann_constant ^ 4 / (15 * ref_planck ^ 3 * ref_speed_of_light ^ 2)) - 1)
  <= tol_identity.
Proof. refs_interval. Qed.

Lemma refs_wien :
  Rabs (ref_wien_displacement_constant /
        (ref_planck * ref_speed_of_light / (wien_x * ref_boltzmann_constant)) - 1) <= tol_identity.
Proof. refs_interval. Qed.

(* the property's six-decimal 4.965114 reproduces the reference to one part in 1e7 *)
Lemma refs_wien_truncated :
  Rabs (ref_wien_displacement_constant /
        (ref_planck * ref_speed_of_light / (4.965114 * ref_boltzmann_constant)) - 1) <= 1e-7.
Proof. refs_interval. Qed.

(* wien_x solves x = 5 (1 - exp (-x)) to 1e-12 *)
Lemma refs_wien_root : Rabs (wien_x - 5 * (1 - exp (- wien_x))) <= 1e-12.
Proof. refs_interval. Qed.

Lemma refs_richardson : Rabs (ref_richardson_constant / 1.20173e6 - 1) <= 1e-5.
Proof. refs_interval. Qed.

Lemma refs_dims_wellformed :
  forallb wf_dimb
    [dim_speed_of_light; dim_planck; dim_hbar; dim_elementary_charge; dim_boltzmann_constant; dim_avogadro_constant;
     dim_molar_gas_constant; dim_faraday_constant; dim_stefan_boltzmann_constant; dim_wien_displacement_constant;
     dim_vacuum_permeability; dim_vacuum_permittivity; dim_vacuum_impedance; dim_electron_rest_mass; dim_bohr_radius;
     dim_rydberg_frequency; dim_gravitational_constant; dim_richardson_constant; dim_hydrogen_ionization_energy;
     dim_acceleration_due_to_gravity; dim_standard_conditions_temperature; dim_standard_laboratory_temperature;
     dim_solar_mass; dim_earth_mass; dim_zero_point_luminosity; dim_sun_luminosity; dim_hubble_constant] = true.
Proof. vm_compute. reflexivity. Qed.

Definition dpowz (d : dim) (z : Z) : dim := dpow d (inject_Z z).

Lemma refs_dims_consistent :
  deqb (dmul dim_boltzmann_constant dim_avogadro_constant) dim_molar_gas_constant
  && deqb (dmul dim_elementary_charge dim_avogadro_constant) dim_faraday_constant
  && deqb dim_planck dim_hbar
  && deqb (dmul (dmul dim_vacuum_permittivity dim_vacuum_permeability) (dpowz dim_speed_of_light 2)) dzero
  && deqb (dmul dim_vacuum_permeability dim_speed_of_light) dim_vacuum_impedance
  && deqb (ddiv (dpowz dim_boltzmann_constant 4) (dmul (dpowz dim_planck 3) (dpowz dim_speed_of_light 2)))
          dim_stefan_boltzmann_constant
  && deqb (ddiv (dmul dim_planck dim_speed_of_light) dim_boltzmann_constant) dim_wien_displacement_constant
  = true.
Proof. vm_compute. reflexivity. Qed.

(* reserve entries: cross-checks among the reference values (CODATA 2018 ratios and defining relations) *)
Lemma refs_nucleon_masses :
  ref_proton_rest_mass < ref_neutron_rest_mass /\
  Rabs (ref_neutron_rest_mass / ref_proton_rest_mass / 1.00137841931 - 1) <= tol_identity /\
  Rabs (ref_proton_rest_mass / ref_electron_rest_mass / 1836.15267343 - 1) <= tol_identity.
Proof. repeat split; refs_interval. Qed.

(* alpha = e^2 / (4 pi eps0 hbar c),  R_inf = alpha^2 m_e c / (2 h),  c R_inf,  a0 = hbar / (m_e c alpha),
   mu_B = e hbar / (2 m_e) *)
Lemma refs_atomic :
  Rabs (ref_fine_structure_constant /
        (ref_elementary_charge ^ 2 / (4 * PI * ref_vacuum_permittivity * ref_hbar * ref_speed_of_light)) - 1) <= 1e-8 /\
  Rabs (ref_rydberg_constant /
        (ref_fine_structure_constant ^ 2 * ref_electron_rest_mass * ref_speed_of_light / (2 * ref_planck)) - 1) <= 1e-8 /\
  Rabs (ref_rydberg_frequency / (ref_speed_of_light * ref_rydberg_constant) - 1) <= tol_identity /\
  Rabs (ref_bohr_radius /
        (ref_hbar / (ref_electron_rest_mass * ref_speed_of_light * ref_fine_structure_constant)) - 1) <= 1e-8 /\
  Rabs (ref_bohr_magneton / (ref_elementary_charge * ref_hbar / (2 * ref_electron_rest_mass)) - 1) <= 1e-8.
Proof. repeat split; refs_interval. Qed.

(* all of the above in one statement (one Print Assumptions instead of twelve in Properties/C20.v) *)
Lemma refs_consistent :
  (Rabs (ref_molar_gas_constant / (ref_boltzmann_constant * ref_avogadro_constant) - 1) <= tol_identity) /\
  (Rabs (ref_faraday_constant / (ref_elementary_charge * ref_avogadro_constant) - 1) <= tol_identity) /\
  (Rabs (ref_hbar / (ref_planck / (2 * PI)) - 1) <= tol_identity) /\
  (Rabs (ref_vacuum_permittivity * ref_vacuum_permeability * ref_speed_of_light ^ 2 - 1) <= tol_identity) /\
  (Rabs (ref_vacuum_impedance / (ref_vacuum_permeability * ref_speed_of_light) - 1) <= tol_identity) /\
  (Rabs (ref_stefan_boltzmann_constant / (2 * PI ^ 5 * ref_boltzmann_constant ^ 4 / (15 * ref_planck ^ 3 * ref_speed_of_light ^ 2)) - 1) <= tol_identity) /\
  (Rabs (ref_wien_displacement_constant / (ref_planck * ref_speed_of_light / (wien_x * ref_boltzmann_constant)) - 1) <= tol_identity) /\
  (Rabs (ref_wien_displacement_constant / (ref_planck * ref_speed_of_light / (4.965114 * ref_boltzmann_constant)) - 1) <= 1e-7) /\
  (Rabs (wien_x - 5 * (1 - exp (- wien_x))) <= 1e-12) /\
  (Rabs (ref_richardson_constant / 1.20173e6 - 1) <= 1e-5) /\
  (ref_proton_rest_mass < ref_neutron_rest_mass /\ Rabs (ref_neutron_rest_mass / ref_proton_rest_mass / 1.00137841931 - 1) <= tol_identity /\ Rabs (ref_proton_rest_mass / ref_electron_rest_mass / 1836.15267343 - 1) <= tol_identity) /\
  (Rabs (ref_fine_structure_constant / (ref_elementary_charge ^ 2 / (4 * PI * ref_vacuum_permittivity * ref_hbar * ref_speed_of_light)) - 1) <= 1e-8 /\ Rabs (ref_rydberg_constant / (ref_fine_structure_constant ^ 2 * ref_electron_rest_mass * ref_speed_of_light / (2 * ref_planck)) - 1) <= 1e-8 /\ Rabs (ref_rydberg_frequency / (ref_speed_of_light * ref_rydberg_constant) - 1) <= tol_identity /\ Rabs (ref_bohr_radius / (ref_hbar / (ref_electron_rest_mass * ref_speed_of_light * ref_fine_structure_constant)) - 1) <= 1e-8 /\ Rabs (ref_bohr_magneton / (ref_elementary_charge * ref_hbar / (2 * ref_electron_rest_mass)) - 1) <= 1e-8).
Proof. exact (conj refs_gas_constant (conj refs_faraday (conj refs_hbar (conj refs_maxwell (conj refs_impedance (conj refs_stefan_boltzmann (conj refs_wien (conj refs_wien_truncated (conj refs_wien_root (conj refs_richardson (conj refs_nucleon_masses refs_atomic))))))))))). Qed.
