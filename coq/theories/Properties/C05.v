(* C05 -- quantity construction computes the SI value and dimension, or refuses.
   Statements about Model/CollectQ.v (tied to symplyphysics/core/dimensions/collect_quantity.py and
   Quantity.__init__ by the correspondence check of harness/props/c05.py).  Only `exact` here. *)
From Coq Require Import List QArith ZArith Bool NArith Permutation.
From VP Require Import Base.Util Base.Dim Base.Val Model.CollectQ Proofs.DimProofs Proofs.CollectQProofs
  Proofs.CollectQGlobal Model.QSign Proofs.QSignProofs.
Import ListNotations.

(* the scale factor is the arithmetic value of the expression *)
Theorem C05_collect_value : forall e v d, collect e = Ok (v, d) -> v = value e.
Proof. exact collect_value. Qed.
Print Assumptions C05_collect_value.

(* a sum is accepted exactly when its terms that are not of any dimension (zero, +-oo, NaN) have pairwise
   equivalent dimensions -- an order-free statement *)
Theorem C05_add_accepts_iff : forall l ts, map_res collect l = Ok ts ->
  ((exists r, collect (QAdd l) = Ok r) <-> pairwise_equiv ts /\ ts <> []).
Proof. exact collect_add_accepts_iff. Qed.
Print Assumptions C05_add_accepts_iff.

Theorem C05_add_order_irrelevant : forall l l' ts ts',
  map_res collect l = Ok ts -> map_res collect l' = Ok ts' -> Permutation ts ts' ->
  ((exists r, collect (QAdd l) = Ok r) <-> (exists r, collect (QAdd l') = Ok r)).
Proof. exact collect_add_order_irrelevant. Qed.
Print Assumptions C05_add_order_irrelevant.

(* the dimension of an accepted sum is that of its terms not of any dimension *)
Theorem C05_sum_dim : forall l ts v d, map_res collect l = Ok ts -> collect (QAdd l) = Ok (v, d) ->
  d = pick_dim ts /\ forall t, In t ts -> is_any (fst t) = false -> equivalent_dims d (snd t) = true.
Proof. exact collect_sum_dim. Qed.
Print Assumptions C05_sum_dim.

Theorem C05_minmax_accepts : forall l ts v d (ismin : bool), map_res collect l = Ok ts ->
  collect (if ismin then QMin l else QMax l) = Ok (v, d) -> pairwise_equiv ts /\ d = pick_dim ts.
Proof. exact collect_minmax_accepts. Qed.
Print Assumptions C05_minmax_accepts.

(* a part that is refused makes the whole refused *)
Theorem C05_child_error_refuses : forall l k, map_res collect l = Err k ->
  (exists k', collect (QAdd l) = Err k') /\ (exists k', collect (QMin l) = Err k') /\
  (exists k', collect (QMax l) = Err k') /\ (exists k', collect (QMul l) = Err k').
Proof. exact collect_child_error_refuses. Qed.
Print Assumptions C05_child_error_refuses.

(* a product is never refused by itself; value = product of values; dimension = dimensional product unless zero *)
Theorem C05_mul_spec : forall x xs p ts, collect x = Ok p -> map_res collect xs = Ok ts ->
  exists v d, collect (QMul (x :: xs)) = Ok (v, d) /\
    v = fold_left vmul (map fst ts) (fst p) /\
    (finite_val (fst p) = true -> Forall (fun t => finite_val (fst t) = true) ts ->
     is_any v = true \/ deq d (fold_left dmul (map snd ts) (snd p))).
Proof. exact collect_mul_spec. Qed.
Print Assumptions C05_mul_spec.

(* a power is refused exactly when its exponent is neither of any dimension nor dimensionless *)
Theorem C05_pow_spec : forall b ex bf bd ef ed, collect b = Ok (bf, bd) -> collect ex = Ok (ef, ed) ->
  (is_any ef = true \/ dimensionless ed = true ->
     forall d, dim_pow_val bd ef = Some d -> collect (QPow b ex) = Ok (vpow bf ef, d)) /\
  (is_any ef = false -> dimensionless ed = false -> collect (QPow b ex) = Err E_VALUE).
Proof. exact collect_pow_spec. Qed.
Print Assumptions C05_pow_spec.

(* an elementary function is accepted exactly when every argument is of any dimension or dimensionless *)
Theorem C05_fun_accepts_iff : forall ov l ts, map_res collect l = Ok ts ->
  ((exists r, collect (QFun ov l) = Ok r) <->
   Forall (fun t => is_any (fst t) = true \/ dimensionless (snd t) = true) ts).
Proof. exact collect_fun_accepts_iff. Qed.
Print Assumptions C05_fun_accepts_iff.

(* free symbols and unevaluated derivatives are refused *)
Theorem C05_leaf_refusals : collect QDeriv = Err E_VALUE /\ collect (QNum VSym) = Err E_VALUE.
Proof. exact collect_leaf_refusals. Qed.
Print Assumptions C05_leaf_refusals.

Theorem C05_quantity_ctor_spec : forall e o,
  (forall v d, collect e = Ok (v, d) -> complex_ok v = true ->
     quantity_ctor e o = Ok (v, match o with Some x => x | None => d end)) /\
  (forall k, collect e = Err k -> quantity_ctor e o = Err k) /\
  (forall v d, collect e = Ok (v, d) -> complex_ok v = false -> quantity_ctor e o = Err E_VALUE).
Proof. exact quantity_ctor_spec. Qed.
Print Assumptions C05_quantity_ctor_spec.

(* 1 m + (-1 m) + 1 s, in both argument orders (accepted as `1 s` before repo commit 2c8ae24) *)
Theorem C05_cancelling_prefix_refused : collect w_cancel = Err E_VALUE /\ collect w_cancel' = Err E_VALUE.
Proof. exact collect_cancelling_prefix_refused. Qed.
Print Assumptions C05_cancelling_prefix_refused.

(* ---- whole trees ---------------------------------------------------------------------------------
   WF (Proofs/CollectQGlobal.v) is the property text as an order-free judgment over the whole tree: numbers, quantities
   and prefixes; non-empty products of WF factors; powers whose exponent is of any dimension or dimensionless; sums / min /
   max whose terms not of any dimension have pairwise equivalent dimensions (min/max: comparable values); abs; functions
   whose arguments are of any dimension or dimensionless.  Free symbols and unevaluated derivatives are not WF. *)
Theorem C05_accepts_iff_WF : forall e, (exists r, collect e = Ok r) <-> WF e.
Proof. exact collect_accepts_iff_WF. Qed.
Print Assumptions C05_accepts_iff_WF.

(* "construction is refused exactly when ..." *)
Theorem C05_refuses_iff_not_WF : forall e, (exists k, collect e = Err k) <-> ~ WF e.
Proof. exact collect_refuses_iff_not_WF. Qed.
Print Assumptions C05_refuses_iff_not_WF.

Theorem C05_order_irrelevant : forall l l', Permutation l l' ->
  ((exists r, collect (QAdd l) = Ok r) <-> (exists r, collect (QAdd l') = Ok r)) /\
  ((exists r, collect (QMin l) = Ok r) <-> (exists r, collect (QMin l') = Ok r)) /\
  ((exists r, collect (QMax l) = Ok r) <-> (exists r, collect (QMax l') = Ok r)) /\
  ((exists r, collect (QMul l) = Ok r) <-> (exists r, collect (QMul l') = Ok r)).
Proof. exact collect_order_irrelevant. Qed.
Print Assumptions C05_order_irrelevant.

(* "... a scale factor equal to the value of the expression and a dimension equal to the dimensional product of its
   parts": for a well-formed tree all of whose sub-values are finite, unless the value is of any dimension *)
Theorem C05_dim_is_product : forall e, WF e -> Fin e ->
  exists v d, collect e = Ok (v, d) /\ v = value e /\ wf_dim d /\
              (is_any v = true \/ deq d (nominal_dim e)).
Proof. exact collect_dim_is_product. Qed.
Print Assumptions C05_dim_is_product.

(* ---- the sign a Quantity claims towards SymPy (Model/QSign.v ~ Quantity._eval_is_positive) ---------------------------
   SymPy consults the claim while the expression is built (Max(q, 0) -> q, Min(q, 0) -> 0, Abs(q) -> q); "the value of
   the expression" the user wrote survives only if (a) whoever is claimed positive is a non-negative extended real and
   the rewrites made on the strength of the claim keep the value, and (b) no positive value -- finite or infinite --
   is ever denied, negative values are denied. *)
Theorem C05_sign_claim_sound : forall v, qty_is_positive v = Some true ->
  (exists q, v = VQ q /\ (0 <= q)%Q) \/ v = VFloat0 \/ v = VPInf.
Proof. exact sign_claim_sound. Qed.
Print Assumptions C05_sign_claim_sound.

Theorem C05_sign_claim_rewrites : forall v, qty_is_positive v = Some true -> v <> VFloat0 ->
  val_eqb (vmax v (VQ 0)) v = true /\ val_eqb (vmin v (VQ 0)) (VQ 0) = true /\ val_eqb (vabs v) v = true.
Proof. exact sign_claim_rewrites. Qed.
Print Assumptions C05_sign_claim_rewrites.

Theorem C05_sign_claim_complete :
  (forall q, (0 < q)%Q -> qty_is_positive (VQ q) = Some true) /\ qty_is_positive VPInf = Some true /\
  (forall q, (q < 0)%Q -> qty_is_positive (VQ q) = Some false) /\ qty_is_positive VNInf = Some false.
Proof. exact (conj sign_claim_positive (conj sign_claim_pinf (conj sign_claim_negative (proj1 sign_claim_specials)))). Qed.
Print Assumptions C05_sign_claim_complete.

Example C05_sign_claim_nonvacuous : qty_is_positive (VQ (3 # 2)) = Some true /\ qty_is_positive (VQ (-(1 # 2))) = Some false.
Proof. split; reflexivity. Qed.
