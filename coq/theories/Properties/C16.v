(* C16 -- vector-equation rearrangement is equivalence-preserving.
   Statements only; proofs are in Proofs/SolveProofs.v.  The ties `sfv_*` (the Eq returned by the real
   solve_for_vector on generic linear combinations), `sfs_*` (solve_for_scalar) are regenerated on every run. *)
From Coq Require Import List NArith Reals Bool.
From VP Require Import Base.Util Model.Vec3 Model.Solve Proofs.SolveProofs.
Import ListNotations.
Local Open Scope R_scope.

Theorem solve_reduce : forall (rho : vid -> V3) (c : comb) (atomic : vid) (lhs rhs : comb),
  solve_for_vector (Some c) atomic true = Solved lhs rhs ->
  exists i, find_term atomic c = Some i /\
    (scale_of i c <> 0 ->
     vsub (eval_comb rho lhs) (eval_comb rho rhs) = vscale (1 / scale_of i c) (eval_comb rho c)).
Proof. exact SolveProofs.solve_reduce. Qed.
Print Assumptions solve_reduce.

Theorem solve_noreduce : forall (rho : vid -> V3) (c : comb) (atomic : vid) (lhs rhs : comb),
  solve_for_vector (Some c) atomic false = Solved lhs rhs ->
  vsub (eval_comb rho rhs) (eval_comb rho lhs) = eval_comb rho c.
Proof. exact SolveProofs.solve_noreduce. Qed.
Print Assumptions solve_noreduce.

Theorem solve_is_solution : forall (rho : vid -> V3) (c : comb) (atomic : vid) (lhs rhs : comb),
  solve_for_vector (Some c) atomic true = Solved lhs rhs ->
  exists i, find_term atomic c = Some i /\
    (scale_of i c <> 0 -> (eval_comb rho c = vzero <-> rho atomic = eval_comb rho rhs)).
Proof. exact SolveProofs.solve_is_solution. Qed.
Print Assumptions solve_is_solution.

Theorem apply_both_sides : forall (T U : Type) (zero : T) (f : T -> U) (l r e : T),
  apply_eq zero f (AnEq l r) = (f l, f r) /\ apply_eq zero f (AnExpr e) = (f e, f zero) /\
  (l = r -> fst (apply_eq zero f (AnEq l r)) = snd (apply_eq zero f (AnEq l r))) /\
  (e = zero -> fst (apply_eq zero f (AnExpr e)) = snd (apply_eq zero f (AnExpr e))).
Proof. exact @SolveProofs.apply_both_sides. Qed.
Print Assumptions apply_both_sides.

Theorem refuses_non_vector : forall (atomic : vid) (b : bool), solve_for_vector None atomic b = Refused E_TYPE.
Proof. exact SolveProofs.refuses_non_vector. Qed.
Print Assumptions refuses_non_vector.

Theorem refuses_absent_vector : forall (c : comb) (atomic : vid) (b : bool),
  ~ In atomic (map fst c) <-> solve_for_vector (Some c) atomic b = Refused E_VALUE.
Proof. exact SolveProofs.refuses_absent_vector. Qed.
Print Assumptions refuses_absent_vector.

Theorem solves_present_vector : forall (c : comb) (atomic : vid) (b : bool),
  In atomic (map fst c) <-> exists lhs rhs, solve_for_vector (Some c) atomic b = Solved lhs rhs.
Proof. exact SolveProofs.solves_present_vector. Qed.
Print Assumptions solves_present_vector.
