(* C11 -- changing coordinate system preserves the geometric vector and scalar field.
   Statements about Model/Coords.v; the generated lemmas of harness/props/c11.py tie the model to the code. *)
From Coq Require Import Reals List.
From VP Require Import Base.Atan2 Model.Coords Proofs.CoordsProofs.
Import ListNotations.
Local Open Scope R_scope.

(* ---- round trips ------------------------------------------------------------------------------- *)

Theorem cart_cyl_cart : forall x y z : R,
  (x, y) <> (0, 0) -> cyl_to_cart (cart_to_cyl (x, y, z)) = (x, y, z).
Proof. exact CoordsProofs.cart_cyl_cart. Qed.
Print Assumptions cart_cyl_cart.

Theorem cart_sph_cart : forall x y z : R,
  (x, y) <> (0, 0) -> sph_to_cart (cart_to_sph (x, y, z)) = (x, y, z).
Proof. exact CoordsProofs.cart_sph_cart. Qed.
Print Assumptions cart_sph_cart.

Theorem cyl_cart_cyl : forall r t z : R,
  0 < r -> - PI < t <= PI -> cart_to_cyl (cyl_to_cart (r, t, z)) = (r, t, z).
Proof. exact CoordsProofs.cyl_cart_cyl. Qed.
Print Assumptions cyl_cart_cyl.

Theorem sph_cart_sph : forall r t f : R,
  0 < r -> - PI < t <= PI -> 0 < f < PI -> cart_to_sph (sph_to_cart (r, t, f)) = (r, t, f).
Proof. exact CoordsProofs.sph_cart_sph. Qed.
Print Assumptions sph_cart_sph.

(* any azimuth: radius, height, cos and sin of the angle come back, and the angle is the principal one *)
Theorem cyl_cart_cyl_any_angle : forall r t z : R,
  0 < r ->
  let '(r', t', z') := cart_to_cyl (cyl_to_cart (r, t, z)) in
  r' = r /\ cos t' = cos t /\ sin t' = sin t /\ z' = z /\ - PI < t' <= PI.
Proof. exact CoordsProofs.cyl_cart_cyl_trig. Qed.
Print Assumptions cyl_cart_cyl_any_angle.

(* whenever a rebase is answered, the new components denote the same point *)
Theorem rebase_same_point : forall (a b : sys) (T : V3 -> V3) (p : V3),
  transformation a b = Some T -> (a = Cart -> b <> Cart -> off_axis p) -> to_cart b (T p) = to_cart a p.
Proof. exact CoordsProofs.rebase_same_point. Qed.
Print Assumptions rebase_same_point.

(* ---- dot product, magnitude, scaling ------------------------------------------------------------ *)

Theorem dot_cyl_is_cart_dot : forall u v : V3, dot Cyl u v = dot Cart (cyl_to_cart u) (cyl_to_cart v).
Proof. exact CoordsProofs.dot_cyl_is_cart_dot. Qed.
Print Assumptions dot_cyl_is_cart_dot.

Theorem dot_sph_is_cart_dot : forall u v : V3, dot Sph u v = dot Cart (sph_to_cart u) (sph_to_cart v).
Proof. exact CoordsProofs.dot_sph_is_cart_dot. Qed.
Print Assumptions dot_sph_is_cart_dot.

Theorem dot_cart_via_cyl : forall u v : V3,
  off_axis u -> off_axis v -> dot Cyl (cart_to_cyl u) (cart_to_cyl v) = dot Cart u v.
Proof. exact CoordsProofs.dot_cart_via_cyl. Qed.
Print Assumptions dot_cart_via_cyl.

Theorem dot_cart_via_sph : forall u v : V3,
  off_axis u -> off_axis v -> dot Sph (cart_to_sph u) (cart_to_sph v) = dot Cart u v.
Proof. exact CoordsProofs.dot_cart_via_sph. Qed.
Print Assumptions dot_cart_via_sph.

Theorem magnitude_is_cart_magnitude : forall (s : sys) (u : V3),
  magnitude s u = magnitude Cart (to_cart s u).
Proof. exact CoordsProofs.magnitude_is_cart_magnitude. Qed.
Print Assumptions magnitude_is_cart_magnitude.

Theorem scale_cyl_commutes : forall (k : R) (u : V3), cyl_to_cart (scale Cyl k u) = smul k (cyl_to_cart u).
Proof. exact CoordsProofs.scale_cyl_commutes. Qed.
Print Assumptions scale_cyl_commutes.

Theorem scale_sph_commutes : forall (k : R) (u : V3), sph_to_cart (scale Sph k u) = smul k (sph_to_cart u).
Proof. exact CoordsProofs.scale_sph_commutes. Qed.
Print Assumptions scale_sph_commutes.

(* ---- scalar fields (f is an arbitrary function of the three base scalars) -------------------------- *)

Theorem field_cart_to_curv : forall (b : sys) (f g : field) (q : V3),
  field_rebase Cart b f = Some g -> apply_field g q = apply_field f (to_cart b q).
Proof. exact CoordsProofs.field_cart_to_curv. Qed.
Print Assumptions field_cart_to_curv.

Theorem field_curv_to_cart : forall (a : sys) (f g : field) (p : V3),
  field_rebase a Cart f = Some g -> in_domain a p -> apply_field g (to_cart a p) = apply_field f p.
Proof. exact CoordsProofs.field_curv_to_cart. Qed.
Print Assumptions field_curv_to_cart.

Theorem field_invariance : forall (a b : sys) (f g : field) (p q : V3),
  field_rebase a b f = Some g ->
  in_domain a p -> in_domain b q -> to_cart a p = to_cart b q ->
  apply_field g q = apply_field f p.
Proof. exact CoordsProofs.field_invariance. Qed.
Print Assumptions field_invariance.

(* ---- refusals ------------------------------------------------------------------------------------- *)

Theorem rebase_refused_iff : forall (a b : sys) (l : list R),
  rebase a b l = None <-> (a = Cyl /\ b = Sph) \/ (a = Sph /\ b = Cyl).
Proof. exact CoordsProofs.rebase_refused_iff. Qed.
Print Assumptions rebase_refused_iff.

Theorem field_rebase_refused_iff : forall (a b : sys) (f : field),
  field_rebase a b f = None <-> (a = Cyl /\ b = Sph) \/ (a = Sph /\ b = Cyl).
Proof. exact CoordsProofs.field_rebase_refused_iff. Qed.
Print Assumptions field_rebase_refused_iff.

Theorem typed_point_refused_iff : forall s fs : sys,
  field_call true (PTyped s) fs = Refused <-> s <> fs.
Proof. exact CoordsProofs.typed_point_refused_iff. Qed.
Print Assumptions typed_point_refused_iff.

(* ---- frames related by a rotation (coordinates_rotate) and their curvilinear children ---------------------- *)

Theorem rotation_roundtrip : forall (ax : axis) (al : R) (p : V3),
  from_parent ax al (to_parent ax al p) = p /\ to_parent ax al (from_parent ax al p) = p.
Proof. intros ax al p. split; [apply CoordsProofs.from_to_parent | apply CoordsProofs.to_from_parent]. Qed.
Print Assumptions rotation_roundtrip.

Theorem rotation_preserves_dot : forall (ax : axis) (al : R) (u v : V3),
  dot Cart (to_parent ax al u) (to_parent ax al v) = dot Cart u v.
Proof. exact CoordsProofs.to_parent_dot. Qed.
Print Assumptions rotation_preserves_dot.

Theorem dot_curv_rotated : forall (s : sys) (ax : axis) (al : R) (u v : V3),
  dot s u v = dot Cart (curv_rotated_to_parent s ax al u) (curv_rotated_to_parent s ax al v).
Proof. exact CoordsProofs.dot_curv_rotated. Qed.
Print Assumptions dot_curv_rotated.

Theorem curv_rotated_roundtrip : forall (s : sys) (ax : axis) (al : R) (p q : V3),
  in_domain s p -> in_domain s q ->
  from_parent ax al (curv_rotated_to_parent s ax al p) = to_cart s q -> p = q.
Proof. exact CoordsProofs.curv_rotated_roundtrip. Qed.
Print Assumptions curv_rotated_roundtrip.

(* ---- points: absent coordinates read as 0; a setter changes exactly its own coordinate ----------------------- *)

Theorem point_absent_is_zero : forall (A : Type) (zero : A) (i : nat), pget zero [] i = zero.
Proof. exact @CoordsProofs.pget_nil. Qed.
Print Assumptions point_absent_is_zero.

Theorem point_set_then_get : forall (A : Type) (zero : A) (l : list A) (i : nat) (v : A),
  pget zero (pset zero l i v) i = v.
Proof. exact @CoordsProofs.pget_pset_same. Qed.
Print Assumptions point_set_then_get.

Theorem point_set_keeps_others : forall (A : Type) (zero : A) (l : list A) (i j : nat) (v : A),
  i <> j -> pget zero (pset zero l i v) j = pget zero l j.
Proof. exact @CoordsProofs.pget_pset_other. Qed.
Print Assumptions point_set_keeps_others.

Theorem point_set_length : forall (A : Type) (zero : A) (l : list A) (i : nat) (v : A),
  length (pset zero l i v) = Nat.max (length l) (S i).
Proof. exact @CoordsProofs.pset_length. Qed.
Print Assumptions point_set_length.
