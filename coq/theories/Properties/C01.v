(* C01 -- every published law equation is dimensionally homogeneous.
   Static part: the executable checker used on the regenerated catalogue is sound and complete for the
   declarative judgment `Homog` (Model/Homog.v).  The per-equation obligations are generated on every run
   (build/C01/gen/*.v) and closed with `catalogue_forall` / `check_rel_false_iff`. *)
From Coq Require Import List QArith Bool.
From VP Require Import Base.Dim Model.Homog Proofs.HomogProofs.
Import ListNotations.

Theorem infer_sound : forall e d, infer e = Some d -> Homog e d.
Proof. exact HomogProofs.infer_sound. Qed.
Print Assumptions infer_sound.

Theorem infer_complete : forall e d, Homog e d -> exists d', infer e = Some d' /\ adim_equiv d d'.
Proof. exact HomogProofs.infer_complete. Qed.
Print Assumptions infer_complete.

Theorem check_rel_iff : forall e, check_rel e = true <-> exists d, Homog e d.
Proof. exact HomogProofs.check_rel_iff. Qed.
Print Assumptions check_rel_iff.

Theorem check_rel_false_iff : forall e, check_rel e = false <-> forall d, ~ Homog e d.
Proof. exact HomogProofs.check_rel_false_iff. Qed.
Print Assumptions check_rel_false_iff.

Theorem homog_functional : forall e d1 d2, Homog e d1 -> Homog e d2 -> adim_equiv d1 d2.
Proof. exact HomogProofs.homog_functional. Qed.
Print Assumptions homog_functional.

Theorem catalogue_forall : forall l, forallb check_rel l = true -> Forall (fun e => exists d, Homog e d) l.
Proof. exact HomogProofs.catalogue_forall. Qed.
Print Assumptions catalogue_forall.

Theorem rel_sides : forall l r d, Homog (DRel l r) d ->
  exists dl dr, Homog l dl /\ Homog r dr /\ compat dl d /\ compat dr d.
Proof. exact HomogProofs.rel_sides. Qed.
Print Assumptions rel_sides.

(* ---- semantic adequacy over R (fragment: positive constants and quantities, +, *, rational powers) ---- *)
From Coq Require Import Reals.
From VP Require Import Model.HomogSem Proofs.HomogSemProofs.
Local Open Scope R_scope.

(* changing the base units by the factors lam rescales a homogeneous expression of dimension d by scale lam d,
   for every positive valuation *)
Theorem scaling_invariance : forall s d cst rho lam,
  swf s -> positive_valuation cst rho -> Homog (forget s) (D d) ->
  sval cst (rescale lam rho) s = scale lam d * sval cst rho s.
Proof. exact HomogSemProofs.scaling_invariance. Qed.
Print Assumptions scaling_invariance.

Theorem homogeneous_equation_unit_invariant : forall a b d cst rho lam,
  swf a -> swf b -> positive_valuation cst rho -> Homog (DRel (forget a) (forget b)) d ->
  (sval cst rho a = sval cst rho b <-> sval cst (rescale lam rho) a = sval cst (rescale lam rho) b).
Proof. exact HomogSemProofs.homogeneous_equation_unit_invariant. Qed.
Print Assumptions homogeneous_equation_unit_invariant.

Theorem inhomogeneous_witness : forall a b da db i cst rho,
  swf a -> swf b -> positive_valuation cst rho ->
  Homog (forget a) (D da) -> Homog (forget b) (D db) ->
  (i < NB)%nat -> ~ (nth i da 0%Q == nth i db 0%Q)%Q ->
  sval cst (rescale (one_hot i 2) rho) a / sval cst (rescale (one_hot i 2) rho) b
    <> sval cst rho a / sval cst rho b.
Proof. exact HomogSemProofs.inhomogeneous_witness. Qed.
Print Assumptions inhomogeneous_witness.
