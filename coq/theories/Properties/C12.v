(* C12 -- gradient, divergence and curl are the true operators in all three coordinate systems.
   Only `exact`; the lemmas live in Proofs/OpsProofs.v and Proofs/DiffAlgProofs.v. *)
From Coq Require Import ZArith Reals List.
From VP Require Import Model.DiffAlg Model.Ops Proofs.DiffAlgProofs Proofs.OpsProofs.
Import ListNotations.
Local Open Scope R_scope.

Theorem C12_curl_grad_zero_cart : forall rho, ev3 rho (curl_cart D (list3 (grad_cart D gen_scalar))) = (0, 0, 0).
Proof. exact OpsProofs.curl_grad_zero_cart. Qed.
Print Assumptions C12_curl_grad_zero_cart.

Theorem C12_curl_grad_zero_cyl : forall rho, vq rho 0%nat <> 0 -> ev3 rho (curl_cyl D (list3 (grad_cyl D gen_scalar))) = (0, 0, 0).
Proof. exact OpsProofs.curl_grad_zero_cyl. Qed.
Print Assumptions C12_curl_grad_zero_cyl.

Theorem C12_curl_grad_zero_sph : forall rho, vq rho 0%nat <> 0 -> sin (vq rho 2%nat) <> 0 -> ev3 rho (curl_sph D (list3 (grad_sph D gen_scalar))) = (0, 0, 0).
Proof. exact OpsProofs.curl_grad_zero_sph. Qed.
Print Assumptions C12_curl_grad_zero_sph.

Theorem C12_div_curl_zero_cart : forall rho, ev rho (div_cart D (list3 (curl_cart D (gen_vector 3)))) = 0.
Proof. exact OpsProofs.div_curl_zero_cart. Qed.
Print Assumptions C12_div_curl_zero_cart.

Theorem C12_div_curl_zero_cyl : forall rho, vq rho 0%nat <> 0 -> ev rho (div_cyl D (list3 (curl_cyl D (gen_vector 3)))) = 0.
Proof. exact OpsProofs.div_curl_zero_cyl. Qed.
Print Assumptions C12_div_curl_zero_cyl.

Theorem C12_div_curl_zero_sph : forall rho, vq rho 0%nat <> 0 -> sin (vq rho 2%nat) <> 0 -> ev rho (div_sph D (list3 (curl_sph D (gen_vector 3)))) = 0.
Proof. exact OpsProofs.div_curl_zero_sph. Qed.
Print Assumptions C12_div_curl_zero_sph.

Theorem C12_div_sph_code_eq : forall rho d l, vq rho 0%nat <> 0 -> sin (vq rho 2%nat) <> 0 -> cos (vq rho 2%nat) <> 0 -> ev rho (div_sph_code d l) = ev rho (div_sph d l).
Proof. exact OpsProofs.div_sph_code_eq. Qed.
Print Assumptions C12_div_sph_code_eq.

Theorem C12_div_curl_zero_sph_code : forall rho, vq rho 0%nat <> 0 -> sin (vq rho 2%nat) <> 0 -> cos (vq rho 2%nat) <> 0 -> ev rho (div_sph_code D (list3 (curl_sph D (gen_vector 3)))) = 0.
Proof. exact OpsProofs.div_curl_zero_sph_code. Qed.
Print Assumptions C12_div_curl_zero_sph_code.

Theorem C12_grad_cyl_is_cart : forall rho, vq rho 0%nat <> 0 -> ev3 rho (grad_cyl (Dvia X_cyl) cart_scalar_at) = local_R rho E_cyl (ev3 rho (map3 (comp X_cyl) (grad_cart D gen_scalar))).
Proof. exact OpsProofs.grad_cyl_is_cart. Qed.
Print Assumptions C12_grad_cyl_is_cart.

Theorem C12_grad_sph_is_cart : forall rho, vq rho 0%nat <> 0 -> sin (vq rho 2%nat) <> 0 -> ev3 rho (grad_sph (Dvia X_sph) cart_scalar_at) = local_R rho E_sph (ev3 rho (map3 (comp X_sph) (grad_cart D gen_scalar))).
Proof. exact OpsProofs.grad_sph_is_cart. Qed.
Print Assumptions C12_grad_sph_is_cart.

Theorem C12_div_cyl_is_cart : forall rho, vq rho 0%nat <> 0 -> ev rho (div_cyl (Dvia X_cyl) (cart_vector_local Cyl)) = ev rho (comp X_cyl (div_cart D cart_vector)).
Proof. exact OpsProofs.div_cyl_is_cart. Qed.
Print Assumptions C12_div_cyl_is_cart.

Theorem C12_div_sph_is_cart : forall rho, vq rho 0%nat <> 0 -> sin (vq rho 2%nat) <> 0 -> ev rho (div_sph (Dvia X_sph) (cart_vector_local Sph)) = ev rho (comp X_sph (div_cart D cart_vector)).
Proof. exact OpsProofs.div_sph_is_cart. Qed.
Print Assumptions C12_div_sph_is_cart.

Theorem C12_curl_cyl_is_cart : forall rho, vq rho 0%nat <> 0 -> ev3 rho (curl_cyl (Dvia X_cyl) (cart_vector_local Cyl)) = local_R rho E_cyl (ev3 rho (map3 (comp X_cyl) (curl_cart D cart_vector))).
Proof. exact OpsProofs.curl_cyl_is_cart. Qed.
Print Assumptions C12_curl_cyl_is_cart.

Theorem C12_curl_sph_is_cart : forall rho, vq rho 0%nat <> 0 -> sin (vq rho 2%nat) <> 0 -> ev3 rho (curl_sph (Dvia X_sph) (cart_vector_local Sph)) = local_R rho E_sph (ev3 rho (map3 (comp X_sph) (curl_cart D cart_vector))).
Proof. exact OpsProofs.curl_sph_is_cart. Qed.
Print Assumptions C12_curl_sph_is_cart.

Theorem C12_basis_orthonormal_cyl : forall rho i j, (i < 3)%nat -> (j < 3)%nat -> dotE rho E_cyl i j = if Nat.eqb i j then 1 else 0.
Proof. exact OpsProofs.basis_orthonormal_cyl. Qed.
Print Assumptions C12_basis_orthonormal_cyl.

Theorem C12_basis_orthonormal_sph : forall rho i j, (i < 3)%nat -> (j < 3)%nat -> dotE rho E_sph i j = if Nat.eqb i j then 1 else 0.
Proof. exact OpsProofs.basis_orthonormal_sph. Qed.
Print Assumptions C12_basis_orthonormal_sph.

Theorem C12_basis_tangent_cyl : forall rho i k, (i < 3)%nat -> (k < 3)%nat -> ev rho (D i (X_cyl k)) = ev rho (lame Cyl i) * ev rho (E_cyl i k).
Proof. exact OpsProofs.basis_tangent_cyl. Qed.
Print Assumptions C12_basis_tangent_cyl.

Theorem C12_basis_tangent_sph : forall rho i k, (i < 3)%nat -> (k < 3)%nat -> ev rho (D i (X_sph k)) = ev rho (lame Sph i) * ev rho (E_sph i k).
Proof. exact OpsProofs.basis_tangent_sph. Qed.
Print Assumptions C12_basis_tangent_sph.

Theorem C12_padding_div : forall s d l, (length l <= 3)%nat -> div s d l = div s d (padded l).
Proof. exact OpsProofs.padding_div. Qed.
Print Assumptions C12_padding_div.

Theorem C12_padding_curl : forall s d l, (length l <= 3)%nat -> curl s d l = curl s d (padded l).
Proof. exact OpsProofs.padding_curl. Qed.
Print Assumptions C12_padding_curl.

Theorem C12_padding_div_code : forall d l, (length l <= 3)%nat -> div_sph_code d l = div_sph_code d (padded l).
Proof. exact OpsProofs.padding_div_code. Qed.
Print Assumptions C12_padding_div_code.

Theorem C12_padding_zero_components : forall rho s, ev rho (div s D []) = 0 /\ ev3 rho (curl s D []) = (0, 0, 0).
Proof. exact OpsProofs.padding_zero_components. Qed.
Print Assumptions C12_padding_zero_components.

Theorem C12_D_jet_commute : forall i j f a b c, D i (D j (TJ f a b c)) = D j (D i (TJ f a b c)).
Proof. exact DiffAlgProofs.D_jet_commute. Qed.
Print Assumptions C12_D_jet_commute.

Theorem C12_Dvia_chain_rule : forall rho X i t, (forall k, tk_free (X k) = true) -> cart_term t = true -> ev rho (Dvia X i (comp X t)) = ev rho (comp X (D 0%nat t)) * ev rho (D i (X 0%nat)) + ev rho (comp X (D 1%nat t)) * ev rho (D i (X 1%nat)) + ev rho (comp X (D 2%nat t)) * ev rho (D i (X 2%nat)).
Proof. exact DiffAlgProofs.Dvia_chain_rule. Qed.
Print Assumptions C12_Dvia_chain_rule.

Theorem C12_D_correct : forall M, smooth_model M -> forall p i t, tk_free t = true -> defined (M p) t -> derivable_pt_lim (fun x => ev (M (upd p i x)) t) (p i) (ev (M p) (D i t)).
Proof. exact DiffAlgProofs.D_correct. Qed.
Print Assumptions C12_D_correct.

Theorem C12_div_grad_cart_is_laplacian : forall rho, ev rho (div_cart D (list3 (grad_cart D gen_scalar))) = ev rho (lap D gen_scalar).
Proof. exact OpsProofs.div_grad_cart_is_laplacian. Qed.
Print Assumptions C12_div_grad_cart_is_laplacian.

Theorem C12_curl_curl_cart : forall rho, ev3 rho (curl_cart D (list3 (curl_cart D (gen_vector 3)))) = (let '(g1, g2, g3) := ev3 rho (grad_cart D (div_cart D (gen_vector 3))) in (g1 - ev rho (lap D (TJ 1 0 0 0)), g2 - ev rho (lap D (TJ 2 0 0 0)), g3 - ev rho (lap D (TJ 3 0 0 0)))).
Proof. exact OpsProofs.curl_curl_cart. Qed.
Print Assumptions C12_curl_curl_cart.

Theorem C12_div_grad_cyl_is_cart : forall rho, vq rho 0%nat <> 0 -> ev rho (div_cyl (Dvia X_cyl) (list3 (grad_cyl (Dvia X_cyl) cart_scalar_at))) = ev rho (comp X_cyl (div_cart D (list3 (grad_cart D gen_scalar)))).
Proof. exact OpsProofs.div_grad_cyl_is_cart. Qed.
Print Assumptions C12_div_grad_cyl_is_cart.

Theorem C12_div_grad_sph_is_cart : forall rho, vq rho 0%nat <> 0 -> sin (vq rho 2%nat) <> 0 -> ev rho (div_sph (Dvia X_sph) (list3 (grad_sph (Dvia X_sph) cart_scalar_at))) = ev rho (comp X_sph (div_cart D (list3 (grad_cart D gen_scalar)))).
Proof. exact OpsProofs.div_grad_sph_is_cart. Qed.
Print Assumptions C12_div_grad_sph_is_cart.

Theorem C12_grad_div_cyl_is_cart : forall rho, vq rho 0%nat <> 0 -> ev3 rho (grad_cyl (Dvia X_cyl) (div_cyl (Dvia X_cyl) (cart_vector_local Cyl))) = local_R rho E_cyl (ev3 rho (map3 (comp X_cyl) (grad_cart D (div_cart D cart_vector)))).
Proof. exact OpsProofs.grad_div_cyl_is_cart. Qed.
Print Assumptions C12_grad_div_cyl_is_cart.

Theorem C12_grad_div_sph_is_cart : forall rho, vq rho 0%nat <> 0 -> sin (vq rho 2%nat) <> 0 -> ev3 rho (grad_sph (Dvia X_sph) (div_sph (Dvia X_sph) (cart_vector_local Sph))) = local_R rho E_sph (ev3 rho (map3 (comp X_sph) (grad_cart D (div_cart D cart_vector)))).
Proof. exact OpsProofs.grad_div_sph_is_cart. Qed.
Print Assumptions C12_grad_div_sph_is_cart.

Theorem C12_curl_curl_cyl_is_cart : forall rho, vq rho 0%nat <> 0 -> ev3 rho (curl_cyl (Dvia X_cyl) (list3 (curl_cyl (Dvia X_cyl) (cart_vector_local Cyl)))) = local_R rho E_cyl (ev3 rho (map3 (comp X_cyl) (curl_cart D (list3 (curl_cart D cart_vector))))).
Proof. exact OpsProofs.curl_curl_cyl_is_cart. Qed.
Print Assumptions C12_curl_curl_cyl_is_cart.

Theorem C12_curl_curl_sph_is_cart : forall rho, vq rho 0%nat <> 0 -> sin (vq rho 2%nat) <> 0 -> ev3 rho (curl_sph (Dvia X_sph) (list3 (curl_sph (Dvia X_sph) (cart_vector_local Sph)))) = local_R rho E_sph (ev3 rho (map3 (comp X_sph) (curl_cart D (list3 (curl_cart D cart_vector))))).
Proof. exact OpsProofs.curl_curl_sph_is_cart. Qed.
Print Assumptions C12_curl_curl_sph_is_cart.
