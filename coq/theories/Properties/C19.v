(* C19 -- documentation generation is total, faithful and leaves no global state (PARTIAL: the AST-patch /
   evaluation-flag machine and the directive substitution are proved here for all statement lists / all
   docstrings; file system, exec of the patched modules, printers and role resolution are explored dynamically
   by harness/props/c19.py). *)
From Coq Require Import List Bool Arith String Ascii ZArith.
From VP Require Import Model.DocsPatch Model.DocsView Proofs.DocsPatchProofs Proofs.DocsViewProofs.
Import ListNotations.

(* after the patched module of ANY statement list has run, evaluation is back on *)
Theorem patch_flag_restored : forall body, exec true (patch body) = true.
Proof. exact patch_flag_restored_lemma. Qed.
Print Assumptions patch_flag_restored.

(* ... hence after any number of pages generated in any order *)
Theorem pages_sequence_flag : forall mods, exec_pages true mods = true.
Proof. exact pages_sequence_flag_lemma. Qed.
Print Assumptions pages_sequence_flag.

(* the statements executed with evaluation off are exactly the documented members whose docstring asks for an
   auto-generated formula and not for explicit evaluation ... *)
Theorem patch_disables_documented_members :
  forall body i, In i (off_stmts true (patch body)) <-> In i (spec_disabled body).
Proof. exact patch_disables_lemma. Qed.
Print Assumptions patch_disables_documented_members.

(* the same, with the set written declaratively: i is a public assignment / documented def, some later string constant j
   carries a formula directive and no sympy-eval marker, and no other member statement lies between them *)
Theorem patch_disables_documented_members_declarative :
  forall body i, In i (off_stmts true (patch body)) <-> exists j, documents body i j.
Proof. exact patch_disables_declarative_lemma. Qed.
Print Assumptions patch_disables_documented_members_declarative.

(* ... and every other surviving statement is executed with evaluation on *)
Theorem patch_other_statements_evaluate :
  forall body i, In (i, true) (trace true (patch body)) <-> i < keep_count body /\ ~ In i (spec_disabled body).
Proof. exact patch_on_lemma. Qed.
Print Assumptions patch_other_statements_evaluate.

(* the patch keeps exactly the first keep_count statements, unchanged and in order, each executed once ... *)
Theorem patch_keeps_documented_prefix :
  forall body,
    orig_stmts (patch body) = firstn (keep_count body) body
    /\ forall b, map fst (trace b (patch body)) = seq 0 (keep_count body).
Proof. exact patch_keeps_prefix_lemma. Qed.
Print Assumptions patch_keeps_documented_prefix.

(* ... and nothing documented lies beyond them: no documented def, no string constant that follows a member *)
Theorem patch_drops_nothing_documented :
  forall body j s,
    nth_error body j = Some s -> keep_count body <= j ->
    match s with
    | FnDef _ true => False
    | SConst _ _ _ => forall k s', k < j -> nth_error body k = Some s' -> is_member s' = false
    | _ => True
    end.
Proof. exact keep_covers_lemma. Qed.
Print Assumptions patch_drops_nothing_documented.

(* the inserted calls find their names: a module that starts with its docstring never runs them before the import *)
Theorem patch_names_resolve : forall s rest, is_member s = false -> names_ok (patch (s :: rest)) = true.
Proof. exact patch_names_resolve_lemma. Qed.
Print Assumptions patch_names_resolve.

(* processors.py: whatever was called before, reset switches evaluation ON (it does not restore a saved value) *)
Theorem reset_switches_on : forall ops b, flag (op_run (ops_run (mkP b true) ops) OpReset) = true.
Proof. exact reset_switches_on_lemma. Qed.
Print Assumptions reset_switches_on.

(* parse.py vs patch.py (partial: under the side condition, which the check evaluates on every catalogue module):
   a public member that the page shows with a formula placeholder is bound by exactly one kept assignment, and
   that assignment is executed with evaluation off -- the placeholder shows the source form of its own equation *)
Theorem patch_parse_consistent_partial :
  forall body, consistent_side body = true ->
    forall n f, In (n, f) (page_members body) -> wantsf f = true ->
      exists i ts,
        nth_error body i = Some (Assign ts) /\ first_name ts = Some n
        /\ In i (off_stmts true (patch body))
        /\ forall i' ts', i' < keep_count body -> nth_error body i' = Some (Assign ts') -> binds n ts' = true -> i' = i.
Proof. exact patch_parse_consistent_partial_lemma. Qed.
Print Assumptions patch_parse_consistent_partial.

(* directive substitution: before ++ render d1 ++ middle ++ render d2 ++ after, both orders, any rendering lengths *)
Theorem substitute_spec :
  forall render b m a,
    let doc := b ++ SYM ++ m ++ LTX ++ a in
    find_sub SYM doc = Some (List.length b) ->
    find_sub LTX doc = Some (List.length b + 14 + List.length m) ->
    process_docstring render doc = b ++ render KSymbol ++ m ++ render KLatex ++ a.
Proof. exact substitute_spec_lemma. Qed.
Print Assumptions substitute_spec.

Theorem substitute_spec_swapped :
  forall render b m a,
    let doc := b ++ LTX ++ m ++ SYM ++ a in
    find_sub LTX doc = Some (List.length b) ->
    find_sub SYM doc = Some (List.length b + 13 + List.length m) ->
    process_docstring render doc = b ++ render KLatex ++ m ++ render KSymbol ++ a.
Proof. exact substitute_spec_swapped_lemma. Qed.
Print Assumptions substitute_spec_swapped.

Theorem substitute_symbol_only :
  forall render doc p, find_sub SYM doc = Some p -> find_sub LTX doc = None ->
    process_docstring render doc = firstn p doc ++ render KSymbol ++ skipn (p + 14) doc.
Proof. exact substitute_symbol_only_lemma. Qed.
Print Assumptions substitute_symbol_only.

Theorem substitute_latex_only :
  forall render doc p, find_sub SYM doc = None -> find_sub LTX doc = Some p ->
    process_docstring render doc = firstn p doc ++ render KLatex ++ skipn (p + 13) doc.
Proof. exact substitute_latex_only_lemma. Qed.
Print Assumptions substitute_latex_only.

Theorem substitute_none :
  forall render doc, find_sub SYM doc = None -> find_sub LTX doc = None -> process_docstring render doc = doc.
Proof. exact substitute_none_lemma. Qed.
Print Assumptions substitute_none.

(* str.find reports an occurrence, and the first one *)
Theorem find_reports_first_occurrence :
  forall p s n, find_sub p s = Some n ->
    (exists r, skipn n s = p ++ r /\ n <= List.length s) /\ forall m, m < n -> prefixb p (skipn m s) = false.
Proof. exact find_reports_first_occurrence_lemma. Qed.
Print Assumptions find_reports_first_occurrence.

(* the WHOLE record of global switches (evaluate, distribute, exp_is_pow, ...): if every field that disable / enable /
   reset write (read from the AST of core/processors.py on every run) is written back to its default by reset
   (`covers`, decided by vm_compute on the translated table), then a reset restores the record whatever came before ... *)
Theorem reset_restores_all_switches :
  forall P s0, covers P s0 = true -> forall ops, sw_equiv (sw_op P (sw_ops P s0 ops) OpReset) s0.
Proof. exact reset_restores_all_switches_lemma. Qed.
Print Assumptions reset_restores_all_switches.

(* ... hence the record is the default one after the patched module of ANY body, and after any sequence of pages *)
Theorem patch_switches_restored :
  forall P s0, covers P s0 = true -> forall body, sw_equiv (sw_run P s0 (patch body)) s0.
Proof. exact patch_switches_restored_lemma. Qed.
Print Assumptions patch_switches_restored.

Theorem pages_switches_restored :
  forall P s0, covers P s0 = true -> forall mods, sw_equiv (sw_pages P s0 mods) s0.
Proof. exact pages_switches_restored_lemma. Qed.
Print Assumptions pages_switches_restored.

(* the file-writing step (translated from docs/build.py on every run): for the operation sequences in the proved list
   (`known_exact`, decided by vm_compute on the translated sequences) the page holds exactly the new text afterwards,
   whatever it held before ... *)
Theorem known_exact_sound :
  forall w, known_exact w = true -> forall old new, file_write w old new = Some new.
Proof. exact known_exact_sound_lemma. Qed.
Print Assumptions known_exact_sound.

(* ... hence after generation the directory maps every page to its text and leaves every other file alone,
   for EVERY initial content of the output directory *)
Theorem generation_writes_every_page :
  forall w, (forall old new, file_write w old new = Some new) ->
  forall pages d0, NoDup (map fst pages) ->
    (forall p t, In (p, t) pages -> dir_get p (generate w pages d0) = Some t)
    /\ (forall q, ~ In q (map fst pages) -> dir_get q (generate w pages d0) = dir_get q d0).
Proof. exact generation_writes_every_page_lemma. Qed.
Print Assumptions generation_writes_every_page.
