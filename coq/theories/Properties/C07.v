(* C07 -- unit conversion is exact, invertible and scale-consistent.
   Only `exact` proofs of lemmas from Proofs/ConvertProofs.v, each followed by Print Assumptions. *)
From Coq Require Import List QArith ZArith Bool NArith.
Import ListNotations.
From VP Require Import Base.Util Base.Dim Base.Val Model.CollectQ Model.Gate Model.Convert Proofs.ConvertProofs.
Local Open Scope Q_scope.

(* n = convert_to(value, target)  ==>  n * target = value, target non-zero, dimensions equivalent after angle
   erasure (or the value is a zero / wildcard that matches every dimension) *)
Theorem convert_spec : forall value target n a dv b du,
  as_quantity value = Ok (VQ a, dv) -> as_quantity target = Ok (VQ b, du) ->
  convert_to value target = Ok (VQ n) ->
  n * b == a /\ ~ b == 0 /\ (wild (VQ a) dv = true \/ deq (erase_angle dv) (erase_angle du)).
Proof. exact ConvertProofs.convert_spec. Qed.
Print Assumptions convert_spec.

Theorem convert_refuses_iff : forall value target sv dv su du,
  as_quantity value = Ok (sv, dv) -> as_quantity target = Ok (su, du) -> is_number sv = true ->
  ((exists k, convert_to value target = Err k) <->
   wild sv dv = false /\ ~ deq (erase_angle dv) (erase_angle du)).
Proof. exact ConvertProofs.convert_refuses_iff. Qed.
Print Assumptions convert_refuses_iff.

Theorem convert_compose : forall A B C a da b db c dc x y,
  as_quantity A = Ok (VQ a, da) -> as_quantity B = Ok (VQ b, db) -> as_quantity C = Ok (VQ c, dc) ->
  is_anydim_instance db = false ->
  convert_to A B = Ok (VQ x) -> convert_to B C = Ok (VQ y) ->
  exists z, convert_to A C = Ok (VQ z) /\ z == x * y.
Proof. exact ConvertProofs.convert_compose. Qed.
Print Assumptions convert_compose.

Theorem convert_inverse : forall A B a da b db x,
  as_quantity A = Ok (VQ a, da) -> as_quantity B = Ok (VQ b, db) ->
  is_anydim_instance da = false -> ~ a == 0 ->
  convert_to A B = Ok (VQ x) ->
  exists y, convert_to B A = Ok (VQ y) /\ x * y == 1.
Proof. exact ConvertProofs.convert_inverse. Qed.
Print Assumptions convert_inverse.

Theorem convert_linear_scale : forall k a dv b du x x',
  convert_core (VQ a) dv (VQ b) du = Ok (VQ x) ->
  convert_core (VQ (k * a)) dv (VQ b) du = Ok (VQ x') ->
  x' == k * x.
Proof. exact ConvertProofs.convert_linear_scale. Qed.
Print Assumptions convert_linear_scale.

Theorem convert_linear_add : forall a1 a2 dv b du x1 x2 x,
  convert_core (VQ a1) dv (VQ b) du = Ok (VQ x1) ->
  convert_core (VQ a2) dv (VQ b) du = Ok (VQ x2) ->
  convert_core (VQ (a1 + a2)) dv (VQ b) du = Ok (VQ x) ->
  x == x1 + x2.
Proof. exact ConvertProofs.convert_linear_add. Qed.
Print Assumptions convert_linear_add.

Theorem convert_scale_verdict : forall k a dv b du,
  ~ k == 0 -> ~ a == 0 ->
  ((exists x, convert_core (VQ a) dv (VQ b) du = Ok x) <-> (exists x, convert_core (VQ (k * a)) dv (VQ b) du = Ok x)).
Proof. exact ConvertProofs.convert_scale_verdict. Qed.
Print Assumptions convert_scale_verdict.

Theorem convert_self_si : forall tbl a d x s du,
  quantity_ctor (si_unit_expr tbl d) None = Ok (VQ s, du) ->
  convert_to_si tbl (CQ (VQ a) d) = Ok (VQ x) ->
  x * s == a /\ ~ s == 0.
Proof. exact ConvertProofs.convert_self_si. Qed.
Print Assumptions convert_self_si.

Theorem celsius_roundtrip : forall off c, from_kelvin off (to_kelvin off c) == c.
Proof. exact ConvertProofs.celsius_roundtrip. Qed.
Print Assumptions celsius_roundtrip.

Theorem kelvin_roundtrip : forall off k, to_kelvin off (from_kelvin off k) == k.
Proof. exact ConvertProofs.kelvin_roundtrip. Qed.
Print Assumptions kelvin_roundtrip.

Theorem celsius_quantity_roundtrip : forall off ks kd td c,
  ~ ks == 0 -> deqb td kd = true ->
  exists sv dv, to_kelvin_quantity off (VQ ks) kd td c = Ok (sv, dv) /\
    exists c', from_kelvin_quantity off (VQ ks) kd sv dv = Ok (VQ c') /\ c' == c.
Proof. exact ConvertProofs.celsius_quantity_roundtrip. Qed.
Print Assumptions celsius_quantity_roundtrip.

(* the SI value: x * (product of the base units' scales to the dimension's exponents) = scale *)
Theorem convert_to_si_value : forall tbl a d,
  table_ok tbl = true -> wf_dim d -> int_dim d -> anyd_free d ->
  exists x, convert_to_si tbl (CQ (VQ a) d) = Ok (VQ x) /\ x * sisQ (scales tbl) d == a.
Proof. exact ConvertProofs.convert_to_si_value. Qed.
Print Assumptions convert_to_si_value.

(* n * (SI unit of d), converted to SI, is n *)
Theorem convert_si_unit_roundtrip : forall tbl d n,
  table_ok tbl = true -> wf_dim d -> int_dim d -> ~ n == 0 ->
  exists x, convert_to_si tbl (CE (QMul [QNum (VQ n); si_unit_expr tbl d])) = Ok (VQ x) /\ x == n.
Proof. exact ConvertProofs.convert_si_unit_roundtrip. Qed.
Print Assumptions convert_si_unit_roundtrip.

(* replacing every quantity of an expression by its SI number and evaluating gives the SI value of the
   expression taken as a quantity *)
Theorem evaluate_preserves_value : forall tbl e S D N,
  table_ok tbl = true -> regular tbl e ->
  collect (embed e) = Ok (VQ S, D) -> eval_si tbl e = Ok (VQ N) ->
  exists N', convert_to_si tbl (CQ (VQ S) D) = Ok (VQ N') /\ N' == N.
Proof. exact ConvertProofs.evaluate_preserves_value. Qed.
Print Assumptions evaluate_preserves_value.
