(* C08 -- the approximate-equality oracle accepts only same-dimension values within tolerance.
   Only `exact` proofs of lemmas from Proofs/ApproxProofs.v, each followed by Print Assumptions.
   All statements are about the exact instance QO of the generic algorithm of Model/Approx.v; the binary64
   instance FO of the same algorithm is what the harness compares bit-exactly with the implementation. *)
From Coq Require Import List QArith ZArith Bool NArith Qabs Qminmax.
From VP Require Import Base.Util Base.Dim Base.Val Model.CollectQ Model.Gate Model.Convert Model.Approx
  Proofs.ConvertProofs Proofs.ApproxProofs.
Import ListNotations.
Local Open Scope Q_scope.

(* exact characterisation of approx_equal_numbers for non-negative tolerances *)
Theorem approx_numbers_spec : forall dflt l r rel abs,
  0 <= rel_eff dflt rel -> (forall a, abs = Some a -> 0 <= a) ->
  exists b, ANq dflt l r rel abs = Ok b /\
    (b = true <-> l == r \/ Qabs (r - l) <= Qmax (rel_eff dflt rel * Qabs r) (abs_eff dflt l rel abs)).
Proof. exact ApproxProofs.approx_numbers_spec. Qed.
Print Assumptions approx_numbers_spec.

Theorem approx_rejects : forall dflt l r rel abs,
  0 <= rel_eff dflt rel -> (forall a, abs = Some a -> 0 <= a) ->
  Qmax (abs_stated abs) (rel_eff dflt rel * Qmax (Qabs l) (Qabs r)) < Qabs (l - r) ->
  ANq dflt l r rel abs = Ok false.
Proof. exact ApproxProofs.approx_rejects. Qed.
Print Assumptions approx_rejects.

Theorem approx_accepts_abs : forall dflt l r rel a,
  0 <= rel_eff dflt rel -> Qabs (l - r) <= a -> ANq dflt l r rel (Some a) = Ok true.
Proof. exact ApproxProofs.approx_accepts_abs. Qed.
Print Assumptions approx_accepts_abs.

Theorem approx_accepts_rel : forall dflt l r rel,
  0 <= rel_eff dflt rel -> Qabs (l - r) <= rel_eff dflt rel * Qmax (Qabs l) (Qabs r) ->
  ANq dflt l r rel None = Ok true.
Proof. exact ApproxProofs.approx_accepts_rel. Qed.
Print Assumptions approx_accepts_rel.

Theorem approx_symmetric_without_abs : forall dflt l r rel,
  0 <= rel_eff dflt rel -> ANq dflt l r rel None = ANq dflt r l rel None.
Proof. exact ApproxProofs.approx_symmetric_without_abs. Qed.
Print Assumptions approx_symmetric_without_abs.

(* an infinite number is approximately equal only to itself, whatever the tolerances *)
Theorem approx_infinite_only_equal_to_itself : forall dflt (l r : xq) rel abs,
  xisinf l || xisinf r = true -> approx_numbers QO dflt l r rel abs = Ok (xeqb l r).
Proof. exact ApproxProofs.approx_infinite_only_equal_to_itself. Qed.
Print Assumptions approx_infinite_only_equal_to_itself.

(* symmetry of the verdict over all operands: finite, infinite and NaN *)
Theorem approx_symmetric_extended : forall dflt (l r : xq) rel,
  0 <= rel_eff dflt rel ->
  (approx_numbers QO (XQ dflt) l r (oxq rel) None = Ok true <-> approx_numbers QO (XQ dflt) r l (oxq rel) None = Ok true).
Proof. exact ApproxProofs.approx_symmetric_extended. Qed.
Print Assumptions approx_symmetric_extended.

Theorem assert_equal_infinite_rejects : forall dflt (l r : aq QO) rel abs dimension,
  xisinf (aq_re l) || xisinf (aq_re r) = true -> xeqb (aq_re l) (aq_re r) = false ->
  assert_equal QO dflt (OQ l) (OQ r) rel abs dimension <> None.
Proof. exact ApproxProofs.assert_equal_infinite_rejects. Qed.
Print Assumptions assert_equal_infinite_rejects.

Theorem dim_gate_pass_iff : forall (l r : aq QO),
  is_number (aq_val l) = true ->
  (dim_gate QO l r = None <->
   wild (aq_val r) (aq_dim r) = true \/ wild (aq_val l) (aq_dim l) = true \/
   deq (erase_angle (aq_dim l)) (erase_angle (aq_dim r))).
Proof. exact ApproxProofs.dim_gate_pass_iff. Qed.
Print Assumptions dim_gate_pass_iff.

Theorem approx_dimension_first : forall dflt (l r : aq QO) rel abs k,
  dim_gate QO l r = Some k -> approx_quantities_core QO dflt l r rel abs = Err k.
Proof. exact ApproxProofs.approx_dimension_first. Qed.
Print Assumptions approx_dimension_first.

Theorem assert_equal_dimension_first : forall dflt (l r : aq QO) rel abs dimension,
  is_number (aq_val l) = true ->
  wild (aq_val r) (aq_dim r) = false -> wild (aq_val l) (aq_dim l) = false ->
  ~ deq (erase_angle (aq_dim l)) (erase_angle (aq_dim r)) ->
  exists k, assert_equal QO dflt (OQ l) (OQ r) rel abs dimension = Some k /\ (k = E_UNITS \/ k = E_TYPE).
Proof. exact ApproxProofs.assert_equal_dimension_first. Qed.
Print Assumptions assert_equal_dimension_first.

Theorem approx_imag_checked : forall dflt (l r : aq QO) rel abs,
  dim_gate QO l r = None ->
  approx_numbers QO dflt (aq_im l) (aq_im r) rel abs = Ok false ->
  approx_quantities_core QO dflt l r rel abs = Ok false.
Proof. exact ApproxProofs.approx_imag_checked. Qed.
Print Assumptions approx_imag_checked.

Theorem assert_equal_rejects : forall dflt vl rel_l iml dl vr rer imr dr rel abs dimension,
  0 <= rel_eff dflt rel -> (forall a, abs = Some a -> 0 <= a) ->
  gap dflt rel abs rel_l rer \/ gap dflt rel abs iml imr ->
  assert_equal QO (XQ dflt) (OQ (fq vl rel_l iml dl)) (OQ (fq vr rer imr dr)) (oxq rel) (oxq abs) dimension <> None.
Proof. exact ApproxProofs.assert_equal_rejects. Qed.
Print Assumptions assert_equal_rejects.

Theorem assert_equal_accepts : forall dflt vl rel_l iml dl vr rer imr dr rel abs dimension,
  0 <= rel_eff dflt rel ->
  dim_gate QO (fq vl rel_l iml dl) (fq vr rer imr dr) = None ->
  within dflt rel abs rel_l rer -> within dflt rel abs iml imr ->
  assert_equal QO (XQ dflt) (OQ (fq vl rel_l iml dl)) (OQ (fq vr rer imr dr)) (oxq rel) (oxq abs) dimension = None.
Proof. exact ApproxProofs.assert_equal_accepts. Qed.
Print Assumptions assert_equal_accepts.

Theorem assert_equal_symmetric_without_abs : forall dflt vl rel_l iml dl vr rer imr dr rel dimension,
  0 <= rel_eff dflt rel ->
  is_number vl = true -> is_number vr = true ->
  wild vl dl = false -> wild vr dr = false ->
  (assert_equal QO (XQ dflt) (OQ (fq vl rel_l iml dl)) (OQ (fq vr rer imr dr)) (oxq rel) None dimension = None <->
   assert_equal QO (XQ dflt) (OQ (fq vr rer imr dr)) (OQ (fq vl rel_l iml dl)) (oxq rel) None dimension = None).
Proof. exact ApproxProofs.assert_equal_symmetric_without_abs. Qed.
Print Assumptions assert_equal_symmetric_without_abs.

Theorem approx_unit_independent : forall dflt (l : operand QO) e e' rel abs dimension,
  quantity_ctor e dimension = quantity_ctor e' dimension ->
  assert_equal QO dflt l (OE e) rel abs dimension = assert_equal QO dflt l (OE e') rel abs dimension.
Proof. exact ApproxProofs.approx_unit_independent. Qed.
Print Assumptions approx_unit_independent.

Theorem approx_unit_independent_lhs : forall dflt (r : operand QO) e e' rel abs dimension,
  quantity_ctor e None = quantity_ctor e' None ->
  assert_equal QO dflt (OE e) r rel abs dimension = assert_equal QO dflt (OE e') r rel abs dimension.
Proof. exact ApproxProofs.approx_unit_independent_lhs. Qed.
Print Assumptions approx_unit_independent_lhs.

Theorem bare_number_needs_dimension : forall dflt vl rel_l iml dl x rel abs,
  is_number vl = true -> wild vl dl = false -> dimensionless (erase_angle dl) = false -> ~ x == 0 ->
  assert_equal QO dflt (OQ (fq vl rel_l iml dl)) (OE (QNum (VQ x))) rel abs None = Some E_UNITS.
Proof. exact ApproxProofs.bare_number_needs_dimension. Qed.
Print Assumptions bare_number_needs_dimension.

Theorem bare_number_with_dimension : forall dflt (l : operand QO) x d rel abs,
  assert_equal QO dflt l (OE (QNum (VQ x))) rel abs (Some d) =
  assert_equal QO dflt l (OQ (fq (VQ x) x 0 d)) rel abs (Some d).
Proof. exact ApproxProofs.bare_number_with_dimension. Qed.
Print Assumptions bare_number_with_dimension.

Theorem vectors_pass_iff : forall dflt (ls rs : list (aq QO)) rel abs dimension,
  assert_equal_vectors QO dflt ls rs rel abs dimension = None <->
  Forall2 (fun l r => assert_equal QO dflt (OQ l) (OQ r) rel abs dimension = None) ls rs.
Proof. exact ApproxProofs.vectors_pass_iff. Qed.
Print Assumptions vectors_pass_iff.

Theorem vectors_need_equal_length : forall dflt (ls rs : list (aq QO)) rel abs dimension,
  length ls <> length rs -> assert_equal_vectors QO dflt ls rs rel abs dimension <> None.
Proof. exact ApproxProofs.vectors_need_equal_length. Qed.
Print Assumptions vectors_need_equal_length.
