(* C15 -- experimental coordinate conversions are consistent and geometry-preserving.
   Statements about Model/ExpCoords.v (all ordered pairs / triples of systems at once: a b c range over esys);
   the generated lemmas of harness/props/c15.py tie the model to the code. *)
From Coq Require Import Reals.
From Coquelicot Require Import Coquelicot.
From VP Require Import Base.Atan2 Model.ExpCoords Proofs.ExpCoordsProofs.
Local Open Scope R_scope.

(* ---- base scalars ------------------------------------------------------------------------------------ *)

Theorem scalars_roundtrip : forall (a b : esys) (q : V3),
  regular a q -> ExpCoords.scal a b (ExpCoords.scal b a q) = q.
Proof. exact ExpCoordsProofs.scalars_roundtrip. Qed.
Print Assumptions scalars_roundtrip.

Theorem direct_equals_via_third : forall (a b c : esys) (q : V3),
  regular c q -> ExpCoords.scal a c q = ExpCoords.scal a b (ExpCoords.scal b c q).
Proof. exact ExpCoordsProofs.direct_equals_via_third. Qed.
Print Assumptions direct_equals_via_third.

Theorem conversion_stays_regular : forall (a b : esys) (q : V3),
  regular b q -> regular a (ExpCoords.scal a b q).
Proof. exact ExpCoordsProofs.regular_scal. Qed.
Print Assumptions conversion_stays_regular.

(* ---- base vectors -------------------------------------------------------------------------------------- *)

Theorem basis_matrix_orthonormal : forall (a b : esys) (q : V3),
  regular b q ->
  mmul (bvec a b q) (mtr (bvec a b q)) = I3 /\ mmul (mtr (bvec a b q)) (bvec a b q) = I3 /\ det (bvec a b q) = 1.
Proof. exact ExpCoordsProofs.basis_matrix_orthonormal. Qed.
Print Assumptions basis_matrix_orthonormal.

Theorem basis_inverse : forall (a b : esys) (q : V3),
  regular b q -> mmul (bvec a b q) (bvec b a (ExpCoords.scal a b q)) = I3.
Proof. exact ExpCoordsProofs.basis_inverse. Qed.
Print Assumptions basis_inverse.

Theorem basis_direct_equals_via_third : forall (a b c : esys) (q : V3),
  regular c q -> bvec a c q = mmul (bvec a b (ExpCoords.scal b c q)) (bvec b c q).
Proof. exact ExpCoordsProofs.basis_direct_equals_via_third. Qed.
Print Assumptions basis_direct_equals_via_third.

(* ---- points and vectors ----------------------------------------------------------------------------------- *)

Theorem convert_point_preserves_cartesian : forall (a b : esys) (p : V3),
  regular a p -> position b (convert_point a b p) = position a p.
Proof. exact ExpCoordsProofs.convert_point_preserves_cartesian. Qed.
Print Assumptions convert_point_preserves_cartesian.

Theorem convert_point_roundtrip : forall (a b : esys) (p : V3),
  regular a p -> convert_point b a (convert_point a b p) = p.
Proof. exact ExpCoordsProofs.convert_point_roundtrip. Qed.
Print Assumptions convert_point_roundtrip.

Theorem convert_vector_preserves_cartesian_components : forall (a b : esys) (c p : V3),
  regular a p ->
  cart_components b (convert_vector a b c p) (convert_point a b p) = cart_components a c p.
Proof. exact ExpCoordsProofs.convert_vector_preserves_cartesian_components. Qed.
Print Assumptions convert_vector_preserves_cartesian_components.

Theorem convert_vector_roundtrip : forall (a b : esys) (c p : V3),
  regular a p -> convert_vector b a (convert_vector a b c p) (convert_point a b p) = c.
Proof. exact ExpCoordsProofs.convert_vector_roundtrip. Qed.
Print Assumptions convert_vector_roundtrip.

(* ---- Lame coefficients ---------------------------------------------------------------------------------------- *)

Theorem position_derivatives : forall (a : esys) (i : nat) (q : V3),
  is_derive (fun t => c1 (position a (along i q t))) (coord i q) (c1 (dposition a i q)) /\
  is_derive (fun t => c2 (position a (along i q t))) (coord i q) (c2 (dposition a i q)) /\
  is_derive (fun t => c3 (position a (along i q t))) (coord i q) (c3 (dposition a i q)).
Proof. exact ExpCoordsProofs.dposition_is_derivative. Qed.
Print Assumptions position_derivatives.

Theorem lame_is_norm_of_position_derivative : forall (a : esys) (q : V3),
  regular a q ->
  lame a q = (norm (dposition a 0 q), norm (dposition a 1 q), norm (dposition a 2 q)).
Proof. exact ExpCoordsProofs.lame_is_norm_of_position_derivative. Qed.
Print Assumptions lame_is_norm_of_position_derivative.

Theorem coordinate_lines_orthogonal : forall (a : esys) (q : V3),
  dotv (dposition a 0 q) (dposition a 1 q) = 0 /\
  dotv (dposition a 0 q) (dposition a 2 q) = 0 /\
  dotv (dposition a 1 q) (dposition a 2 q) = 0.
Proof. exact ExpCoordsProofs.coordinate_lines_orthogonal. Qed.
Print Assumptions coordinate_lines_orthogonal.

(* ---- dispatch fall-through --------------------------------------------------------------------------------------- *)

Theorem dispatch_table_iff : forall a b : akind,
  dispatch a b = DTable <-> registered a = true /\ registered b = true /\ a <> b.
Proof. exact ExpCoordsProofs.dispatch_table_iff. Qed.
Print Assumptions dispatch_table_iff.

Theorem dispatch_identity_iff : forall a b : akind,
  dispatch a b = DIdentity <-> a = b /\ a <> KNotSystem.
Proof. exact ExpCoordsProofs.dispatch_identity_iff. Qed.
Print Assumptions dispatch_identity_iff.
