(* C14 -- coordinate-free vector algebra simplification preserves value in R^3.
   Statements only; proofs are in Proofs/{Vec3,SortSign,VecAlg}Proofs.v.  The rule lemmas `rule_*` and
   `source_rules_ok` are regenerated from /repo's source on every run (harness/props/c14.py). *)
From Coq Require Import List ZArith Bool Reals Permutation Sorted.
From VP Require Import Model.Vec3 Model.SortSign Model.VecAlg.
From VP Require Import Proofs.Vec3Proofs Proofs.SortSignProofs Proofs.VecAlgProofs.
From VP Require Import Model.VecDiff Proofs.VecDiffProofs.
Import ListNotations.
Local Open Scope R_scope.

(* sort_with_sign: sorted by key; a permutation when the key identifies the items; sign 0 exactly for
   repeated keys, otherwise the signature (-1)^inversions; always in {-1,0,1} *)
Theorem sort_sign_spec : forall (A : Type) (key : A -> Z) (l : list A),
  let r := sort_with_sign key l in
  StronglySorted Z.le (map key (snd r)) /\
  (key_inj_on key l -> Permutation l (snd r)) /\
  (fst r = 0%Z <-> ~ NoDup (map key l)) /\
  (NoDup (map key l) -> fst r = parity_sign (inv_z (map key l))) /\
  (fst r = (-1)%Z \/ fst r = 0%Z \/ fst r = 1%Z).
Proof. exact @SortSignProofs.sort_sign_spec. Qed.
Print Assumptions sort_sign_spec.

Theorem sort_sign_swap : forall (A : Type) (key : A -> Z) (l1 l2 : list A) (x y : A), key x <> key y ->
  fst (sort_with_sign key (l1 ++ y :: x :: l2)) = (- fst (sort_with_sign key (l1 ++ x :: y :: l2)))%Z.
Proof. exact @sws_sign_swap. Qed.
Print Assumptions sort_sign_swap.

Theorem sort_sign_sorted : forall (A : Type) (key : A -> Z) (l : list A),
  StronglySorted Z.lt (map key l) -> fst (sort_with_sign key l) = 1%Z.
Proof. exact @sws_sign_sorted. Qed.
Print Assumptions sort_sign_sorted.

(* _ordered_mul, for EVERY key that identifies the vectors (every creation order): an alternating
   multilinear product is the signed sum over the sorted tuples; a symmetric one the plain sum *)
Theorem ordered_mul_sound : forall (K B : Type) (o : kops K) (phi : K -> R), khom o phi ->
  forall (val : B -> V3) (eqb : B -> B -> bool) (P : B -> Prop),
  (forall x y : B, P x -> P y -> eqb x y = true -> x = y) ->
  forall (key : B -> Z) (f : list V3 -> R) (args : list (lc K B)),
  multilinear f -> alternating f -> args_inj key args -> eqb_ok_on P args ->
  f (map (lcv phi val) args) =
  osum phi (fun (s : Z) (t : list B) => IZR s * f (map val t)) (ordered_mul o eqb key args).
Proof. exact @ordered_mul_sound_alt. Qed.
Print Assumptions ordered_mul_sound.

Theorem ordered_mul_sound_symmetric : forall (K B : Type) (o : kops K) (phi : K -> R), khom o phi ->
  forall (val : B -> V3) (eqb : B -> B -> bool) (P : B -> Prop),
  (forall x y : B, P x -> P y -> eqb x y = true -> x = y) ->
  forall (key : B -> Z) (f : list V3 -> R) (args : list (lc K B)),
  multilinear f -> symmetric f -> args_inj key args -> eqb_ok_on P args ->
  f (map (lcv phi val) args) =
  osum phi (fun (s : Z) (t : list B) => f (map val t)) (ordered_mul o eqb key args).
Proof. exact @ordered_mul_sound_sym. Qed.
Print Assumptions ordered_mul_sound_symmetric.

(* the route of VectorDot / VectorCross / VectorMixedProduct / VectorNorm through sums, scalings and nested
   products returns the value of the expression -- for every rule set made of valid identities, every
   assignment of identities to the objects, every value of the symbols and scalars, every expression *)
Theorem simplify_sound : forall rs : ruleset, rules_ok rs ->
  forall ckey z0 is1 split regroup (A : atomv -> Prop),
  keys_ok ckey A -> oracles_ok z0 is1 split -> regroup_ok regroup ->
  (forall e, vatoms A e -> lc_val (route_v rs ckey z0 is1 split regroup e) = eval_v e) /\
  (forall s, satoms A s -> route_s rs ckey z0 is1 split regroup s = eval_s s).
Proof. exact VecAlgProofs.simplify_sound. Qed.
Print Assumptions simplify_sound.

(* rules_ok is satisfiable: the identities the rules are meant to be *)
Theorem reference_rules_sound : rules_ok reference_rules.
Proof. exact reference_rules_ok. Qed.
Print Assumptions reference_rules_sound.

Theorem binet_cauchy_identity : forall a b c d : V3,
  dot (cross a b) (cross c d) = dot a c * dot b d - dot a d * dot b c.
Proof. exact binet_cauchy. Qed.
Print Assumptions binet_cauchy_identity.

Theorem norm_homogeneous : forall (k : R) (a : V3), norm (vscale k a) = Rabs k * norm a.
Proof. exact norm_scale. Qed.
Print Assumptions norm_homogeneous.

(* differentiation with respect to a scalar parameter is a structural function (it terminates) and computes
   the derivative: linearity, the product rule for scalings and for dot / cross / mixed products, the norm where it
   does not vanish -- for atoms that are differentiable with the stated derivatives *)
Theorem diff_terminates_and_leibniz :
  (forall e t, wf_v e t -> dlim3 (pval_v e) t (pval_v (Dv e) t)) /\
  (forall e t, wf_s e t -> derivable_pt_lim (pval_s e) t (pval_s (Ds e) t)).
Proof. exact diff_is_derivative. Qed.
Print Assumptions diff_terminates_and_leibniz.
