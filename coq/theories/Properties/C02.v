(* C02 -- calculation functions return solutions of the law they belong to.
   The per-function obligations `calc_<module>_<fn>` are generated from the live source by harness/props/c02.py and
   kernel-checked on every run; the static part below is what they rely on once. *)
From Coq Require Import Reals List ZArith.
From VP Require Import Proofs.C02Proofs.
Local Open Scope R_scope.

Theorem quantity_is_si_value : forall n s k : R, k <> 0 -> si_value (n / k, s * k) = si_value (n, s).
Proof. exact si_value_rescale. Qed.
Print Assumptions quantity_is_si_value.

Theorem calc_result_unit_independent : forall (F : list R -> R) (qs1 qs2 : list (R * R)),
  map si_value qs1 = map si_value qs2 -> F (map si_value qs1) = F (map si_value qs2).
Proof. exact calc_unit_independent. Qed.
Print Assumptions calc_result_unit_independent.

Theorem rounded_up_integer_spec : forall x : R, x <= IZR (ceil x) < x + 1.
Proof. exact ceil_bounds. Qed.
Print Assumptions rounded_up_integer_spec.

Theorem rounded_up_integer_unique : forall (x : R) (z : Z), x <= IZR z < x + 1 -> z = ceil x.
Proof. exact ceil_unique. Qed.
Print Assumptions rounded_up_integer_unique.

Theorem magnitude_of_solution : forall (P : R -> Prop) (s : R), P s -> P (Rabs s) \/ P (- Rabs s).
Proof. exact magnitude_exception. Qed.
Print Assumptions magnitude_of_solution.

Theorem vector_forms_mutual_inverse : forall m a : R, m <> 0 -> (m * a) / m = a /\ m * (a / m) = a.
Proof. exact scale_forms_inverse. Qed.
Print Assumptions vector_forms_mutual_inverse.
