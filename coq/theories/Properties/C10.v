(* C10 -- Cartesian vector arithmetic obeys vector-space, dot and cross product laws.
   Statements only; proofs are in Proofs/CartVecProofs.v, the model in Model/CartVec.v. *)
From Coq Require Import Reals List NArith QArith Bool.
From VP Require Import Base.Util Model.CartVec Proofs.CartVecProofs.
Import ListNotations.
Local Open Scope R_scope.

Theorem c10_add_comm :
  forall a b : vec, vadd a b = vadd b a.
Proof. exact vadd_comm. Qed.
Print Assumptions c10_add_comm.

Theorem c10_add_assoc :
  forall a b c : vec, vadd (vadd a b) c = vadd a (vadd b c).
Proof. exact vadd_assoc. Qed.
Print Assumptions c10_add_assoc.

Theorem c10_sum_is_left_fold :
  forall a b c : vec, vsum a [b; c] = vadd (vadd a b) c.
Proof. exact vsum_three. Qed.
Print Assumptions c10_sum_is_left_fold.

Theorem c10_sub_inverse :
  forall a b : vec, vsub (vadd a b) b = extend (length b) a.
Proof. exact vsub_vadd. Qed.
Print Assumptions c10_sub_inverse.

Theorem c10_sub_inverse_veq :
  forall a b : vec, veq (vsub (vadd a b) b) a.
Proof. exact vsub_vadd_veq. Qed.
Print Assumptions c10_sub_inverse_veq.

Theorem c10_add_sub_inverse :
  forall a b : vec, vadd (vsub a b) b = extend (length b) a.
Proof. exact vadd_vsub. Qed.
Print Assumptions c10_add_sub_inverse.

Theorem c10_sub_self :
  forall a : vec, vsub a a = repeat 0 (length a).
Proof. exact vsub_self. Qed.
Print Assumptions c10_sub_self.

Theorem c10_sub_nary :
  forall a b c : vec, vsub_n a b [c] = vsub (vsub a b) c.
Proof. exact vsub_n_two. Qed.
Print Assumptions c10_sub_nary.

Theorem c10_scale_distr_vadd :
  forall (k : R) (a b : vec), vscale k (vadd a b) = vadd (vscale k a) (vscale k b).
Proof. exact vscale_vadd. Qed.
Print Assumptions c10_scale_distr_vadd.

Theorem c10_scale_distr_plus :
  forall (k l : R) (a : vec), vscale (k + l) a = vadd (vscale k a) (vscale l a).
Proof. exact vscale_plus. Qed.
Print Assumptions c10_scale_distr_plus.

Theorem c10_scale_compose :
  forall (k l : R) (a : vec), vscale k (vscale l a) = vscale (k * l) a.
Proof. exact vscale_vscale. Qed.
Print Assumptions c10_scale_compose.

Theorem c10_scale_one :
  forall a : vec, vscale 1 a = a.
Proof. exact vscale_one. Qed.
Print Assumptions c10_scale_one.

Theorem c10_dot_symmetric :
  forall a b : vec, dot a b = dot b a.
Proof. exact dot_comm. Qed.
Print Assumptions c10_dot_symmetric.

Theorem c10_dot_additive_l :
  forall a b c : vec, dot (vadd a b) c = dot a c + dot b c.
Proof. exact dot_vadd_l. Qed.
Print Assumptions c10_dot_additive_l.

Theorem c10_dot_additive_r :
  forall a b c : vec, dot a (vadd b c) = dot a b + dot a c.
Proof. exact dot_vadd_r. Qed.
Print Assumptions c10_dot_additive_r.

Theorem c10_dot_homogeneous_l :
  forall (k : R) (a b : vec), dot (vscale k a) b = k * dot a b.
Proof. exact dot_vscale_l. Qed.
Print Assumptions c10_dot_homogeneous_l.

Theorem c10_dot_homogeneous_r :
  forall (k : R) (a b : vec), dot a (vscale k b) = k * dot a b.
Proof. exact dot_vscale_r. Qed.
Print Assumptions c10_dot_homogeneous_r.

Theorem c10_magnitude_squared :
  forall v : vec, mag v * mag v = dot v v.
Proof. exact mag_sq. Qed.
Print Assumptions c10_magnitude_squared.

Theorem c10_padding_dot :
  forall (n : nat) (a b : vec), dot (extend n a) b = dot a b.
Proof. exact dot_extend_l. Qed.
Print Assumptions c10_padding_dot.

Theorem c10_padding_equality :
  forall a b : vec, veq a b <-> forall i, nth i a 0 = nth i b 0.
Proof. exact veq_nth. Qed.
Print Assumptions c10_padding_equality.

Theorem c10_cross_additive_l :
  forall a b c : vec, (length a <= 3)%nat -> (length b <= 3)%nat -> (length c <= 3)%nat -> cross (vadd a b) c = vadd (cross a c) (cross b c).
Proof. exact cross_vadd_l. Qed.
Print Assumptions c10_cross_additive_l.

Theorem c10_cross_additive_r :
  forall a b c : vec, (length a <= 3)%nat -> (length b <= 3)%nat -> (length c <= 3)%nat -> cross a (vadd b c) = vadd (cross a b) (cross a c).
Proof. exact cross_vadd_r. Qed.
Print Assumptions c10_cross_additive_r.

Theorem c10_cross_homogeneous_l :
  forall (k : R) (a b : vec), (length a <= 3)%nat -> (length b <= 3)%nat -> cross (vscale k a) b = vscale k (cross a b).
Proof. exact cross_vscale_l. Qed.
Print Assumptions c10_cross_homogeneous_l.

Theorem c10_cross_homogeneous_r :
  forall (k : R) (a b : vec), (length a <= 3)%nat -> (length b <= 3)%nat -> cross a (vscale k b) = vscale k (cross a b).
Proof. exact cross_vscale_r. Qed.
Print Assumptions c10_cross_homogeneous_r.

Theorem c10_cross_antisymmetric :
  forall a b : vec, (length a <= 3)%nat -> (length b <= 3)%nat -> cross a b = vscale (-1) (cross b a).
Proof. exact cross_antisym. Qed.
Print Assumptions c10_cross_antisymmetric.

Theorem c10_cross_orthogonal_l :
  forall a b : vec, (length a <= 3)%nat -> (length b <= 3)%nat -> dot (cross a b) a = 0.
Proof. exact cross_orth_l. Qed.
Print Assumptions c10_cross_orthogonal_l.

Theorem c10_cross_orthogonal_r :
  forall a b : vec, (length a <= 3)%nat -> (length b <= 3)%nat -> dot (cross a b) b = 0.
Proof. exact cross_orth_r. Qed.
Print Assumptions c10_cross_orthogonal_r.

Theorem c10_cross_lagrange :
  forall a b : vec, (length a <= 3)%nat -> (length b <= 3)%nat -> mag2 (cross a b) = mag2 a * mag2 b - dot a b * dot a b.
Proof. exact cross_lagrange. Qed.
Print Assumptions c10_cross_lagrange.

Theorem c10_cross_defined_iff_short :
  forall a b : vec, ((length a <= 3)%nat -> (length b <= 3)%nat -> cross_opt a b = Some (cross a b)) /\ ((3 < length a)%nat \/ (3 < length b)%nat -> cross_opt a b = None).
Proof. exact cross_opt_defined. Qed.
Print Assumptions c10_cross_defined_iff_short.

Theorem c10_padding_cross :
  forall a b : vec, (length a <= 3)%nat -> (length b <= 3)%nat -> cross (extend 3 a) b = cross a b.
Proof. exact cross_extend_l. Qed.
Print Assumptions c10_padding_cross.

Theorem c10_project_plus_reject :
  forall v t : vec, vadd (project v t) (reject v t) = extend (length t) v.
Proof. exact project_reject. Qed.
Print Assumptions c10_project_plus_reject.

Theorem c10_project_plus_reject_veq :
  forall v t : vec, veq (vadd (project v t) (reject v t)) v.
Proof. exact project_reject_veq. Qed.
Print Assumptions c10_project_plus_reject_veq.

Theorem c10_reject_orthogonal :
  forall v t : vec, dot t t <> 0 -> dot (reject v t) t = 0.
Proof. exact reject_orth. Qed.
Print Assumptions c10_reject_orthogonal.

Theorem c10_unit_magnitude :
  forall v : vec, (exists x, In x v /\ x <> 0) -> mag (unit v) = 1.
Proof. exact unit_mag. Qed.
Print Assumptions c10_unit_magnitude.

Theorem c10_nonzero_iff_dot :
  forall v : vec, dot v v = 0 <-> Forall (fun x => x = 0) v.
Proof. exact dot_self_zero_iff. Qed.
Print Assumptions c10_nonzero_iff_dot.

Theorem c10_equal_vectors_spec :
  forall a b : list Q, veqbQ a b = true <-> forall i, (nth i a 0 == nth i b 0)%Q.
Proof. exact veqbQ_spec. Qed.
Print Assumptions c10_equal_vectors_spec.

Theorem c10_refuses_mixed_systems :
  forall (op : binop) (l r : vshape), same_sys (fst l) (fst r) = false -> binop_outcome op l r <> Accept.
Proof. exact binop_refuses_mixed. Qed.
Print Assumptions c10_refuses_mixed_systems.

Theorem c10_refuses_noncartesian :
  forall (op : binop) (l r : vshape), needs_cartesian op = true -> is_cart (fst l) = false \/ is_cart (fst r) = false -> binop_outcome op l r <> Accept.
Proof. exact binop_refuses_noncartesian. Qed.
Print Assumptions c10_refuses_noncartesian.

Theorem c10_accepts_cartesian :
  forall (op : binop) (l r : vshape), same_sys (fst l) (fst r) = true -> is_cart (fst l) = true -> is_cart (fst r) = true -> (snd l <= 3)%nat -> (snd r <= 3)%nat -> binop_outcome op l r = Accept.
Proof. exact binop_accepts_cartesian. Qed.
Print Assumptions c10_accepts_cartesian.

Theorem c10_cross_refuses_long :
  forall l r : vshape, (3 < snd l)%nat \/ (3 < snd r)%nat -> cross_outcome l r <> Accept.
Proof. exact cross_refuses_long. Qed.
Print Assumptions c10_cross_refuses_long.
