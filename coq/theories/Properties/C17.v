From VP Require Import Model.CodeSyntax Proofs.CodeSyntaxProofs.
