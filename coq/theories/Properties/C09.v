(* C09 -- distinct symbols never alias; clones keep dimension and assumptions; printing shows display names.
   Statements only; proofs are in Proofs/IdsProofs.v and Proofs/SymbolsProofs.v. *)
From Coq Require Import List NArith String Bool QArith.
From VP Require Import Base.Dim Model.Ids Model.Symbols Proofs.IdsProofs Proofs.SymbolsProofs.
Import ListNotations.
Open Scope string_scope.

(* --- fresh names ---------------------------------------------------------------------------- *)

Theorem C09_next_id_monotone : forall p s,
  (last_or0 p s < fst (next_id p s))%N /\
  last_or0 p (snd (next_id p s)) = fst (next_id p s) /\
  forall q, q <> p -> lookup q (snd (next_id p s)) = lookup q s.
Proof. exact next_id_monotone. Qed.
Print Assumptions C09_next_id_monotone.

Theorem C09_decode_unique : forall p q n m,
  digit_free p = true -> digit_free q = true -> mk_name p n = mk_name q m -> p = q /\ n = m.
Proof. exact decode_unique. Qed.
Print Assumptions C09_decode_unique.

Theorem C09_names_fresh : forall h s, prefixes_digit_free h -> NoDup (Ids.run h s).
Proof. exact names_fresh. Qed.
Print Assumptions C09_names_fresh.

Theorem C09_repo_prefixes_digit_free : forallb digit_free repo_prefixes = true.
Proof. exact repo_prefixes_digit_free. Qed.
Print Assumptions C09_repo_prefixes_digit_free.

(* --- non-aliasing, for all creation histories and all start states of the counters ------------ *)

Theorem created_pairwise_distinct : forall ops s0,
  NoDup (map identity (objs (Symbols.run ops (mkstore s0 [])))).
Proof. exact SymbolsProofs.created_pairwise_distinct. Qed.
Print Assumptions created_pairwise_distinct.

Theorem created_pairwise_distinct_from : forall ops st,
  wf_store st -> NoDup (map oname (objs st)) -> NoDup (map identity (objs (Symbols.run ops st))).
Proof. exact SymbolsProofs.created_pairwise_distinct_from. Qed.
Print Assumptions created_pairwise_distinct_from.

Theorem created_never_alias : forall ops s0, alias_pairs (Symbols.run ops (mkstore s0 [])) = [].
Proof. exact SymbolsProofs.created_never_alias. Qed.
Print Assumptions created_never_alias.

Theorem subs_non_interference : forall x y v, x <> y -> subs x v (EVar y) = EVar y.
Proof. exact SymbolsProofs.subs_non_interference. Qed.
Print Assumptions subs_non_interference.

Theorem subs_unmentioned : forall x v e, ~ In x (free e) -> subs x v e = e.
Proof. exact SymbolsProofs.subs_unmentioned. Qed.
Print Assumptions subs_unmentioned.

Theorem diff_unmentioned : forall x e r, ~ In x (free e) -> eval r (diff x e) == 0.
Proof. exact SymbolsProofs.diff_unmentioned. Qed.
Print Assumptions diff_unmentioned.

Theorem subs_lin2 : forall a x b y v, x <> a -> x <> b -> x <> y ->
  subs x v (lin2 a x b y) = EAdd (EMul (EVar a) v) (EMul (EVar b) (EVar y)).
Proof. exact SymbolsProofs.subs_lin2. Qed.
Print Assumptions subs_lin2.

Theorem diff_lin2 : forall a x b y r, x <> a -> x <> b -> x <> y ->
  eval r (diff x (lin2 a x b y)) == env_get a r.
Proof. exact SymbolsProofs.diff_lin2. Qed.
Print Assumptions diff_lin2.

Theorem solve_lin2_sound : forall a x b y r, x <> a -> x <> b -> x <> y -> ~ env_get a r == 0 ->
  eval r (subs x (solve_lin2 a b y) (lin2 a x b y)) == 0.
Proof. exact SymbolsProofs.solve_lin2_sound. Qed.
Print Assumptions solve_lin2_sound.

(* --- clones ----------------------------------------------------------------------------------- *)

Theorem clone_creates : forall op st src x,
  clone_src op = Some src -> get_src st src = Some x -> exists y, snd (exec op st) = Some y.
Proof. exact SymbolsProofs.clone_creates. Qed.
Print Assumptions clone_creates.

Theorem clone_keeps_dimension : forall op st src x y,
  clone_src op = Some src -> get_src st src = Some x -> snd (exec op st) = Some y -> odim y = odim x.
Proof. exact SymbolsProofs.clone_keeps_dimension. Qed.
Print Assumptions clone_keeps_dimension.

Theorem clone_keeps_display_when_not_overridden : forall op st src x y,
  clone_src op = Some src -> get_src st src = Some x -> snd (exec op st) = Some y ->
  absent (clone_sub op) = true ->
  (absent (clone_display op) = true -> odisplay x <> "" -> odisplay y = odisplay x) /\
  (absent (clone_latex op) = true -> olatex x <> "" -> olatex y = olatex x).
Proof. exact SymbolsProofs.clone_keeps_display_when_not_overridden. Qed.
Print Assumptions clone_keeps_display_when_not_overridden.

Theorem clone_subscript : forall op st src x y sub,
  clone_src op = Some src -> get_src st src = Some x -> snd (exec op st) = Some y ->
  clone_sub op = Some sub -> sub <> "" ->
  odisplay y = str_or (clone_display op) (odisplay x) ++ "_" ++ sub /\
  olatex y = str_or (clone_latex op) (olatex x) ++ "_{" ++ sub ++ "}".
Proof. exact SymbolsProofs.clone_subscript. Qed.
Print Assumptions clone_subscript.

(* the property's clause "when no assumptions are passed, [the clone keeps] its assumptions", all three helpers *)
Theorem clone_assumptions : forall op st src x y,
  clone_src op = Some src -> get_src st src = Some x -> snd (exec op st) = Some y ->
  clone_assum op = [] -> oassum y = oassum x.
Proof. exact SymbolsProofs.clone_assumptions. Qed.
Print Assumptions clone_assumptions.

Theorem clone_assumptions_passed : forall op st src x y,
  clone_src op = Some src -> get_src st src = Some x -> snd (exec op st) = Some y ->
  clone_assum op <> [] -> oassum y = clone_assum op.
Proof. exact SymbolsProofs.clone_assumptions_passed. Qed.
Print Assumptions clone_assumptions_passed.

(* --- printing --------------------------------------------------------------------------------- *)

Theorem printing_uses_display : forall o,
  okind o <> KCoordSys ->
  pp o = PText (decorate (okind o) (odisplay o)) \/
  (pp o = PValue /\ okind o = KQuantity /\ contains "QTY" (odisplay o) = true).
Proof. exact SymbolsProofs.printing_uses_display. Qed.
Print Assumptions printing_uses_display.

Theorem printing_bare_uses_display : forall o,
  okind o = KIndexed \/ okind o = KFunction -> pp_bare o = PText (odisplay o).
Proof. exact SymbolsProofs.printing_bare_uses_display. Qed.
Print Assumptions printing_bare_uses_display.

Theorem display_is_given : forall op st y d,
  given_display op = Some d -> d <> "" -> snd (exec op st) = Some y -> odisplay y = d.
Proof. exact SymbolsProofs.display_is_given. Qed.
Print Assumptions display_is_given.

Theorem printing_shows_given_display : forall op st y d,
  given_display op = Some d -> d <> "" -> contains "QTY" d = false ->
  snd (exec op st) = Some y -> pp y = PText (decorate (okind y) d).
Proof. exact SymbolsProofs.printing_shows_given_display. Qed.
Print Assumptions printing_shows_given_display.
