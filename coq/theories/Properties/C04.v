(* C04 -- the dimension gate admits exactly dimensionally equivalent arguments and results.
   Statements about Model/Gate.v (tied to assert_equivalent_dimension and the validate_* decorators by the
   correspondence check of harness/props/c04.py).  Only `exact` here. *)
From Coq Require Import List QArith ZArith Bool NArith Permutation.
From VP Require Import Base.Util Base.Dim Base.Val Model.CollectQ Model.Gate Model.QVec Proofs.DimProofs Proofs.GateProofs
  Proofs.QVecProofs Proofs.BindProofs.
(* concrete inputs meeting the premises of the implications below (and of C06's): checked whenever this file is *)
From VP Require Proofs.NonVacuity456.
Import ListNotations.

(* the argument passes exactly when the declaration is a wildcard (zero-valued unit expression / AnyDimension),
   or the value is zero / +-oo / NaN, or the dimensions are equivalent once angle is erased on both sides *)
Theorem C04_gate1_pass_iff : forall a x,
  gate1 a x = None <->
  xside x = SWild \/
  exists xd, xside x = SD xd /\ (aside a = SWild \/ exists ad, aside a = SD ad /\ equiv_mod_angle ad xd).
Proof. exact gate1_pass_iff. Qed.
Print Assumptions C04_gate1_pass_iff.

(* dimensionless actual (a bare number) against a dimensional declaration: type error, and only then *)
Theorem C04_gate1_typeerr_iff : forall a x ad xd, xside x = SD xd -> aside a = SD ad ->
  (gate1 a x = Some E_TYPE <-> dimensionless (erase_angle ad) = true /\ dimensionless (erase_angle xd) = false).
Proof. exact gate1_typeerr_iff. Qed.
Print Assumptions C04_gate1_typeerr_iff.

(* a quantity of another dimension: units error, and only then *)
Theorem C04_gate1_unitserr_iff : forall a x ad xd, xside x = SD xd -> aside a = SD ad ->
  (gate1 a x = Some E_UNITS <->
   ~ equiv_mod_angle ad xd /\ (dimensionless (erase_angle ad) = false \/ dimensionless (erase_angle xd) = true)).
Proof. exact gate1_unitserr_iff. Qed.
Print Assumptions C04_gate1_unitserr_iff.

Theorem C04_gate1_partition : forall a x ad xd, xside x = SD xd -> aside a = SD ad ->
  gate1 a x = None \/ gate1 a x = Some E_TYPE \/ gate1 a x = Some E_UNITS.
Proof. exact gate1_partition. Qed.
Print Assumptions C04_gate1_partition.

Theorem C04_bare_number_refused : forall v xd,
  is_number v = true -> is_any v = false -> dimensionless (erase_angle xd) = false ->
  gate1 (GExpr (QNum v)) (GDim xd) = Some E_TYPE.
Proof. exact gate1_bare_number_refused. Qed.
Print Assumptions C04_bare_number_refused.

Theorem C04_any_value_passes : forall v d x, is_any v = true -> (forall k, xside x <> SErr k) ->
  gate1 (GExpr (QQty v d)) x = None /\ gate1 (GExpr (QNum v)) x = None.
Proof. exact gate1_any_value_passes. Qed.
Print Assumptions C04_any_value_passes.

(* the verdict never depends on the magnitude ... *)
Theorem C04_magnitude_irrelevant : forall v v' d x,
  is_number v = true -> is_number v' = true -> is_any v = false -> is_any v' = false ->
  gate1 (GExpr (QQty v d)) x = gate1 (GExpr (QQty v' d)) x.
Proof. exact gate1_magnitude_irrelevant. Qed.
Print Assumptions C04_magnitude_irrelevant.

(* ... nor on a unit prefix *)
Theorem C04_prefix_irrelevant : forall p q d x, wf_dim d -> qzero p = false -> qzero q = false ->
  gate1 (GExpr (QMul [QPrefix (VQ p); QQty (VQ q) d])) x = gate1 (GExpr (QQty (VQ q) d)) x.
Proof. exact gate1_prefix_irrelevant. Qed.
Print Assumptions C04_prefix_irrelevant.

(* each element of a sequence is checked; the first failing element decides *)
Theorem C04_seq_pass_iff : forall l x, gate (GSeq l) (SOne x) = None <-> Forall (fun a => gate1 a x = None) l.
Proof. exact gate_seq_pass_iff. Qed.
Print Assumptions C04_seq_pass_iff.

Theorem C04_seq_first_failure : forall l x k, gate (GSeq l) (SOne x) = Some k ->
  exists l1 a l2, l = l1 ++ a :: l2 /\ Forall (fun b => gate1 b x = None) l1 /\ gate1 a x = Some k.
Proof. exact gate_seq_first_failure. Qed.
Print Assumptions C04_seq_first_failure.

(* a guarded function runs and returns only if every guarded argument and the result pass *)
Theorem C04_runs_only_if_all_pass : forall params guards out pos kw ret,
  guarded_call params guards out pos kw ret = None ->
  exists bound, bind params pos kw = Some bound /\
    (forall p s, In p params -> lookup p guards = Some s -> exists v, lookup p bound = Some v /\ gate v s = None) /\
    (forall s, out = Some s -> gate ret s = None).
Proof. exact guarded_call_runs_only_if_all_pass. Qed.
Print Assumptions C04_runs_only_if_all_pass.

Theorem C04_output_gate : forall params guards s pos kw ret k,
  gate ret s = Some k -> guarded_call params guards (Some s) pos kw ret <> None.
Proof. exact output_gate. Qed.
Print Assumptions C04_output_gate.

(* positional versus keyword passing: calls that bind the same values get the same verdict *)
Theorem C04_bind_style_irrelevant : forall params guards out pos kw pos' kw' ret b b',
  bind params pos kw = Some b -> bind params pos' kw' = Some b' ->
  (forall p, In p params -> lookup p b = lookup p b') ->
  guarded_call params guards out pos kw ret = guarded_call params guards out pos' kw' ret.
Proof. exact bind_style_irrelevant. Qed.
Print Assumptions C04_bind_style_irrelevant.

(* a quantity vector is constructed only if every component passes the gate against the vector's dimension (the
   angle dimension in the angle slots of the cylindrical and spherical systems) *)
Theorem C04_qvec_every_component_checked : forall sys comps o d,
  qvec_ctor sys comps o = Ok d ->
  exists qs, resolve_all o comps = Ok qs /\
    d = match o with Some x => x | None => first_dimension qs end /\
    forall i v qd, nth_error qs i = Some (v, qd) ->
      gate1 (GExpr (QQty v qd)) (GDim (if is_angle_component sys i then base ANGLE else d)) = None.
Proof. exact qvec_every_component_checked. Qed.
Print Assumptions C04_qvec_every_component_checked.

Theorem C04_qvec_failure_refuses : forall sys comps o qs i v qd k,
  resolve_all o comps = Ok qs ->
  nth_error qs i = Some (v, qd) ->
  gate1 (GExpr (QQty v qd))
    (GDim (if is_angle_component sys i then base ANGLE else match o with Some x => x | None => first_dimension qs end)) = Some k ->
  exists k', qvec_ctor sys comps o = Err k'.
Proof. exact qvec_first_failure_refuses. Qed.
Print Assumptions C04_qvec_failure_refuses.

(* positional versus keyword passing: wherever the positional prefix ends and in whatever order the remaining arguments are
   given by keyword, the call is bound to the same values ... *)
Theorem C04_bind_any_style : forall params vals n kw,
  NoDup params -> length vals = length params -> (n <= length params)%nat ->
  Permutation kw (combine (skipn n params) (skipn n vals)) ->
  exists b, bind params (firstn n vals) kw = Some b /\
            forall p, lookup p b = lookup p (combine params vals).
Proof. exact bind_any_style. Qed.
Print Assumptions C04_bind_any_style.

(* ... and therefore gets the same verdict *)
Theorem C04_call_style_irrelevant : forall params guards out vals n kw n' kw' ret,
  NoDup params -> length vals = length params -> (n <= length params)%nat -> (n' <= length params)%nat ->
  Permutation kw (combine (skipn n params) (skipn n vals)) ->
  Permutation kw' (combine (skipn n' params) (skipn n' vals)) ->
  guarded_call params guards out (firstn n vals) kw ret = guarded_call params guards out (firstn n' vals) kw' ret.
Proof. exact guarded_call_style_irrelevant. Qed.
Print Assumptions C04_call_style_irrelevant.
