From VP Require Import Base.Util Base.Dim Base.Val Model.CollectQ Model.Gate.
