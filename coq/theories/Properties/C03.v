(* C03 -- laws load and mean the same for every import order and creation history  (PARTIAL).
   The full statement is kept visible as C03Proofs.C03_full_statement; what is proved is the name/counter part
   (C03_partial and the Ids theorems it rests on).  The rest is explored dynamically by harness/props/c03.py. *)
From Coq Require Import List NArith String Bool.
From VP Require Import Model.Ids Proofs.IdsProofs Proofs.C03Proofs.
Import ListNotations.
Open Scope N_scope.

Definition C03_full_statement := @C03Proofs.C03_full_statement.

Theorem next_id_monotone : forall p s,
  last_or0 p s < fst (next_id p s) /\
  last_or0 p (snd (next_id p s)) = fst (next_id p s) /\
  forall q, q <> p -> lookup q (snd (next_id p s)) = lookup q s.
Proof. exact IdsProofs.next_id_monotone. Qed.
Print Assumptions next_id_monotone.

Theorem ids_increasing : forall p h s, Sorted.StronglySorted N.lt (ids_of p (run_ids h s)).
Proof. exact IdsProofs.ids_increasing. Qed.
Print Assumptions ids_increasing.

Theorem dec_inj : forall a b, dec a = dec b -> a = b.
Proof. exact IdsProofs.dec_inj. Qed.
Print Assumptions dec_inj.

Theorem decode_unique : forall p q n m,
  digit_free p = true -> digit_free q = true -> mk_name p n = mk_name q m -> p = q /\ n = m.
Proof. exact IdsProofs.decode_unique. Qed.
Print Assumptions decode_unique.

Theorem names_fresh : forall h s, prefixes_digit_free h -> NoDup (run h s).
Proof. exact IdsProofs.names_fresh. Qed.
Print Assumptions names_fresh.

Theorem names_fresh_later : forall h1 h2 s x,
  prefixes_digit_free h1 -> prefixes_digit_free h2 ->
  In x (run h1 s) -> In x (run h2 (final h1 s)) -> False.
Proof. exact IdsProofs.names_fresh_later. Qed.
Print Assumptions names_fresh_later.

Theorem repo_prefixes_digit_free : forallb digit_free repo_prefixes = true.
Proof. exact IdsProofs.repo_prefixes_digit_free. Qed.
Print Assumptions repo_prefixes_digit_free.

Theorem window_order : forall p n k i j,
  small_window n k -> 1 <= i <= k -> 1 <= j <= k ->
  str_ltb (wname p n i) (wname p n j) = order_spec (ndig (n + i)) i (ndig (n + j)) j.
Proof. exact IdsProofs.window_order. Qed.
Print Assumptions window_order.

Theorem window_generic : forall p n k i j,
  small_window n k -> 1 <= i <= k -> 1 <= j <= k -> ~ pow_between n 0 k -> 1 <= n ->
  str_ltb (wname p n i) (wname p n j) = (i <? j).
Proof. exact IdsProofs.window_generic. Qed.
Print Assumptions window_generic.

Theorem window_order_classes : forall p n n' k,
  small_window n k -> small_window n' k -> same_pow10_positions n n' k ->
  forall i j, 1 <= i <= k -> 1 <= j <= k ->
    str_ltb (wname p n i) (wname p n j) = str_ltb (wname p n' i) (wname p n' j).
Proof. exact IdsProofs.window_order_classes. Qed.
Print Assumptions window_order_classes.

Theorem window_order_classes_exec : forall p n n' k,
  small_windowb n k = true -> small_windowb n' k = true ->
  pow10_positions n k = pow10_positions n' k -> pattern p n k = pattern p n' k.
Proof. exact IdsProofs.window_order_classes_exec. Qed.
Print Assumptions window_order_classes_exec.

Theorem cross_prefix_order_constant : forall p q,
  In p repo_prefixes -> In q repo_prefixes -> p <> q ->
  forall n m n' m', str_ltb (mk_name p n) (mk_name q m) = str_ltb (mk_name p n') (mk_name q m').
Proof. exact C03Proofs.cross_prefix_order_constant. Qed.
Print Assumptions cross_prefix_order_constant.

Theorem representatives_cover : forall p mmax n k,
  (1 <= mmax)%nat -> 10 * k <= 9 * 10 ^ N.of_nat mmax -> 1 <= n -> small_window n k ->
  exists r, In r (representatives mmax k) /\ same_order (names p r k) (names p n k).
Proof. exact C03Proofs.representatives_cover. Qed.
Print Assumptions representatives_cover.

Theorem C03_partial : forall (Mod Meaning : Type) (import : state -> Mod -> option Meaning)
  (p : string) (k : Mod -> N) (imp : Mod -> list string -> option Meaning) (mmax : nat),
  (forall s m, import s m = imp m (names p (last_or0 p s) (k m))) ->
  (forall m, order_invariant (imp m)) ->
  (1 <= mmax)%nat ->
  forall m v,
    10 * k m <= 9 * 10 ^ N.of_nat mmax ->
    (forall r, In r (representatives mmax (k m)) -> imp m (names p r (k m)) = Some v) ->
    forall s, 1 <= last_or0 p s -> small_window (last_or0 p s) (k m) -> import s m = Some v.
Proof. exact @C03Proofs.C03_partial. Qed.
Print Assumptions C03_partial.

Theorem C03_partial_pairwise : forall (Mod Meaning : Type) (import : state -> Mod -> option Meaning)
  (p : string) (k : Mod -> N) (imp : Mod -> list string -> option Meaning) (mmax : nat),
  (forall s m, import s m = imp m (names p (last_or0 p s) (k m))) ->
  (forall m, order_invariant (imp m)) ->
  (1 <= mmax)%nat ->
  forall m v,
    10 * k m <= 9 * 10 ^ N.of_nat mmax ->
    (forall r, In r (representatives mmax (k m)) -> imp m (names p r (k m)) = Some v) ->
    forall s s', 1 <= last_or0 p s -> small_window (last_or0 p s) (k m) ->
                 1 <= last_or0 p s' -> small_window (last_or0 p s') (k m) ->
      import s m <> None /\ import s m = import s' m.
Proof. exact @C03Proofs.C03_partial_pairwise. Qed.
Print Assumptions C03_partial_pairwise.
