(* C13 -- circulation and flux integrands vs Stokes, Green, Gauss: PARTIAL (pointwise identities proved;
   the analytic step to the integrals is the Definition FormsProofs.C13_full_statement, not proved).
   Only `exact`; the lemmas live in Proofs/FormsProofs.v. *)
From Coq Require Import ZArith Reals List.
From Coquelicot Require Import Coquelicot.
From VP Require Import Model.DiffAlg Model.Ops Model.Forms Proofs.FormsProofs.
Import ListNotations.
Local Open Scope R_scope.

(* the full property, visible and NOT proved: pointwise identities + Green on a rectangle + Gauss on a box *)
Definition C13_full_statement : Prop := FormsProofs.C13_full_statement.
Print C13_full_statement.
Print FormsProofs.green_on_rectangle.
Print FormsProofs.gauss_on_box.

Theorem C13_stokes_pointwise : forall rho m n, (m <= 3)%nat -> (2 <= n <= 3)%nat -> ev rho (TSub (Dvia (Xn n) 0 (line_integrand 1 m n)) (Dvia (Xn n) 1 (line_integrand 0 m n))) = ev rho (stokes_surface_integrand m n).
Proof. exact FormsProofs.stokes_pointwise. Qed.
Print Assumptions C13_stokes_pointwise.

Theorem C13_green_pointwise : forall rho m, (m <= 3)%nat -> ev rho (TSub (Dvia (Xn 2) 0 (flux_curve_integrand 1 m 2)) (Dvia (Xn 2) 1 (flux_curve_integrand 0 m 2))) = ev rho (div_at (Nat.min m 2) 2) * ev rho jac_det.
Proof. exact FormsProofs.green_pointwise. Qed.
Print Assumptions C13_green_pointwise.

Theorem C13_planar_surface_element : forall rho, norm3 (ev3 rho (surf_normal 2)) = Rabs (ev rho jac_det).
Proof. exact FormsProofs.planar_surface_element. Qed.
Print Assumptions C13_planar_surface_element.

Theorem C13_flux_boundary_planar : forall rho m, flux_boundary_integrand rho m 2 = ev rho (div_at m 2) * Rabs (ev rho jac_det).
Proof. exact FormsProofs.flux_boundary_planar. Qed.
Print Assumptions C13_flux_boundary_planar.

Theorem C13_flux_boundary_three_components : forall rho, flux_boundary_integrand rho 3 2 = flux_boundary_integrand rho 2 2 + vk rho 3 0 0 1 * Rabs (ev rho jac_det).
Proof. exact FormsProofs.flux_boundary_three_components. Qed.
Print Assumptions C13_flux_boundary_three_components.

Theorem C13_flux_curve_normalisation : forall f1 f2 tx' ty' : R, 0 < tx' * tx' + ty' * ty' -> (f1 * (ty' / sqrt (ty' * ty' + tx' * tx')) + f2 * (- tx' / sqrt (ty' * ty' + tx' * tx'))) * sqrt (tx' * tx' + ty' * ty') = f1 * ty' - f2 * tx'.
Proof. exact FormsProofs.flux_curve_normalisation. Qed.
Print Assumptions C13_flux_curve_normalisation.

Theorem C13_cross3_antisym : forall rho a b, ev3 rho (cross3 a b) = (let '(x, y, z) := ev3 rho (cross3 b a) in (- x, - y, - z)).
Proof. exact FormsProofs.cross3_antisym. Qed.
Print Assumptions C13_cross3_antisym.

Theorem C13_curve_normal_reverses : forall rho (t : tx3), ev3 rho (cross3 (map3 TNeg t) khat) = (let '(x, y, z) := ev3 rho (cross3 t khat) in (- x, - y, - z)).
Proof. exact FormsProofs.curve_normal_reverses. Qed.
Print Assumptions C13_curve_normal_reverses.

Theorem C13_curve_normal_is_T_cross_k : forall rho i n, ev3 rho (curve_normal i n) = (let '(t1, t2, t3) := ev3 rho (tangent i n) in (t2, - t1, 0)).
Proof. exact FormsProofs.curve_normal_is_T_cross_k. Qed.
Print Assumptions C13_curve_normal_is_T_cross_k.

Theorem C13_reparam_pointwise : forall rho m n, (m <= 3)%nat -> (n <= 3)%nat -> ev rho (reparam_integrand m n) = ev rho (original_integrand_at_phi m n) * ev rho (D 0 phi).
Proof. exact FormsProofs.reparam_pointwise. Qed.
Print Assumptions C13_reparam_pointwise.

Theorem C13_orientation_sign : forall rho m n, (m <= 3)%nat -> (n <= 3)%nat -> ev rho (D 0 phi) = -1 -> ev rho (reparam_integrand m n) = - ev rho (original_integrand_at_phi m n).
Proof. exact FormsProofs.orientation_sign. Qed.
Print Assumptions C13_orientation_sign.

Theorem C13_gauss_pointwise_cart : forall rho, ev rho (volume_integrand Cart) = ev rho (gauss_integrand Cart).
Proof. exact FormsProofs.gauss_pointwise_cart. Qed.
Print Assumptions C13_gauss_pointwise_cart.

Theorem C13_gauss_pointwise_cyl : forall rho, vq rho 0%nat <> 0 -> ev rho (volume_integrand Cyl) = ev rho (gauss_integrand Cyl).
Proof. exact FormsProofs.gauss_pointwise_cyl. Qed.
Print Assumptions C13_gauss_pointwise_cyl.

Theorem C13_gauss_pointwise_sph : forall rho, vq rho 0%nat <> 0 -> sin (vq rho 2%nat) <> 0 -> ev rho (volume_integrand Sph) = ev rho (gauss_integrand Sph).
Proof. exact FormsProofs.gauss_pointwise_sph. Qed.
Print Assumptions C13_gauss_pointwise_sph.

Theorem C13_volume_integrand_code_eq : forall rho, vq rho 0%nat <> 0 -> sin (vq rho 2%nat) <> 0 -> cos (vq rho 2%nat) <> 0 -> ev rho volume_integrand_code = ev rho (volume_integrand Sph).
Proof. exact FormsProofs.volume_integrand_code_eq. Qed.
Print Assumptions C13_volume_integrand_code_eq.

Theorem C13_partial : C13_pointwise.
Proof. exact FormsProofs.C13_partial. Qed.
Print Assumptions C13_partial.

Theorem C13_reparam_integral : forall (g phi' phi0 : R -> R) (a b : R), (forall s, Rmin a b <= s <= Rmax a b -> continuous g (phi0 s)) -> (forall s, Rmin a b <= s <= Rmax a b -> is_derive phi0 s (phi' s) /\ continuous phi' s) -> RInt (fun s => phi' s * g (phi0 s)) a b = RInt g (phi0 a) (phi0 b).
Proof. exact FormsProofs.reparam_integral. Qed.
Print Assumptions C13_reparam_integral.
