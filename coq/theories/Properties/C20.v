(* C20 -- physical constants carry reference values and dimensions.
   Static part: the hand-entered reference table (Model/Consts.v) is self-consistent under the identities of the
   property.  The statements about the catalogue itself (const_dim_NAME, const_value_NAME, ident_NAME) are generated from the
   live source and proved on every run by harness/props/c20.py against the same table. *)
From Coq Require Import Reals List QArith ZArith Bool.
From VP Require Import Base.Dim Model.Consts Proofs.ConstsProofs.
Import ListNotations.
Local Open Scope R_scope.

Theorem c20_refs_dims_wellformed :
  forallb wf_dimb
    [dim_speed_of_light; dim_planck; dim_hbar; dim_elementary_charge; dim_boltzmann_constant; dim_avogadro_constant;
     dim_molar_gas_constant; dim_faraday_constant; dim_stefan_boltzmann_constant; dim_wien_displacement_constant;
     dim_vacuum_permeability; dim_vacuum_permittivity; dim_vacuum_impedance; dim_electron_rest_mass; dim_bohr_radius;
     dim_rydberg_frequency; dim_gravitational_constant; dim_richardson_constant; dim_hydrogen_ionization_energy;
     dim_acceleration_due_to_gravity; dim_standard_conditions_temperature; dim_standard_laboratory_temperature;
     dim_solar_mass; dim_earth_mass; dim_zero_point_luminosity; dim_sun_luminosity; dim_hubble_constant] = true.
Proof. exact refs_dims_wellformed. Qed.
Print Assumptions c20_refs_dims_wellformed.

Theorem c20_refs_dims_consistent :
  deqb (dmul dim_boltzmann_constant dim_avogadro_constant) dim_molar_gas_constant
  && deqb (dmul dim_elementary_charge dim_avogadro_constant) dim_faraday_constant
  && deqb dim_planck dim_hbar
  && deqb (dmul (dmul dim_vacuum_permittivity dim_vacuum_permeability) (dpowz dim_speed_of_light 2)) dzero
  && deqb (dmul dim_vacuum_permeability dim_speed_of_light) dim_vacuum_impedance
  && deqb (ddiv (dpowz dim_boltzmann_constant 4) (dmul (dpowz dim_planck 3) (dpowz dim_speed_of_light 2)))
          dim_stefan_boltzmann_constant
  && deqb (ddiv (dmul dim_planck dim_speed_of_light) dim_boltzmann_constant) dim_wien_displacement_constant
  = true.
Proof. exact refs_dims_consistent. Qed.
Print Assumptions c20_refs_dims_consistent.

Theorem c20_refs_consistent :
  (Rabs (ref_molar_gas_constant / (ref_boltzmann_constant * ref_avogadro_constant) - 1) <= tol_identity) /\
  (Rabs (ref_faraday_constant / (ref_elementary_charge * ref_avogadro_constant) - 1) <= tol_identity) /\
  (Rabs (ref_hbar / (ref_planck / (2 * PI)) - 1) <= tol_identity) /\
  (Rabs (ref_vacuum_permittivity * ref_vacuum_permeability * ref_speed_of_light ^ 2 - 1) <= tol_identity) /\
  (Rabs (ref_vacuum_impedance / (ref_vacuum_permeability * ref_speed_of_light) - 1) <= tol_identity) /\
  (Rabs (ref_stefan_boltzmann_constant / (2 * PI ^ 5 * ref_boltzmann_constant ^ 4 / (15 * ref_planck ^ 3 * ref_speed_of_light ^ 2)) - 1) <= tol_identity) /\
  (Rabs (ref_wien_displacement_constant / (ref_planck * ref_speed_of_light / (wien_x * ref_boltzmann_constant)) - 1) <= tol_identity) /\
  (Rabs (ref_wien_displacement_constant / (ref_planck * ref_speed_of_light / (4.965114 * ref_boltzmann_constant)) - 1) <= 1e-7) /\
  (Rabs (wien_x - 5 * (1 - exp (- wien_x))) <= 1e-12) /\
  (Rabs (ref_richardson_constant / 1.20173e6 - 1) <= 1e-5) /\
  (ref_proton_rest_mass < ref_neutron_rest_mass /\ Rabs (ref_neutron_rest_mass / ref_proton_rest_mass / 1.00137841931 - 1) <= tol_identity /\ Rabs (ref_proton_rest_mass / ref_electron_rest_mass / 1836.15267343 - 1) <= tol_identity) /\
  (Rabs (ref_fine_structure_constant / (ref_elementary_charge ^ 2 / (4 * PI * ref_vacuum_permittivity * ref_hbar * ref_speed_of_light)) - 1) <= 1e-8 /\ Rabs (ref_rydberg_constant / (ref_fine_structure_constant ^ 2 * ref_electron_rest_mass * ref_speed_of_light / (2 * ref_planck)) - 1) <= 1e-8 /\ Rabs (ref_rydberg_frequency / (ref_speed_of_light * ref_rydberg_constant) - 1) <= tol_identity /\ Rabs (ref_bohr_radius / (ref_hbar / (ref_electron_rest_mass * ref_speed_of_light * ref_fine_structure_constant)) - 1) <= 1e-8 /\ Rabs (ref_bohr_magneton / (ref_elementary_charge * ref_hbar / (2 * ref_electron_rest_mass)) - 1) <= 1e-8).
Proof. exact refs_consistent. Qed.
Print Assumptions c20_refs_consistent.
