(* C06 -- symbolic dimension inference.  Statements about Model/CollectE.v (tied to
   symplyphysics/core/dimensions/collect_expression.py by the correspondence check of harness/props/c06.py).
   Only `exact` here. *)
From Coq Require Import List QArith ZArith Bool NArith Permutation.
From VP Require Import Base.Util Base.Dim Base.Val Model.CollectQ Model.CollectE Proofs.DimProofs Proofs.CollectQProofs
  Proofs.CollectEProofs Proofs.CollectQGlobal Proofs.DiagramProofs.
Import ListNotations.

(* sums, min and max: accepted exactly when the terms that are not of any dimension (0, +-oo, nan) have pairwise
   equivalent dimensions; the result is the common dimension (dimensionless when every term is of any dimension) *)
Theorem C06_unique_dim_ok_iff : forall ts d,
  unique_dim_go None ts = Ok d <->
  pairwise_equiv ts /\ d = match first_nonany ts with Some x => x | None => dzero end.
Proof. exact unique_dim_ok_iff. Qed.
Print Assumptions C06_unique_dim_ok_iff.

Theorem C06_unique_dim_refuses_iff : forall ts,
  (exists k, unique_dim_go None ts = Err k) <-> ~ pairwise_equiv ts.
Proof. exact unique_dim_refuses_iff. Qed.
Print Assumptions C06_unique_dim_refuses_iff.

Theorem C06_unique_dim_order_free : forall ts ts', Permutation ts ts' ->
  ((exists d, unique_dim_go None ts = Ok d) <-> (exists d, unique_dim_go None ts' = Ok d)).
Proof. exact unique_dim_order_free. Qed.
Print Assumptions C06_unique_dim_order_free.

Theorem C06_unique_dim_of_terms : forall ts d, unique_dim_go None ts = Ok d ->
  forall t, In t ts -> is_any (fst t) = false -> equivalent_dims d (snd t) = true.
Proof. exact unique_dim_of_terms. Qed.
Print Assumptions C06_unique_dim_of_terms.

Theorem C06_add_dim : forall l cs, classify infer_e l = Ok cs ->
  (forall d, unique_dim cs = Ok d -> infer_e (SAdd l) = Ok (add_val cs d, d)) /\
  (forall k, unique_dim cs = Err k -> infer_e (SAdd l) = Err k).
Proof. exact infer_add_spec. Qed.
Print Assumptions C06_add_dim.

Theorem C06_minmax_dim : forall l cs (ismin : bool), classify infer_e l = Ok cs ->
  (forall d, unique_dim cs = Ok d -> infer_e (if ismin then SMin l else SMax l) = Ok (VSym, d)) /\
  (forall k, unique_dim cs = Err k -> infer_e (if ismin then SMin l else SMax l) = Err k).
Proof. exact infer_minmax_spec. Qed.
Print Assumptions C06_minmax_dim.

Theorem C06_child_error : forall l k, classify infer_e l = Err k ->
  infer_e (SAdd l) = Err k /\ infer_e (SMul l) = Err k /\ infer_e (SMin l) = Err k /\ infer_e (SMax l) = Err k.
Proof. exact infer_child_error. Qed.
Print Assumptions C06_child_error.

(* products multiply *)
Theorem C06_mul_dim : forall l cs, classify infer_e l = Ok cs ->
  infer_e (SMul l) = Ok (mul_of cs) /\
  (is_any (fold_left vmul (map fst (qtys_of cs)) (fold_left vmul (nums_of cs) (VQ 1))) = false ->
   snd (mul_of cs) =
   fold_left dmul (map snd (syms_of cs))
     (fold_left (fun d q => if is_any (fst q) then d else dmul d (snd q)) (qtys_of cs) dzero)).
Proof. exact infer_mul_spec. Qed.
Print Assumptions C06_mul_dim.

(* powers scale; an exponent that is neither of any dimension nor dimensionless is an error *)
Theorem C06_pow_refuses_iff : forall b x xv xd, infer_e x = Ok (xv, xd) ->
  (is_any xv = false -> dimensionless xd = false -> infer_e (SPow b x) = Err E_VALUE) /\
  (is_any xv = true \/ dimensionless xd = true ->
     forall bv bd d, infer_e b = Ok (bv, bd) -> dim_pow_expr bd (exp_value x xv) = Some d ->
     exists v, infer_e (SPow b x) = Ok (v, d)).
Proof. exact infer_pow_spec. Qed.
Print Assumptions C06_pow_refuses_iff.

Theorem C06_pow_rational : forall b x bv bd q, infer_e x = Ok (VQ q, dzero) -> infer_e b = Ok (bv, bd) ->
  exists v d, infer_e (SPow b x) = Ok (v, d) /\ deq d (dpow bd q).
Proof. exact infer_pow_rational. Qed.
Print Assumptions C06_pow_rational.

(* a bare dimensionless quantity in the exponent stands for its value (x**Quantity(2) is an area for a length x) *)
Theorem C06_pow_quantity : forall b bv bd q xd, dimensionless xd = true -> infer_e b = Ok (bv, bd) ->
  exists v d, infer_e (SPow b (SQty (VQ q) xd)) = Ok (v, d) /\ deq d (dpow bd q).
Proof. exact infer_pow_quantity. Qed.
Print Assumptions C06_pow_quantity.

(* a derivative divides by the dimensions of its variables *)
Theorem C06_deriv_dim : forall fd z a n av ad, infer_e a = Ok (av, ad) ->
  infer_e (SDeriv fd z [(a, n)]) = Ok (if z then VQ 0 else VSym, ddiv fd (dpow ad n)).
Proof. exact infer_deriv_single. Qed.
Print Assumptions C06_deriv_dim.

Theorem C06_deriv_dim2 : forall fd z a n av ad a' n' av' ad',
  infer_e a = Ok (av, ad) -> infer_e a' = Ok (av', ad') ->
  infer_e (SDeriv fd z [(a, n); (a', n')]) = Ok (if z then VQ 0 else VSym, ddiv (ddiv fd (dpow ad n)) (dpow ad' n')).
Proof. exact infer_deriv_two. Qed.
Print Assumptions C06_deriv_dim2.

Theorem C06_fun_dim : forall d l,
  Forall (fun a => exists r, infer_e a = Ok r) l -> infer_e (SFun d l) = Ok (VSym, d).
Proof. exact infer_fun_spec. Qed.
Print Assumptions C06_fun_dim.

Theorem C06_leaves : forall v d,
  infer_e (SQty v d) = Ok (VSym, d) /\ infer_e (SDimSym d) = Ok (VSym, d) /\
  infer_e (SNum v) = Ok (v, dzero) /\ infer_e SPlain = Ok (VSym, dzero).
Proof. exact infer_leaves. Qed.
Print Assumptions C06_leaves.

(* Quantity(0, dimension=length) + t was refused before repo commit 2fc5560 *)
Theorem C06_zero_first_accepted :
  infer_e (SAdd [SQty (VQ 0) e_length; SDimSym e_time]) = Ok (VSym, e_time) /\
  infer_e (SAdd [SQty (VQ 0) e_length; SQty (VQ 5) e_time; SDimSym e_time]) = Ok (VSym, e_time) /\
  infer_e (SAdd [SQty (VQ 3) e_length; SDimSym e_time]) = Err E_UNITS /\
  infer_e (SAdd [SNum (VQ 2); SDimSym e_length]) = Err E_UNITS /\
  infer_e (SAdd [SNum (VQ 0); SDimSym e_length]) = Ok (VSym, e_length).
Proof. exact zero_first_accepted. Qed.
Print Assumptions C06_zero_first_accepted.

(* ---- inference agrees with evaluation on quantities ------------------------------------------------
   "whenever it succeeds, replacing the symbols by non-zero quantities of their declared dimensions yields (function
   arguments being dimensionless) a quantity of that same dimension".  Inst e q: q is e with every dimensioned symbol
   replaced by some quantity of its declared dimension (each occurrence its own value); scopeb_full e: non-empty argument
   lists, well-formed leaf dimensions, applied functions dimensionless with dimensionless arguments, literal rational
   exponents, no plain symbols / derivatives (each clause has a counter-example in Proofs/DiagramProofs.v showing that the
   conclusion fails without it); Fin q: every sub-value of the instantiated tree is finite.  The evaluation is never refused,
   and its dimension is the inferred one unless its value is of any dimension; when the inference returns a number, that
   number is the value of the constructed quantity. *)
Theorem C06_infer_then_collect : forall e q rv d,
  scopeb_full e = true -> Inst e q -> Fin q -> infer_e e = Ok (rv, d) ->
  exists v d', collect q = Ok (v, d') /\ v = value q /\ finite_val v = true /\ wf_dim d /\ wf_dim d' /\
               (is_any v = true \/ deq d' d) /\ (rv <> VSym -> val_eqb rv v = true).
Proof. exact infer_then_collect_full_values. Qed.
Print Assumptions C06_infer_then_collect.

(* the same for the Quantity constructor *)
Theorem C06_infer_then_quantity : forall e q rv d,
  scopeb e = true -> Inst e q -> Fin q -> infer_e e = Ok (rv, d) ->
  exists v d', quantity_ctor q None = Ok (v, d') /\ (is_any v = true \/ equivalent_dims d' d = true).
Proof. exact infer_then_quantity. Qed.
Print Assumptions C06_infer_then_quantity.
