(* Physical dimensions as exponent vectors over
     0 length, 1 mass, 2 time, 3 current, 4 temperature, 5 amount, 6 luminous intensity, 7 angle,
     8 the pseudo-base "any_dimension" (symplyphysics' AnyDimension is Dimension("any_dimension"), which
       dimsys_SI treats as one more independent base; the AnyDimension *instance* is exactly the vector e8)
   with rational exponents.  This mirrors what
   sympy.physics.units.systems.si.dimsys_SI.get_dimensional_dependencies returns (a dict base -> exponent);
   `angle` is an independent base there, and symplyphysics erases it with `.subs("angle", 1)`. *)
From Coq Require Import List QArith Bool Lia.
Import ListNotations.

Definition dim := list Q.

Definition NB : nat := 9.
Definition ANGLE : nat := 7.
Definition ANYD : nat := 8.

Definition dzero : dim := repeat 0%Q NB.

Fixpoint map2 {A B C} (f : A -> B -> C) (a : list A) (b : list B) : list C :=
  match a, b with
  | x :: a', y :: b' => f x y :: map2 f a' b'
  | _, _ => []
  end.

Definition dmul (a b : dim) : dim := map2 Qplus a b.
Definition dinv (a : dim) : dim := map Qopp a.
Definition ddiv (a b : dim) : dim := dmul a (dinv b).
Definition dpow (a : dim) (q : Q) : dim := map (fun x => Qmult x q) a.

Fixpoint set_nth {A} (n : nat) (v : A) (l : list A) : list A :=
  match l, n with
  | [], _ => []
  | _ :: r, O => v :: r
  | x :: r, S n' => x :: set_nth n' v r
  end.

Definition erase_angle (d : dim) : dim := set_nth ANGLE 0%Q d.

Fixpoint deqb (a b : dim) : bool :=
  match a, b with
  | [], [] => true
  | x :: a', y :: b' => Qeq_bool x y && deqb a' b'
  | _, _ => false
  end.

Definition deq (a b : dim) : Prop := Forall2 Qeq a b.

Definition dimensionless (d : dim) : bool := forallb (fun x => Qeq_bool x 0) d.

(* equivalence as the library decides it: dependencies equal (angle is NOT erased by
   dimsys_SI.equivalent_dims itself; callers erase it where they want to) *)
Definition equivalent_dims (a b : dim) : bool := deqb a b.

Definition wf_dim (d : dim) : Prop := length d = NB.
Definition wf_dimb (d : dim) : bool := Nat.eqb (length d) NB.

Definition base (i : nat) : dim := set_nth i 1%Q dzero.

Definition any_dimension : dim := base ANYD.
Definition is_anydim_instance (d : dim) : bool := deqb d any_dimension.
