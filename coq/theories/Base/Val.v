(* Scale-factor values as SymPy represents them, to the precision the dimension logic observes.
   VQ q     exact rational (Integer, Rational, and Float with its exact dyadic value; the harness only
            generates floats whose arithmetic is exact)
   VFloat0  the literal Float(0.0): SymPy 1.14 has Float(0.0) != Integer(0); is_any_dimension accepts it through
            its `factor == 0.0` clause (repo commit cf7a4df); any arithmetic normalises it to an exact zero
   VOther   any other number (irrational, complex): is_number, never any-dimension
   VSym     not a number (free symbols) *)
From Coq Require Import List QArith ZArith Bool Qround Qpower Qabs.
Import ListNotations.

Inductive val := VQ (q : Q) | VFloat0 | VPInf | VNInf | VNaN | VZoo | VOther | VSym.

Definition qzero (q : Q) : bool := Qeq_bool q 0.

(* symplyphysics.core.dimensions.miscellaneous.is_any_dimension *)
Definition is_any (v : val) : bool :=
  match v with
  | VQ q => qzero q
  | VFloat0 | VPInf | VNInf | VNaN => true
  | _ => false
  end.

(* symplyphysics.core.dimensions.miscellaneous.is_number: complex(value) succeeds *)
Definition is_number (v : val) : bool :=
  match v with VSym => false | _ => true end.

(* complex(scale) in Quantity.__init__ (complex(zoo) = nan+nanj succeeds in SymPy 1.14) *)
Definition complex_ok (v : val) : bool :=
  match v with VSym => false | _ => true end.

Definition qsign (q : Q) : comparison := Qcompare q 0.

Definition vneg (v : val) : val :=
  match v with
  | VQ q => VQ (Qred (Qopp q)) | VPInf => VNInf | VNInf => VPInf | x => x
  end.

Definition vmul (a b : val) : val :=
  match a, b with
  | VSym, _ | _, VSym => VSym
  | VNaN, _ | _, VNaN => VNaN
  | VFloat0, VQ _ | VQ _, VFloat0 | VFloat0, VFloat0 | VFloat0, VOther | VOther, VFloat0 => VQ 0
  | VFloat0, _ | _, VFloat0 => VNaN
  | VQ x, VQ y => VQ (Qred (x * y))
  | VQ x, VOther | VOther, VQ x => if qzero x then VQ 0 else VOther
  | VQ x, VPInf | VPInf, VQ x => match qsign x with Eq => VNaN | Gt => VPInf | Lt => VNInf end
  | VQ x, VNInf | VNInf, VQ x => match qsign x with Eq => VNaN | Gt => VNInf | Lt => VPInf end
  | VQ x, VZoo | VZoo, VQ x => if qzero x then VNaN else VZoo
  | VPInf, VPInf | VNInf, VNInf => VPInf
  | VPInf, VNInf | VNInf, VPInf => VNInf
  | VZoo, _ | _, VZoo => VZoo
  | VOther, _ | _, VOther => VOther
  end.

Definition vadd (a b : val) : val :=
  match a, b with
  | VSym, _ | _, VSym => VSym
  | VNaN, _ | _, VNaN => VNaN
  | VFloat0, VFloat0 => VQ 0
  | VFloat0, x | x, VFloat0 => x
  | VQ x, VQ y => VQ (Qred (x + y))
  | VPInf, VNInf | VNInf, VPInf => VNaN
  | VZoo, VPInf | VPInf, VZoo | VZoo, VNInf | VNInf, VZoo | VZoo, VZoo => VNaN
  | VPInf, _ | _, VPInf => VPInf
  | VNInf, _ | _, VNInf => VNInf
  | VZoo, _ | _, VZoo => VZoo
  | VOther, _ | _, VOther => VOther
  end.

Definition vabs (a : val) : val :=
  match a with
  | VQ q => VQ (Qred (Qabs q))
  | VFloat0 => VFloat0
  | VPInf | VNInf | VZoo => VPInf
  | x => x
  end.

Definition is_int (q : Q) : bool := Qeq_bool q (inject_Z (Qfloor q)).

(* exact square root of a non-negative rational when it exists *)
Definition qsqrt_exact (q : Q) : option Q :=
  let q := Qred q in
  let n := Qnum q in let d := Zpos (Qden q) in
  if (n <? 0)%Z then None else
  let sn := Z.sqrt n in let sd := Z.sqrt d in
  if ((sn * sn =? n) && (sd * sd =? d))%Z then Some (Qred (Qmake sn (Z.to_pos sd))) else None.

(* b ** e on scale factors.  Outside the exact fragment the answer is VOther (a number SymPy keeps
   symbolic); exotic infinite cases that the harness never generates are mapped to VNaN. *)
Definition vpow (b e : val) : val :=
  match b, e with
  | VSym, _ | _, VSym => VSym
  | _, VQ y =>
      if qzero y then VQ 1 else
      match b with
      | VQ x =>
          if Qeq_bool x 1 then VQ 1 else
          if is_int y then
            if qzero x && (Qnum y <? 0)%Z then VZoo else VQ (Qred (Qpower x (Qfloor y)))
          else if Qeq_bool (y * 2) (inject_Z (Qfloor (y * 2))) then
            match qsqrt_exact x with
            | Some r => if qzero r && (Qnum y <? 0)%Z then VZoo else VQ (Qred (Qpower r (Qfloor (y * 2))))
            | None => VOther
            end
          else if qzero x then (if (Qnum y <? 0)%Z then VZoo else VQ 0) else VOther
      | VFloat0 => if (Qnum y <? 0)%Z then VZoo else VQ 0
      | VPInf => if (Qnum y <? 0)%Z then VQ 0 else VPInf
      | VNInf => if (Qnum y <? 0)%Z then VQ 0
                 else if is_int y then (if Z.even (Qfloor y) then VPInf else VNInf) else VOther
      | VNaN => VNaN
      | _ => VOther
      end
  | _, VFloat0 => VQ 1
  | VNaN, _ | _, VNaN => VNaN
  | _, _ => VOther
  end.

(* sympy Min/Max refuse NaN and zoo arguments ("not comparable") *)
Definition comparable (v : val) : bool := match v with VNaN | VZoo | VSym => false | _ => true end.

Definition vmin (a b : val) : val :=
  match a, b with
  | VQ x, VQ y => if Qle_bool x y then VQ x else VQ y
  | VNaN, _ | _, VNaN => VNaN
  | VNInf, _ | _, VNInf => VNInf
  | VPInf, x | x, VPInf => x
  | VSym, _ | _, VSym => VSym
  | _, _ => VOther
  end.

Definition vmax (a b : val) : val :=
  match a, b with
  | VQ x, VQ y => if Qle_bool x y then VQ y else VQ x
  | VNaN, _ | _, VNaN => VNaN
  | VPInf, _ | _, VPInf => VPInf
  | VNInf, x | x, VNInf => x
  | VSym, _ | _, VSym => VSym
  | _, _ => VOther
  end.

(* observation equality used by the correspondence check: exact on rationals and specials *)
Definition val_eqb (a b : val) : bool :=
  match a, b with
  | VQ x, VQ y => Qeq_bool x y
  | VFloat0, VFloat0 | VPInf, VPInf | VNInf, VNInf | VNaN, VNaN | VZoo, VZoo | VOther, VOther | VSym, VSym => true
  | VFloat0, VQ y | VQ y, VFloat0 => qzero y
  | _, _ => false
  end.
