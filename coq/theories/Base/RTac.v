(* Tactic portfolio for generated equalities over R.  Everything is under Ltac `timeout`. *)
From Coq Require Import Reals Lra Lia Psatz Field Nsatz.
Local Open Scope R_scope.

Lemma vp_sqrt_sq (x : R) : 0 <= x -> sqrt x * sqrt x = x.
Proof. exact (sqrt_sqrt x). Qed.

Lemma vp_neq_of_pos (x : R) : 0 < x -> x <> 0.
Proof. intros H; lra. Qed.

Lemma vp_neq_of_neg (x : R) : x < 0 -> x <> 0.
Proof. intros H; lra. Qed.

Lemma vp_sqrt_neq (x : R) : 0 < x -> sqrt x <> 0.
Proof. intros H. apply vp_neq_of_pos, sqrt_lt_R0, H. Qed.

Lemma vp_exp_neq (x : R) : exp x <> 0.
Proof. apply vp_neq_of_pos, exp_pos. Qed.

Lemma vp_Rpower_neq (x y : R) : Rpower x y <> 0.
Proof. apply vp_exp_neq. Qed.

(* side conditions produced by field: conjunctions of `t <> 0` *)
Ltac vp_nz1 :=
  first
  [ assumption
  | apply vp_exp_neq
  | apply vp_Rpower_neq
  | apply vp_sqrt_neq; first [assumption | lra | nra]
  | apply vp_neq_of_pos; first [assumption | lra | nra | apply sqrt_lt_R0; first [assumption | lra | nra]]
  | apply vp_neq_of_neg; first [assumption | lra | nra]
  | apply PI_neq0
  | (apply pow_nonzero; vp_nz1)
  | (apply Rmult_integral_contrapositive_currified; vp_nz1)
  | (apply Rinv_neq_0_compat; vp_nz1)
  | lra
  | nra
  | (intro; nra) ].

Ltac vp_side := repeat split; vp_nz1.

(* abstract every `sqrt t` of the goal into a variable s with s*s = t and 0 <= s
   (needs 0 <= t among the hypotheses or provable by lra/nra) *)
Ltac vp_abs_sqrt :=
  repeat match goal with
  | |- context [sqrt ?t] =>
      let s := fresh "s" in let Hs := fresh "Hs" in let Hp := fresh "Hp" in
      assert (Hs : sqrt t * sqrt t = t) by (apply vp_sqrt_sq; first [assumption | lra | nra | apply Rlt_le; assumption]);
      assert (Hp : 0 <= sqrt t) by apply sqrt_pos;
      set (s := sqrt t) in *; clearbody s
  end.

Ltac vp_req_core :=
  first
  [ solve [ timeout 20 ring ]
  | solve [ timeout 30 (field; vp_side) ]
  | solve [ timeout 30 (field_simplify_eq; [ ring | vp_side ]) ]
  | solve [ timeout 30 (field_simplify_eq; [ nra | vp_side ]) ]
  | solve [ timeout 30 lra ]
  | solve [ timeout 30 nra ] ].

Ltac vp_unlet := repeat match goal with x := _ |- _ => subst x end.

Ltac vp_req :=
  intros; vp_unlet;
  first
  [ vp_req_core
  | solve [ vp_abs_sqrt; first [ vp_req_core | timeout 30 nsatz | timeout 30 (field_simplify_eq; [ nsatz | vp_side ]) ] ] ].
