(* Shared executable helpers.  No proofs of properties here. *)
From Coq Require Import List NArith ZArith QArith Bool String.
Import ListNotations.

Fixpoint vp_failing_from {A} (f : A -> bool) (i : N) (l : list A) : list N :=
  match l with
  | [] => []
  | x :: r => if f x then vp_failing_from f (N.succ i) r else i :: vp_failing_from f (N.succ i) r
  end.

(* indices of the cases on which the check is false *)
Definition vp_failing {A} (f : A -> bool) (l : list A) : list N := vp_failing_from f 0%N l.

Lemma vp_failing_from_nil {A} (f : A -> bool) l i :
  vp_failing_from f i l = [] -> forallb f l = true.
Proof.
  revert i; induction l as [|x r IH]; intros i; cbn; [reflexivity|].
  destruct (f x); [apply IH | discriminate].
Qed.

Inductive result (A : Type) : Type :=
| Ok (a : A)
| Err (e : N).
Arguments Ok {A} a.
Arguments Err {A} e.

(* error classes shared by models: the observation the harness canonicalises exceptions to *)
Definition E_TYPE : N := 1.    (* TypeError *)
Definition E_UNITS : N := 2.   (* symplyphysics.core.errors.UnitsError *)
Definition E_VALUE : N := 3.   (* ValueError that is not UnitsError *)
Definition E_OTHER : N := 4.
Definition E_ASSERT : N := 5.  (* AssertionError *)

Definition N_eqb_opt (a b : option N) : bool :=
  match a, b with
  | None, None => true
  | Some x, Some y => N.eqb x y
  | _, _ => false
  end.
