(* Two-argument arctangent over R, defined from the standard library's [atan] by quadrant.
   Argument order is that of sympy.atan2 / C: [atan2 y x] is the angle of the point (x, y).
   sympy.atan2(0, 0) is nan; here [atan2 0 0 = 0] and every lemma that depends on the value
   carries the hypothesis (x, y) <> (0, 0). *)
From Coq Require Import Reals Lra Psatz.
Local Open Scope R_scope.

Definition atan2 (y x : R) : R :=
  if Rlt_dec 0 x then atan (y / x)
  else if Rlt_dec x 0 then
         (if Rle_dec 0 y then atan (y / x) + PI else atan (y / x) - PI)
       else if Rlt_dec 0 y then PI / 2
       else if Rlt_dec y 0 then - (PI / 2)
       else 0.

(* ---- unfolding lemmas, one per branch ------------------------------------------------------ *)

Lemma atan2_xpos y x : 0 < x -> atan2 y x = atan (y / x).
Proof. intros H. unfold atan2. destruct (Rlt_dec 0 x); [reflexivity | lra]. Qed.

Lemma atan2_xneg_ynonneg y x : x < 0 -> 0 <= y -> atan2 y x = atan (y / x) + PI.
Proof.
  intros Hx Hy. unfold atan2.
  destruct (Rlt_dec 0 x); [lra|]. destruct (Rlt_dec x 0); [|lra].
  destruct (Rle_dec 0 y); [reflexivity | lra].
Qed.

Lemma atan2_xneg_yneg y x : x < 0 -> y < 0 -> atan2 y x = atan (y / x) - PI.
Proof.
  intros Hx Hy. unfold atan2.
  destruct (Rlt_dec 0 x); [lra|]. destruct (Rlt_dec x 0); [|lra].
  destruct (Rle_dec 0 y); [lra | reflexivity].
Qed.

Lemma atan2_x0_ypos y : 0 < y -> atan2 y 0 = PI / 2.
Proof.
  intros Hy. unfold atan2.
  destruct (Rlt_dec 0 0); [lra|]. destruct (Rlt_dec 0 y); [reflexivity | lra].
Qed.

Lemma atan2_x0_yneg y : y < 0 -> atan2 y 0 = - (PI / 2).
Proof.
  intros Hy. unfold atan2.
  destruct (Rlt_dec 0 0); [lra|]. destruct (Rlt_dec 0 y); [lra|].
  destruct (Rlt_dec y 0); [reflexivity | lra].
Qed.

Lemma atan2_0_0 : atan2 0 0 = 0.
Proof.
  unfold atan2. destruct (Rlt_dec 0 0); [lra | reflexivity].
Qed.

(* ---- the hypotenuse ------------------------------------------------------------------------ *)

Lemma pair_neq_00 (x y : R) : (x, y) <> (0, 0) <-> 0 < x * x + y * y.
Proof.
  split.
  - intros H.
    destruct (Req_dec x 0) as [Hx | Hx]; destruct (Req_dec y 0) as [Hy | Hy].
    + subst. exfalso. apply H. reflexivity.
    + nra.
    + nra.
    + nra.
  - intros H E. inversion E. subst. lra.
Qed.

Lemma hyp_pos (x y : R) : (x, y) <> (0, 0) -> 0 < sqrt (x * x + y * y).
Proof. intros H. apply sqrt_lt_R0. apply pair_neq_00. exact H. Qed.

Lemma hyp_factor_pos (x y : R) : 0 < x -> sqrt (x * x + y * y) = x * sqrt (1 + (y / x)²).
Proof.
  intros Hx.
  replace (x * x + y * y) with ((x * x) * (1 + (y / x)²)) by (unfold Rsqr; field; lra).
  rewrite sqrt_mult_alt by nra.
  rewrite sqrt_square by lra. reflexivity.
Qed.

Lemma hyp_factor_neg (x y : R) : x < 0 -> sqrt (x * x + y * y) = - x * sqrt (1 + (y / x)²).
Proof.
  intros Hx.
  replace (x * x + y * y) with ((- x * - x) * (1 + (y / x)²)) by (unfold Rsqr; field; lra).
  rewrite sqrt_mult_alt by nra.
  rewrite sqrt_square by lra. reflexivity.
Qed.

Lemma sqrt_1_sq_pos (t : R) : 0 < sqrt (1 + t²).
Proof. apply sqrt_lt_R0. unfold Rsqr. nra. Qed.

(* ---- cos / sin of atan2 -------------------------------------------------------------------- *)

Lemma atan2_cos (y x : R) : (x, y) <> (0, 0) -> cos (atan2 y x) = x / sqrt (x * x + y * y).
Proof.
  intros H.
  destruct (Rtotal_order 0 x) as [Hx | [Hx | Hx]].
  - rewrite atan2_xpos by exact Hx. rewrite cos_atan, (hyp_factor_pos x y Hx).
    pose proof (sqrt_1_sq_pos (y / x)). field. split; lra.
  - subst x. apply pair_neq_00 in H.
    assert (Hy : y <> 0) by (intro; subst; lra).
    unfold Rdiv at 1. rewrite Rmult_0_l.
    destruct (Rtotal_order 0 y) as [Hy' | [Hy' | Hy']].
    + rewrite atan2_x0_ypos by exact Hy'. apply cos_PI2.
    + congruence.
    + rewrite atan2_x0_yneg by exact Hy'. rewrite cos_neg. apply cos_PI2.
  - pose proof (sqrt_1_sq_pos (y / x)).
    destruct (Rle_dec 0 y) as [Hy | Hy].
    + rewrite atan2_xneg_ynonneg by (exact Hx || exact Hy).
      rewrite neg_cos, cos_atan, (hyp_factor_neg x y Hx). field. split; lra.
    + rewrite atan2_xneg_yneg by lra.
      replace (atan (y / x) - PI) with (- (PI - atan (y / x))) by ring.
      rewrite cos_neg. rewrite Rtrigo_facts.cos_pi_minus.
      rewrite cos_atan, (hyp_factor_neg x y Hx). field. split; lra.
Qed.

Lemma atan2_sin (y x : R) : (x, y) <> (0, 0) -> sin (atan2 y x) = y / sqrt (x * x + y * y).
Proof.
  intros H.
  destruct (Rtotal_order 0 x) as [Hx | [Hx | Hx]].
  - rewrite atan2_xpos by exact Hx. rewrite sin_atan, (hyp_factor_pos x y Hx).
    pose proof (sqrt_1_sq_pos (y / x)). field. split; lra.
  - subst x. apply pair_neq_00 in H.
    assert (Hy : y <> 0) by (intro; subst; lra).
    replace (0 * 0 + y * y) with (y * y) by ring.
    destruct (Rtotal_order 0 y) as [Hy' | [Hy' | Hy']].
    + rewrite atan2_x0_ypos by exact Hy'. rewrite sqrt_square by lra. rewrite sin_PI2. field. lra.
    + congruence.
    + rewrite atan2_x0_yneg by exact Hy'. rewrite sin_neg, sin_PI2.
      replace (y * y) with (- y * - y) by ring. rewrite sqrt_square by lra. field. lra.
  - pose proof (sqrt_1_sq_pos (y / x)).
    destruct (Rle_dec 0 y) as [Hy | Hy].
    + rewrite atan2_xneg_ynonneg by (exact Hx || exact Hy).
      rewrite neg_sin, sin_atan, (hyp_factor_neg x y Hx). field. split; lra.
    + rewrite atan2_xneg_yneg by lra.
      replace (atan (y / x) - PI) with (- (PI - atan (y / x))) by ring.
      rewrite sin_neg. rewrite Rtrigo_facts.sin_pi_minus.
      rewrite sin_atan, (hyp_factor_neg x y Hx). field. split; lra.
Qed.

(* ---- range --------------------------------------------------------------------------------- *)

Lemma atan2_range (y x : R) : - PI < atan2 y x <= PI.
Proof.
  pose proof PI_RGT_0 as Hpi.
  destruct (Rtotal_order 0 x) as [Hx | [Hx | Hx]].
  - rewrite atan2_xpos by exact Hx. pose proof (atan_bound (y / x)). lra.
  - subst x. destruct (Rtotal_order 0 y) as [Hy | [Hy | Hy]].
    + rewrite atan2_x0_ypos by exact Hy. lra.
    + subst y. rewrite atan2_0_0. lra.
    + rewrite atan2_x0_yneg by exact Hy. lra.
  - destruct (Rle_dec 0 y) as [Hy | Hy].
    + rewrite atan2_xneg_ynonneg by (exact Hx || exact Hy).
      pose proof (atan_bound (y / x)).
      assert (y / x <= 0).
      { unfold Rdiv. assert (/ x < 0) by (apply Rinv_lt_0_compat; exact Hx). nra. }
      assert (atan (y / x) <= 0).
      { destruct (Req_dec (y / x) 0) as [E | E].
        - rewrite E, atan_0. lra.
        - left. rewrite <- atan_0. apply atan_increasing. lra. }
      lra.
    + rewrite atan2_xneg_yneg by lra.
      pose proof (atan_bound (y / x)).
      assert (0 < y / x).
      { unfold Rdiv. assert (/ x < 0) by (apply Rinv_lt_0_compat; exact Hx). nra. }
      assert (0 < atan (y / x)).
      { rewrite <- atan_0. apply atan_increasing. lra. }
      lra.
Qed.

(* [0, PI] for a non-negative ordinate (the polar angle  atan2 (sqrt (x²+y²)) z) *)
Lemma atan2_ynonneg_range (y x : R) : 0 <= y -> 0 <= atan2 y x <= PI.
Proof.
  intros Hy. pose proof PI_RGT_0 as Hpi.
  destruct (Rtotal_order 0 x) as [Hx | [Hx | Hx]].
  - rewrite atan2_xpos by exact Hx. pose proof (atan_bound (y / x)).
    assert (0 <= y / x).
    { unfold Rdiv. assert (0 < / x) by (apply Rinv_0_lt_compat; exact Hx). nra. }
    assert (0 <= atan (y / x)).
    { destruct (Req_dec (y / x) 0) as [E | E].
      - rewrite E, atan_0. lra.
      - left. rewrite <- atan_0. apply atan_increasing. lra. }
    lra.
  - subst x. destruct (Req_dec y 0) as [E | E].
    + subst y. rewrite atan2_0_0. lra.
    + rewrite atan2_x0_ypos by lra. lra.
  - pose proof (atan2_range y x) as Hr.
    rewrite atan2_xneg_ynonneg in * by (exact Hx || exact Hy).
    pose proof (atan_bound (y / x)). lra.
Qed.

(* ---- an angle in (-PI, PI] is determined by its cosine and sine ------------------------------ *)

Lemma angle_unique (a b : R) :
  - PI < a <= PI -> - PI < b <= PI -> cos a = cos b -> sin a = sin b -> a = b.
Proof.
  intros Ha Hb Hc Hs. pose proof PI_RGT_0 as Hpi.
  assert (Hs0 : sin (a - b) = 0) by (rewrite sin_minus, Hc, Hs; ring).
  assert (Hc1 : cos (a - b) = 1).
  { rewrite cos_minus, Hc, Hs. pose proof (sin2_cos2 b) as E. unfold Rsqr in E. lra. }
  destruct (Rtotal_order (a - b) 0) as [Hlt | [Heq | Hgt]].
  - (* -2PI < a-b < 0 *)
    destruct (Rtotal_order (a - b) (- PI)) as [H1 | [H1 | H1]].
    + (* a - b + 2PI in (0, PI): sin > 0 *)
      assert (0 < sin (a - b + 2 * PI)) by (apply sin_gt_0; lra).
      rewrite sin_plus, sin_2PI, cos_2PI in *. lra.
    + rewrite H1, cos_neg, cos_PI in Hc1. lra.
    + assert (sin (a - b) < 0) by (apply sin_lt_0_var; lra). lra.
  - lra.
  - destruct (Rtotal_order (a - b) PI) as [H1 | [H1 | H1]].
    + assert (0 < sin (a - b)) by (apply sin_gt_0; lra). lra.
    + rewrite H1, cos_PI in Hc1. lra.
    + assert (sin (a - b) < 0) by (apply sin_lt_0; lra). lra.
Qed.

(* ---- atan2 inverts the polar parametrisation ------------------------------------------------- *)

Lemma polar_hyp (r t : R) : 0 <= r -> sqrt ((r * cos t) * (r * cos t) + (r * sin t) * (r * sin t)) = r.
Proof.
  intros Hr.
  replace ((r * cos t) * (r * cos t) + (r * sin t) * (r * sin t)) with (r * r).
  - apply sqrt_square. exact Hr.
  - pose proof (sin2_cos2 t) as E. unfold Rsqr in E. nra.
Qed.

Lemma polar_neq_00 (r t : R) : 0 < r -> (r * cos t, r * sin t) <> (0, 0).
Proof.
  intros Hr. apply pair_neq_00.
  pose proof (sin2_cos2 t) as E. unfold Rsqr in E. nra.
Qed.

Lemma atan2_polar_cos (r t : R) : 0 < r -> cos (atan2 (r * sin t) (r * cos t)) = cos t.
Proof.
  intros Hr. rewrite atan2_cos by (apply polar_neq_00; exact Hr).
  rewrite polar_hyp by lra. field. lra.
Qed.

Lemma atan2_polar_sin (r t : R) : 0 < r -> sin (atan2 (r * sin t) (r * cos t)) = sin t.
Proof.
  intros Hr. rewrite atan2_sin by (apply polar_neq_00; exact Hr).
  rewrite polar_hyp by lra. field. lra.
Qed.

Theorem atan2_polar (r t : R) : 0 < r -> - PI < t <= PI -> atan2 (r * sin t) (r * cos t) = t.
Proof.
  intros Hr Ht. apply angle_unique.
  - apply atan2_range.
  - exact Ht.
  - apply atan2_polar_cos. exact Hr.
  - apply atan2_polar_sin. exact Hr.
Qed.

(* positive homogeneity *)
Lemma atan2_scale (k y x : R) : 0 < k -> (x, y) <> (0, 0) -> atan2 (k * y) (k * x) = atan2 y x.
Proof.
  intros Hk H. pose proof (hyp_pos x y H) as Hh.
  assert (Hk' : (k * x, k * y) <> (0, 0)).
  { apply pair_neq_00. apply pair_neq_00 in H.
    replace (k * x * (k * x) + k * y * (k * y)) with ((k * k) * (x * x + y * y)) by ring.
    apply Rmult_lt_0_compat; nra. }
  assert (Hs : sqrt (k * x * (k * x) + k * y * (k * y)) = k * sqrt (x * x + y * y)).
  { replace (k * x * (k * x) + k * y * (k * y)) with ((k * k) * (x * x + y * y)) by ring.
    rewrite sqrt_mult_alt by nra. rewrite sqrt_square by lra. reflexivity. }
  apply angle_unique; try apply atan2_range.
  - rewrite !atan2_cos by assumption. rewrite Hs. field. split; lra.
  - rewrite !atan2_sin by assumption. rewrite Hs. field. split; lra.
Qed.

(* strictly inside (0, PI) for a positive ordinate *)
Lemma atan2_ypos_range (y x : R) : 0 < y -> 0 < atan2 y x < PI.
Proof.
  intros Hy.
  assert (H : (x, y) <> (0, 0)) by (apply pair_neq_00; nra).
  pose proof (atan2_ynonneg_range y x (Rlt_le _ _ Hy)) as [H0 H1].
  pose proof (atan2_sin y x H) as Hs. pose proof (hyp_pos x y H) as Hh.
  assert (Hpos : 0 < sin (atan2 y x)) by (rewrite Hs; apply Rdiv_lt_0_compat; assumption).
  split.
  - destruct H0 as [H0 | H0]; [exact H0 |]. rewrite <- H0, sin_0 in Hpos. lra.
  - destruct H1 as [H1 | H1]; [exact H1 |]. rewrite H1, sin_PI in Hpos. lra.
Qed.

(* ---- values on the eight principal directions (the branch structure agrees with sympy.atan2 / C atan2) -------- *)

Lemma atan2_east : atan2 0 1 = 0.
Proof. rewrite atan2_xpos by lra. replace (0 / 1) with 0 by field. apply atan_0. Qed.

Lemma atan2_north_east : atan2 1 1 = PI / 4.
Proof. rewrite atan2_xpos by lra. replace (1 / 1) with 1 by field. apply atan_1. Qed.

Lemma atan2_north : atan2 1 0 = PI / 2.
Proof. apply atan2_x0_ypos. lra. Qed.

Lemma atan2_north_west : atan2 1 (-1) = 3 * PI / 4.
Proof.
  rewrite atan2_xneg_ynonneg by lra. replace (1 / -1) with (Ropp 1) by field.
  rewrite atan_opp, atan_1. field.
Qed.

Lemma atan2_west : atan2 0 (-1) = PI.
Proof.
  rewrite atan2_xneg_ynonneg by lra. replace (0 / -1) with 0 by field. rewrite atan_0. ring.
Qed.

Lemma atan2_south_west : atan2 (-1) (-1) = - (3 * PI / 4).
Proof.
  rewrite atan2_xneg_yneg by lra. replace (-1 / -1) with 1 by field. rewrite atan_1. field.
Qed.

Lemma atan2_south : atan2 (-1) 0 = - (PI / 2).
Proof. apply atan2_x0_yneg. lra. Qed.

Lemma atan2_south_east : atan2 (-1) 1 = - (PI / 4).
Proof.
  rewrite atan2_xpos by lra. replace (-1 / 1) with (Ropp 1) by field. rewrite atan_opp, atan_1. reflexivity.
Qed.
