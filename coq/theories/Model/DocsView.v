(* Executable model of the directive substitution of the documentation generator (C19).

   symplyphysics/docs/parse.py : _find_law_directives                         -> [find_directives]
   symplyphysics/docs/view.py  : _members_to_doc.process_member_docstring      -> [process_docstring]

   Text is a list of characters; positions are Python string indices.  The rendered replacement blocks are
   parameters: for ":laws:symbol::" the block is  :code:`<code>`<newline>, for ":laws:latex::" it is
   Latex:<newline>    .. math::<newline><indented latex><newline>.   No proofs here. *)
From Coq Require Import List Bool Arith String Ascii ZArith.
Import ListNotations.

Definition text : Type := list ascii.

Definition txt (s : string) : text := list_ascii_of_string s.

Definition SYM : text := txt ":laws:symbol::".
Definition LTX : text := txt ":laws:latex::".

Fixpoint text_eqb (a b : text) : bool :=
  match a, b with
  | [], [] => true
  | x :: r, y :: s => Ascii.eqb x y && text_eqb r s
  | _, _ => false
  end.

Fixpoint prefixb (p s : text) : bool :=
  match p, s with
  | [], _ => true
  | _ :: _, [] => false
  | a :: p', b :: s' => Ascii.eqb a b && prefixb p' s'
  end.

(* str.find(p): index of the first occurrence, None for -1 *)
Fixpoint find_sub (p s : text) : option nat :=
  if prefixb p s then Some 0
  else match s with
       | [] => None
       | _ :: r => option_map S (find_sub p r)
       end.

Inductive dkind : Type := KSymbol | KLatex.

Record directive : Type := mkDir { dstart : nat; dend : nat; dtype : dkind }.

(* symbol first, then latex -- the order in which _find_law_directives appends *)
Definition find_directives (doc : text) : list directive :=
  (match find_sub SYM doc with Some p => [mkDir p (p + List.length SYM) KSymbol] | None => [] end)
  ++ (match find_sub LTX doc with Some p => [mkDir p (p + List.length LTX) KLatex] | None => [] end).

(* sorted(directives, key=start): stable insertion sort *)
Fixpoint insert_dir (d : directive) (l : list directive) : list directive :=
  match l with
  | [] => [d]
  | x :: r => if Nat.leb (dstart x) (dstart d) then x :: insert_dir d r else d :: x :: r
  end.

Definition sort_dirs (l : list directive) : list directive := fold_left (fun acc d => insert_dir d acc) l [].

(* Python slice bounds: negative counts from the end, then clamp *)
Definition norm_idx (i : Z) (n : nat) : nat :=
  if (i <? 0)%Z then Z.to_nat (Z.max 0 (i + Z.of_nat n)) else Z.to_nat i.

Definition slice_to (i : Z) (l : text) : text := firstn (norm_idx i (List.length l)) l.       (* l[:i] *)
Definition slice_from (i : Z) (l : text) : text := skipn (norm_idx i (List.length l)) l.      (* l[i:] *)

(* one iteration of the loop over the sorted directives *)
Definition subst_step (render : dkind -> text) (st : text * Z) (d : directive) : text * Z :=
  let '(doc, offset) := st in
  let doc_length := List.length doc in
  let before := slice_to (Z.of_nat (dstart d) + offset)%Z doc in
  let after := slice_from (Z.of_nat (dend d) + offset)%Z doc in
  let doc' := before ++ render (dtype d) ++ after in
  (doc', (offset + (Z.of_nat (List.length doc') - Z.of_nat doc_length))%Z).

Definition substitute (render : dkind -> text) (doc : text) (ds : list directive) : text :=
  fst (fold_left (subst_step render) (sort_dirs ds) (doc, 0%Z)).

Definition process_docstring (render : dkind -> text) (doc : text) : text :=
  substitute render doc (find_directives doc).

(* the templates of view.py around the printed code / the already indented latex *)
Definition nl : ascii := ascii_of_nat 10.

Definition render_symbol (code : text) : text := txt ":code:`" ++ code ++ txt "`" ++ [nl].

Definition render_latex (ii_latex : text) : text :=
  txt "Latex:" ++ [nl] ++ txt "    .. math::" ++ [nl] ++ ii_latex ++ [nl].

Definition render_with (code ii_latex : text) (k : dkind) : text :=
  match k with KSymbol => render_symbol code | KLatex => render_latex ii_latex end.

(* observation for the correspondence check *)
Definition dir_obs (d : directive) : nat * nat * bool :=
  (dstart d, dend d, match dtype d with KSymbol => true | KLatex => false end).

(* ------------------------------------------------------------------------------------------- *)
(* The file-writing step of the generator (symplyphysics/docs/build.py: _process_law /            *)
(* _process_law_package; docs/build.py: process_generated_files).  The sequence of file           *)
(* operations is TRANSLATED from the source by the check; a file is its text and a position.      *)
(* ------------------------------------------------------------------------------------------- *)

Inductive fop : Type :=
| FOpenW          (* open(path, "w" / "w+"): truncate to empty (creates the file) *)
| FOpenRPlus      (* open(path, "r+"): keep the content, position 0; the file must exist *)
| FOpenA          (* open(path, "a" / "a+"): keep the content, writes go to the end (creates the file) *)
| FRead           (* file.read(): position moves to the end *)
| FStopIfEqual    (* if file.read() == new_text: return *)
| FSeek0          (* file.seek(0) *)
| FTruncate       (* file.truncate(): cut at the CURRENT position *)
| FTruncate0      (* file.truncate(0) *)
| FWrite.         (* file.write(new_text): overwrite from the current position, extending the file *)

Definition fstate : Type := (text * nat)%type.

Definition write_at (pos : nat) (new old : text) : text :=
  firstn pos old ++ new ++ skipn (pos + List.length new) old.

(* None = the step raises (FileNotFoundError) *)
Fixpoint run_fops (new : text) (ops : list fop) (exists_ : bool) (st : fstate) : option text :=
  match ops with
  | [] => Some (fst st)
  | o :: r =>
      let '(c, pos) := st in
      match o with
      | FOpenW => run_fops new r true ([], 0)
      | FOpenRPlus => if exists_ then run_fops new r true (c, 0) else None
      | FOpenA => run_fops new r true (c, List.length c)
      | FRead => run_fops new r exists_ (c, List.length c)
      | FStopIfEqual => if text_eqb c new then Some c else run_fops new r exists_ (c, List.length c)
      | FSeek0 => run_fops new r exists_ (c, 0)
      | FTruncate => run_fops new r exists_ (firstn pos c, pos)
      | FTruncate0 => run_fops new r exists_ ([], pos)
      | FWrite => run_fops new r exists_ (write_at pos new c, pos + List.length new)
      end
  end.

(* what the helper does when the page does not exist yet / exists already *)
Record writer : Type := mkWriter { if_missing : list fop; if_exists : list fop }.

Definition file_write (w : writer) (old : option text) (new : text) : option text :=
  match old with
  | None => run_fops new (if_missing w) false ([], 0)
  | Some c => run_fops new (if_exists w) true (c, 0)
  end.

(* the output directory: page name -> text *)
Definition directory : Type := list (string * text).

Fixpoint dir_get (p : string) (d : directory) : option text :=
  match d with
  | [] => None
  | (q, t) :: r => if String.eqb p q then Some t else dir_get p r
  end.

Fixpoint dir_set (p : string) (t : text) (d : directory) : directory :=
  match d with
  | [] => [(p, t)]
  | (q, u) :: r => if String.eqb p q then (p, t) :: r else (q, u) :: dir_set p t r
  end.

Definition gen_step (w : writer) (d : directory) (page : string * text) : directory :=
  match file_write w (dir_get (fst page) d) (snd page) with
  | Some c => dir_set (fst page) c d
  | None => d
  end.

Definition generate (w : writer) (pages : list (string * text)) (d0 : directory) : directory :=
  fold_left (gen_step w) pages d0.

(* operation sequences for which "afterwards the file holds exactly the new text" is proved *)
Definition fop_eqb (a b : fop) : bool :=
  match a, b with
  | FOpenW, FOpenW | FOpenRPlus, FOpenRPlus | FOpenA, FOpenA | FRead, FRead | FStopIfEqual, FStopIfEqual
  | FSeek0, FSeek0 | FTruncate, FTruncate | FTruncate0, FTruncate0 | FWrite, FWrite => true
  | _, _ => false
  end.

Fixpoint fops_eqb (a b : list fop) : bool :=
  match a, b with
  | [], [] => true
  | x :: r, y :: s => fop_eqb x y && fops_eqb r s
  | _, _ => false
  end.

Definition exact_when_missing : list (list fop) := [[FOpenW; FWrite]; [FOpenA; FWrite]].

Definition exact_when_exists : list (list fop) :=
  [[FOpenW; FWrite];
   [FOpenRPlus; FRead; FSeek0; FTruncate0; FWrite];       (* the role step of docs/build.py *)
   [FOpenRPlus; FSeek0; FTruncate; FWrite];
   [FOpenRPlus; FStopIfEqual; FSeek0; FTruncate; FWrite];
   [FOpenRPlus; FStopIfEqual; FSeek0; FTruncate0; FWrite]].

Definition known_exact (w : writer) : bool :=
  existsb (fops_eqb (if_missing w)) exact_when_missing && existsb (fops_eqb (if_exists w)) exact_when_exists.
