(* Model of the coordinate-free vector algebra engine of
   symplyphysics/core/experimental/vectors/__init__.py.

   Part A  (generic, executable): into_terms/split_factor view of a vector expression as a list of
           (factor, vector) pairs, and `_ordered_mul` (lines 130-189): Cartesian product of the terms,
           product of the factors, sort_with_sign of the vectors, accumulation under (sign, tuple),
           removal of zero factors.
   Part B  (over R): the route by which VectorDot / VectorCross / VectorMixedProduct / VectorNorm compute
           their result from already evaluated arguments.  Basis vectors are atoms (a key -- the id() of
           the symbol -- and a value) or unevaluated cross nodes of two atoms (with the key of the node).
           The bodies of the rewrite rules are a parameter (`ruleset`); the harness regenerates the
           instance `source_rules` from the source text on every run.
   No proofs here. *)
From Coq Require Import List ZArith Bool Reals.
From VP Require Import Model.Vec3 Model.SortSign.
Import ListNotations.

(* ------------------------------------------------------------------------------------------ Part A *)

Record kops (K : Type) : Type := mk_kops {
  k1 : K;                      (* S.One *)
  kmul : K -> K -> K;          (* SymMul *)
  kadd : K -> K -> K;          (* += *)
  kzero : K;
  kis0 : K -> bool }.          (* factor != 0  is  negb (kis0 factor) *)
Arguments k1 {K}. Arguments kmul {K}. Arguments kadd {K}. Arguments kzero {K}. Arguments kis0 {K}.

Definition lc (K B : Type) : Type := list (K * B).

(* for terms in itertools.product of the into_terms of every argument:  factor = Mul of the factors *)
Fixpoint omul_terms {K B} (o : kops K) (args : list (lc K B)) : list (K * list B) :=
  match args with
  | [] => [(k1 o, [])]
  | a :: rest =>
      flat_map (fun kb => map (fun r => (kmul o (fst kb) (fst r), snd kb :: snd r)) (omul_terms o rest)) a
  end.

Fixpoint list_eqb {B} (eqb : B -> B -> bool) (x y : list B) : bool :=
  match x, y with
  | [], [] => true
  | a :: x', b :: y' => eqb a b && list_eqb eqb x' y'
  | _, _ => false
  end.

Definition oterm (K B : Type) : Type := (Z * list B * K)%type.   (* sign, sorted vectors, factor *)

(* mapping[sign][tuple(sorted_vectors)] += factor *)
Fixpoint acc_add {K B} (o : kops K) (eqb : B -> B -> bool) (s : Z) (t : list B) (k : K)
  (m : list (oterm K B)) : list (oterm K B) :=
  match m with
  | [] => [(s, t, kadd o (kzero o) k)]
  | (s', t', k') :: r =>
      if (s =? s')%Z && list_eqb eqb t t' then (s', t', kadd o k' k) :: r
      else (s', t', k') :: acc_add o eqb s t k r
  end.

Definition sort_term {K B} (key : B -> Z) (kt : K * list B) : oterm K B :=
  let sv := sort_with_sign key (snd kt) in (fst sv, snd sv, fst kt).

Definition ordered_mul_raw {K B} (o : kops K) (key : B -> Z) (args : list (lc K B)) : list (oterm K B) :=
  map (sort_term key) (omul_terms o args).

Definition accumulate {K B} (o : kops K) (eqb : B -> B -> bool) (raw : list (oterm K B)) : list (oterm K B) :=
  fold_left (fun m e => acc_add o eqb (fst (fst e)) (snd (fst e)) (snd e) m) raw [].

Definition ordered_mul {K B} (o : kops K) (eqb : B -> B -> bool) (key : B -> Z) (args : list (lc K B))
  : list (oterm K B) :=
  filter (fun e => negb (kis0 o (snd e))) (accumulate o eqb (ordered_mul_raw o key args)).

(* integer coefficients: the instance the harness runs against the real _ordered_mul *)
Definition zops : kops Z := mk_kops Z 1%Z Z.mul Z.add 0%Z (fun k => (k =? 0)%Z).

(* ------------------------------------------------------------------------------------------ Part B *)
Local Open Scope R_scope.

Definition atomv : Type := (Z * V3)%type.          (* id() of a VectorSymbol, its value *)
Inductive vb : Type :=
| BAtom (a : atomv)
| BCross (k : Z) (a b : atomv).                     (* VectorCross(a, b, evaluate=False), id() = k *)

Definition aval (a : atomv) : V3 := snd a.
Definition vb_val (b : vb) : V3 :=
  match b with BAtom a => aval a | BCross _ a b => cross (aval a) (aval b) end.
Definition vb_key (b : vb) : Z :=
  match b with BAtom a => fst a | BCross k _ _ => k end.

Definition vn : Type := lc R vb.                     (* an evaluated vector expression *)
Definition lc_val (L : vn) : V3 :=
  fold_right (fun kb acc => vadd (vscale (fst kb) (vb_val (snd kb))) acc) vzero L.
Definition lc_scale (k : R) (L : vn) : vn := map (fun kb => (k * fst kb, snd kb)) L.
Definition single (b : vb) : vn := [(1, b)].

(* what the harness reads from the source: the return expressions of the rewrite rules and the arms of
   the expansion loops, as functions of the values matched by the guarding pattern *)
Record ruleset : Type := mk_rules {
  (* VectorCross._eval_vector_dot *)
  r_dot_cc : atomv -> atomv -> atomv -> atomv -> R;       (* lhs = cross(a,b), rhs = cross(c,d) *)
  r_dot_cx : V3 -> atomv -> atomv -> R;                   (* lhs = cross(a,b), rhs not a cross: rhs a b *)
  r_dot_xc : V3 -> atomv -> atomv -> R;                   (* rhs = cross(c,d), lhs not a cross: lhs c d *)
  (* VectorCross._eval_vector_cross *)
  r_cross_cc : atomv -> atomv -> atomv -> atomv -> vn;
  r_cross_cx : V3 -> atomv -> atomv -> vn;
  r_cross_xc : V3 -> atomv -> atomv -> vn;
  (* VectorDot.__new__ loop *)
  z_dot : V3 -> R -> R;                                   (* sign == 0 arm: v, factor *)
  a_dot : R -> R -> R -> R;                               (* dot, factor, sign *)
  (* VectorCross.__new__ loop *)
  z_cross : vn;                                           (* sign == 0 arm *)
  a_cross : vn -> R -> R -> vn;                           (* cross, factor, sign *)
  (* VectorMixedProduct.__new__ loop *)
  z_mixed : R;
  a_mixed : R -> R -> R -> R;                             (* mixed, factor, sign *)
  r_mixed_comp : (vn -> vn -> R) -> (vn -> vn -> vn) -> vb -> vb -> vb -> R;   (* VectorDot(u, VectorCross(v, w)) *)
  (* VectorNorm.__new__ *)
  r_norm_zero : R;                                        (* vector == 0 *)
  r_norm_scale : R -> R -> R                              (* norm of the vector part, factor *)
}.

Definition vb_eqb (x y : vb) : bool :=
  match x, y with
  | BAtom a, BAtom b => (fst a =? fst b)%Z
  | BCross k _ _, BCross k' _ _ => (k =? k')%Z
  | _, _ => false
  end.

Definition is_atom (b : vb) : bool := match b with BAtom _ => true | _ => false end.

Section Engine.
Context (rs : ruleset).
Context (ckey : atomv -> atomv -> Z).        (* id() of the node VectorCross(a, b, evaluate=False) *)
Context (z0 : R -> bool).                    (* factor != 0, as far as SymPy sees it *)
Context (is1 : R -> bool).                   (* the factor of a term is exactly 1 (the term is a bare VectorExpr) *)
Context (split : vn -> option (R * vn)).     (* together() / split_factor on the argument of a norm *)

Definition rops : kops R := mk_kops R 1 Rmult Rplus 0 z0.

(* isinstance(x, VectorExpr) after doit() *)
Definition bare (L : vn) : option vb :=
  match L with
  | [(k, b)] => if is1 k then Some b else None
  | _ => None
  end.

Definition sum_terms (g : Z -> list vb -> R -> R) (terms : list (oterm R vb)) : R :=
  fold_right (fun e acc => g (fst (fst e)) (snd (fst e)) (snd e) + acc) 0 terms.

Definition cat_terms (g : Z -> list vb -> R -> vn) (terms : list (oterm R vb)) : vn :=
  flat_map (fun e => g (fst (fst e)) (snd (fst e)) (snd e)) terms.

(* cls(v, w) for the two sorted vectors of one term *)
Definition dot_pair (v w : vb) : R :=
  match v, w with
  | BCross _ a b, BCross _ c d => r_dot_cc rs a b c d
  | BCross _ a b, BAtom _ => r_dot_cx rs (vb_val w) a b
  | BAtom _, BCross _ c d => r_dot_xc rs (vb_val v) c d
  | BAtom a, BAtom b => dot (aval a) (aval b)              (* cls(v, w, evaluate=False) *)
  end.

Definition eng_dot (L1 L2 : vn) : R :=
  match bare L1, bare L2 with
  | Some (BCross _ a b), Some (BCross _ c d) => r_dot_cc rs a b c d
  | Some (BCross _ a b), _ => r_dot_cx rs (lc_val L2) a b
  | _, Some (BCross _ c d) => r_dot_xc rs (lc_val L1) c d
  | _, _ =>
      sum_terms (fun s t f =>
          match t with
          | [v; w] => if (s =? 0)%Z then z_dot rs (vb_val v) f else a_dot rs (dot_pair v w) f (IZR s)
          | _ => 0
          end)
        (ordered_mul rops vb_eqb vb_key [L1; L2])
  end.

Definition cross_pair (v w : vb) : vn :=
  match v, w with
  | BCross _ a b, BCross _ c d => r_cross_cc rs a b c d
  | BCross _ a b, BAtom _ => r_cross_cx rs (vb_val w) a b
  | BAtom _, BCross _ c d => r_cross_xc rs (vb_val v) c d
  | BAtom a, BAtom b => single (BCross (ckey a b) a b)     (* cls(v, w, evaluate=False) *)
  end.

Definition eng_cross (L1 L2 : vn) : vn :=
  match bare L1, bare L2 with
  | Some (BCross _ a b), Some (BCross _ c d) => r_cross_cc rs a b c d
  | Some (BCross _ a b), _ => r_cross_cx rs (lc_val L2) a b
  | _, Some (BCross _ c d) => r_cross_xc rs (lc_val L1) c d
  | _, _ =>
      cat_terms (fun s t f =>
          match t with
          | [v; w] => if (s =? 0)%Z then z_cross rs else a_cross rs (cross_pair v w) f (IZR s)
          | _ => []
          end)
        (ordered_mul rops vb_eqb vb_key [L1; L2])
  end.

Definition mixed_triple (u v w : vb) : R :=
  match u, v, w with
  | BAtom a, BAtom b, BAtom c => mixed (aval a) (aval b) (aval c)     (* cls( *vectors, evaluate=False) *)
  | _, _, _ => r_mixed_comp rs eng_dot eng_cross u v w
  end.

Definition eng_mixed (L1 L2 L3 : vn) : R :=
  sum_terms (fun s t f =>
      match t with
      | [u; v; w] => if (s =? 0)%Z then z_mixed rs else a_mixed rs (mixed_triple u v w) f (IZR s)
      | _ => 0
      end)
    (ordered_mul rops vb_eqb vb_key [L1; L2; L3]).

Definition eng_norm (L : vn) : R :=
  match L with
  | [] => r_norm_zero rs
  | _ => match split L with
         | Some (k, L') => r_norm_scale rs (norm (lc_val L')) k
         | None => norm (lc_val L)                          (* cls(vector, evaluate=False) *)
         end
  end.

End Engine.

(* ------------------------------------------------------------------------------------------ trees *)

Inductive vexpr : Type :=
| VZero
| VSym (a : atomv)
| VAdd (x y : vexpr)
| VScale (k : sexpr) (x : vexpr)
| VCrossE (x y : vexpr)
with sexpr : Type :=
| SConst (r : R)                         (* a number or a scalar symbol: any real *)
| SAdd (p q : sexpr)
| SMul (p q : sexpr)
| SDotE (x y : vexpr)
| SMixedE (x y z : vexpr)
| SNormE (x : vexpr).

Fixpoint eval_v (e : vexpr) : V3 :=
  match e with
  | VZero => vzero
  | VSym a => aval a
  | VAdd x y => vadd (eval_v x) (eval_v y)
  | VScale k x => vscale (eval_s k) (eval_v x)
  | VCrossE x y => cross (eval_v x) (eval_v y)
  end
with eval_s (e : sexpr) : R :=
  match e with
  | SConst r => r
  | SAdd p q => eval_s p + eval_s q
  | SMul p q => eval_s p * eval_s q
  | SDotE x y => dot (eval_v x) (eval_v y)
  | SMixedE x y z => mixed (eval_v x) (eval_v y) (eval_v z)
  | SNormE x => norm (eval_v x)
  end.

Section Route.
Context (rs : ruleset) (ckey : atomv -> atomv -> Z) (z0 is1 : R -> bool) (split : vn -> option (R * vn)).
Context (regroup : vn -> vn).                (* SymPy's Add / Mul / expand canonicalisation of a vector expression *)

(* the value the real constructors compute, following their own route *)
Fixpoint route_v (e : vexpr) : vn :=
  match e with
  | VZero => []
  | VSym a => single (BAtom a)
  | VAdd x y => regroup (route_v x ++ route_v y)
  | VScale k x => regroup (lc_scale (route_s k) (route_v x))
  | VCrossE x y => regroup (eng_cross rs ckey z0 is1 (route_v x) (route_v y))
  end
with route_s (e : sexpr) : R :=
  match e with
  | SConst r => r
  | SAdd p q => route_s p + route_s q
  | SMul p q => route_s p * route_s q
  | SDotE x y => eng_dot rs z0 is1 (route_v x) (route_v y)
  | SMixedE x y z => eng_mixed rs ckey z0 is1 (route_v x) (route_v y) (route_v z)
  | SNormE x => eng_norm rs split (route_v x)
  end.
End Route.

