(* Executable model of the approximate-equality oracle
     symplyphysics/core/approx.py : approx_equal_numbers, approx_equal_quantities, assert_equal, assert_equal_vectors
   including the part of pytest.approx (ApproxScalar.__eq__ / .tolerance, pytest 9.x) that the code reaches.
   No proofs here (Proofs/ApproxProofs.v).

   The algorithm is written ONCE, over an abstract arithmetic `numops`; it is instantiated
     - with exact extended rationals (QO): the theorems of C08 are about this instance;
     - with binary64 (FO, Coq's primitive floats = IEEE 754 round-to-nearest-even, like CPython's float):
       this instance is compared bit-exactly with the implementation on every generated case.
   Quantity construction and the dimension check are not re-modelled: CollectQ.quantity_ctor and Gate.gate1. *)
From Coq Require Import List QArith ZArith Bool NArith Qabs Floats Uint63.
From VP Require Import Base.Util Base.Dim Base.Val Model.CollectQ Model.Gate.
Import ListNotations.

Record numops := {
  num : Type;
  n_mul : num -> num -> num;
  n_sub : num -> num -> num;
  n_abs : num -> num;
  n_eqb : num -> num -> bool;      (* Python ==  *)
  n_ltb : num -> num -> bool;      (* Python <   *)
  n_leb : num -> num -> bool;      (* Python <=  *)
  n_isnan : num -> bool;           (* math.isnan *)
  n_isinf : num -> bool;           (* math.isinf *)
  n_zero : num;
  n_pinf : num;
  n_ninf : num;
  n_nan : num;
  n_ofQ : Q -> num                 (* float(x) for an exactly representable rational x *)
}.

Section Oracle.
  Context (O : numops).
  Local Notation num := (num O).

  (* ---- approx_equal_numbers(lhs, rhs, relative_tolerance=None, absolute_tolerance=None) -------------
       if lhs in (inf, -inf) or rhs in (inf, -inf): return lhs == rhs      (an infinite number equals only itself)
       if relative_tolerance is None: relative_tolerance = APPROX_RELATIVE_TOLERANCE          (dflt)
       if absolute_tolerance is None: absolute_tolerance = abs(lhs * relative_tolerance)
       return lhs == approx(rhs, rel=relative_tolerance, abs=absolute_tolerance)
     ApproxScalar.__eq__(actual = lhs), expected = rhs:
       actual == expected                      -> True      (before any tolerance is looked at)
       isnan(abs(expected))                    -> False     (nan_ok is False)
       isinf(abs(expected))                    -> False
       abs(expected - actual) <= tolerance     where tolerance (both rel and abs are given) is
         abs < 0 -> ValueError;  isnan(abs) -> ValueError;
         rt = rel * abs(expected);  rt < 0 -> ValueError;  isnan(rt) -> ValueError;  max(rt, abs)        *)
  Definition approx_numbers (dflt : num) (l r : num) (rel abs : option num) : result bool :=
    if n_isinf O l || n_isinf O r then Ok (n_eqb O l r) else
    let rel := match rel with Some x => x | None => dflt end in
    let abs := match abs with Some a => a | None => n_abs O (n_mul O l rel) end in
    if n_eqb O l r then Ok true
    else if n_isnan O (n_abs O r) then Ok false
    else if n_isinf O (n_abs O r) then Ok false
    else if n_ltb O abs (n_zero O) then Err E_VALUE
    else if n_isnan O abs then Err E_VALUE
    else
      let rt := n_mul O rel (n_abs O r) in
      if n_ltb O rt (n_zero O) then Err E_VALUE
      else if n_isnan O rt then Err E_VALUE
      else
        let tol := if n_ltb O rt abs then abs else rt in       (* Python max(rt, abs) *)
        Ok (n_leb O (n_abs O (n_sub O r l)) tol).

  (* ---- quantities as the oracle sees them ------------------------------------------------------
     aq_val : class of the registered scale factor (all the dimension gate looks at)
     aq_re, aq_im : float(re(scale_factor)), float(im(scale_factor))
     aq_dim : registered dimension *)
  Record aq := { aq_val : val; aq_re : num; aq_im : num; aq_dim : dim }.

  (* an operand: a symplyphysics Quantity, or anything else (number, unit expression), from which
     Quantity(expr[, dimension=...]) is constructed first *)
  Inductive operand := OQ (q : aq) | OE (e : qexpr).

  (* float(re(s)), float(im(s)) of a collected real scale factor; complex / irrational scale factors only occur on
     Quantity objects, whose parts the harness reads off (OQ) *)
  Definition parts_of_val (v : val) : option (num * num) :=
    match v with
    | VQ q => Some (n_ofQ O q, n_zero O)
    | VFloat0 => Some (n_zero O, n_zero O)
    | VPInf => Some (n_pinf O, n_zero O)         (* im(oo) = 0 *)
    | VNInf => Some (n_ninf O, n_zero O)
    | VNaN => Some (n_nan O, n_nan O)            (* re(nan) = im(nan) = nan *)
    | _ => None
    end.

  Definition E_UNMODELLED : N := 9.

  Definition build (x : operand) (override : option dim) : result aq :=
    match x with
    | OQ q => Ok q
    | OE e =>
        match quantity_ctor e override with
        | Err k => Err k
        | Ok (v, d) =>
            match parts_of_val v with
            | Some (re, im) => Ok {| aq_val := v; aq_re := re; aq_im := im; aq_dim := d |}
            | None => Err E_UNMODELLED
            end
        end
    end.

  (* the dimension assertion of approx_equal_quantities:
       assert_equivalent_dimension(lhs, lhs.dimension.name, "approx_equal_quantities", rhs)
     `rhs` is a Quantity (not a Dimension): it is collected, and a zero / infinite / NaN rhs matches everything *)
  Definition dim_gate (l r : aq) : verdict :=
    gate1 (GExpr (QQty (aq_val l) (aq_dim l))) (GExpr (QQty (aq_val r) (aq_dim r))).

  (* approx_equal_quantities, after rhs has been made a Quantity *)
  Definition approx_quantities_core (dflt : num) (l r : aq) (rel abs : option num) : result bool :=
    match dim_gate l r with
    | Some k => Err k
    | None =>
        match approx_numbers dflt (aq_im l) (aq_im r) rel abs with
        | Err k => Err k
        | Ok false => Ok false                                   (* `im_condition and ...` short-circuits *)
        | Ok true => approx_numbers dflt (aq_re l) (aq_re r) rel abs
        end
    end.

  Definition approx_quantities (dflt : num) (l : aq) (r : operand) (rel abs : option num) (dimension : option dim)
    : result bool :=
    match build r dimension with
    | Err k => Err k
    | Ok rq => approx_quantities_core dflt l rq rel abs
    end.

  (* assert_equal: rhs is built first (with the supplied dimension), then lhs (never overridden) *)
  Definition assert_equal (dflt : num) (l r : operand) (rel abs : option num) (dimension : option dim) : verdict :=
    match build r dimension with
    | Err k => Some k
    | Ok rq =>
        match build l None with
        | Err k => Some k
        | Ok lq =>
            match approx_quantities_core dflt lq rq rel abs with
            | Err k => Some k
            | Ok true => None
            | Ok false => Some E_ASSERT
            end
        end
    end.

  (* assert_equal_vectors: zip(lhs.components, rhs.components, strict=True); the first failing pair wins, a length
     mismatch is a ValueError raised when the shorter side is exhausted *)
  Fixpoint assert_equal_vectors (dflt : num) (ls rs : list aq) (rel abs : option num) (dimension : option dim) : verdict :=
    match ls, rs with
    | [], [] => None
    | l :: ls', r :: rs' =>
        match assert_equal dflt (OQ l) (OQ r) rel abs dimension with
        | Some k => Some k
        | None => assert_equal_vectors dflt ls' rs' rel abs dimension
        end
    | _, _ => Some E_VALUE
    end.
End Oracle.

Arguments OQ {O} q.
Arguments OE {O} e.
Arguments Build_aq {O}.
Arguments aq_val {O}.
Arguments aq_re {O}.
Arguments aq_im {O}.
Arguments aq_dim {O}.

(* ---- instance 1: exact extended rationals ---------------------------------------------------------- *)
Inductive xq := XQ (q : Q) | XPInf | XNInf | XNaN.

Definition xsign (q : Q) : comparison := Qcompare q 0.

Definition xmul (a b : xq) : xq :=
  match a, b with
  | XNaN, _ | _, XNaN => XNaN
  | XQ x, XQ y => XQ (x * y)
  | XQ x, XPInf | XPInf, XQ x => match xsign x with Eq => XNaN | Gt => XPInf | Lt => XNInf end
  | XQ x, XNInf | XNInf, XQ x => match xsign x with Eq => XNaN | Gt => XNInf | Lt => XPInf end
  | XPInf, XPInf | XNInf, XNInf => XPInf
  | XPInf, XNInf | XNInf, XPInf => XNInf
  end.

Definition xsub (a b : xq) : xq :=
  match a, b with
  | XNaN, _ | _, XNaN => XNaN
  | XQ x, XQ y => XQ (x - y)
  | XPInf, XPInf | XNInf, XNInf => XNaN
  | XPInf, _ | _, XNInf => XPInf
  | XNInf, _ | _, XPInf => XNInf
  end.

Definition xabs (a : xq) : xq :=
  match a with XQ x => XQ (Qabs x) | XPInf | XNInf => XPInf | XNaN => XNaN end.

Definition xeqb (a b : xq) : bool :=
  match a, b with
  | XQ x, XQ y => Qeq_bool x y
  | XPInf, XPInf | XNInf, XNInf => true
  | _, _ => false
  end.

Definition xltb (a b : xq) : bool :=
  match a, b with
  | XNaN, _ | _, XNaN => false
  | XQ x, XQ y => negb (Qle_bool y x)
  | XNInf, XNInf | XPInf, XPInf => false
  | XNInf, _ | _, XPInf => true
  | _, _ => false
  end.

Definition xleb (a b : xq) : bool :=
  match a, b with
  | XNaN, _ | _, XNaN => false
  | XQ x, XQ y => Qle_bool x y
  | XNInf, _ | _, XPInf => true
  | _, _ => false
  end.

Definition xisnan (a : xq) : bool := match a with XNaN => true | _ => false end.
Definition xisinf (a : xq) : bool := match a with XPInf | XNInf => true | _ => false end.

Definition QO : numops :=
  {| num := xq; n_mul := xmul; n_sub := xsub; n_abs := xabs; n_eqb := xeqb; n_ltb := xltb; n_leb := xleb;
     n_isnan := xisnan; n_isinf := xisinf; n_zero := XQ 0; n_pinf := XPInf; n_ninf := XNInf; n_nan := XNaN;
     n_ofQ := XQ |}.

(* ---- instance 2: binary64 ----------------------------------------------------------------------------- *)
(* exact conversion of a dyadic rational with |numerator| < 2^63 (the harness only passes representable values;
   anything else is flagged by f_ofQ_exact) *)
Definition f_ofQ (q : Q) : float :=
  let q := Qred q in
  let n := Qnum q in
  let k := Z.log2 (Zpos (Qden q)) in
  let m := PrimFloat.of_uint63 (Uint63.of_Z (Z.abs n)) in
  let f := Z.ldexp m (- k) in
  if (n <? 0)%Z then PrimFloat.opp f else f.

Definition FO : numops :=
  {| num := float; n_mul := PrimFloat.mul; n_sub := PrimFloat.sub; n_abs := PrimFloat.abs;
     n_eqb := PrimFloat.eqb; n_ltb := PrimFloat.ltb; n_leb := PrimFloat.leb;
     n_isnan := PrimFloat.is_nan; n_isinf := PrimFloat.is_infinity;
     n_zero := PrimFloat.zero; n_pinf := PrimFloat.infinity; n_ninf := PrimFloat.neg_infinity; n_nan := PrimFloat.nan;
     n_ofQ := f_ofQ |}.

(* the exact value a binary64 denotes *)
Definition xq_of_float (f : float) : xq :=
  match Prim2SF f with
  | S754_zero _ => XQ 0
  | S754_infinity false => XPInf
  | S754_infinity true => XNInf
  | S754_nan => XNaN
  | S754_finite s m e =>
      let v := (inject_Z (Zpos m) * Qpower (2 # 1) e)%Q in
      XQ (Qred (if s then Qopp v else v))
  end.

Definition xq_of_opt (o : option float) : option xq :=
  match o with Some f => Some (xq_of_float f) | None => None end.

Definition aq_to_q (a : aq FO) : aq QO :=
  @Build_aq QO (aq_val a) (xq_of_float (aq_re a)) (xq_of_float (aq_im a)) (aq_dim a).

Definition operand_to_q (x : operand FO) : operand QO :=
  match x with OQ q => OQ (aq_to_q q) | OE e => OE e end.

(* ---- observation comparison ---------------------------------------------------------------------------- *)
Definition rbool_eqb (a b : result bool) : bool :=
  match a, b with
  | Ok x, Ok y => Bool.eqb x y
  | Err x, Err y => N.eqb x y
  | _, _ => false
  end.

(* the scale factor class and the float parts of a Quantity literal must be coherent (sanity of the serialiser) *)
Definition aq_coherent (a : aq FO) : bool :=
  match aq_val a with
  | VQ q => PrimFloat.eqb (aq_re a) (f_ofQ q) && PrimFloat.eqb (aq_im a) PrimFloat.zero
  | VFloat0 => PrimFloat.eqb (aq_re a) PrimFloat.zero && PrimFloat.eqb (aq_im a) PrimFloat.zero
  | VPInf => PrimFloat.eqb (aq_re a) PrimFloat.infinity
  | VNInf => PrimFloat.eqb (aq_re a) PrimFloat.neg_infinity
  | VNaN => PrimFloat.is_nan (aq_re a)
  | VOther => true
  | _ => false
  end.

(* APPROX_RELATIVE_TOLERANCE is the binary64 nearest to 1/1000 (same certificate as Convert.nearest_b64) *)
Definition pow2q (k : Z) : Q := Qpower (2 # 1) k.
Definition default_rel_ok (x : Q) (m e : Z) : bool :=
  Qeq_bool x (inject_Z m * pow2q e) &&
  (Z.leb (2 ^ 52) m && Z.ltb m (2 ^ 53)) &&
  Qle_bool (Qabs ((1 # 1000) - x)) (pow2q (e - 1)).
