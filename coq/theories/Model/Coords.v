(* C11 -- model of symplyphysics.core.{coordinate_systems, vectors (rebase), vectors.arithmetics (dot, magnitude,
   scale), fields.scalar_field (rebase, __call__)} over the reals.  Hand-written from the mathematics; the generated
   lemmas `corr_*` (harness/props/c11.py) state that what the code returns on generic components is exactly these
   formulas.  No proofs in this file.

   Naming follows the code: cylindrical (r, theta, z);  spherical (r, theta, phi) with theta the AZIMUTH and phi the
   POLAR angle (coordinate_systems.py: "theta - azimuthal angle, phi - polar angle"). *)
From Coq Require Import Reals List Bool.
From VP Require Import Base.Atan2.
Import ListNotations.
Local Open Scope R_scope.

Definition V3 : Type := (R * R * R)%type.

Inductive sys : Type := Cart | Cyl | Sph.

Definition sys_eqb (a b : sys) : bool :=
  match a, b with
  | Cart, Cart | Cyl, Cyl | Sph, Sph => true
  | _, _ => false
  end.

(* ---- CoordinateSystem.transformation_to_system ------------------------------------------------------------- *)

Definition cart_to_cyl (p : V3) : V3 :=
  let '(x, y, z) := p in (sqrt (x * x + y * y), atan2 y x, z).

Definition cart_to_sph (p : V3) : V3 :=
  let '(x, y, z) := p in
  (sqrt (x * x + y * y + z * z), atan2 y x, acos (z / sqrt (x * x + y * y + z * z))).

Definition cyl_to_cart (p : V3) : V3 :=
  let '(r, t, z) := p in (r * cos t, r * sin t, z).

Definition sph_to_cart (p : V3) : V3 :=
  let '(r, t, f) := p in (r * cos t * sin f, r * sin t * sin f, r * cos f).

(* None = the code raises ValueError("Transformation is not supported ...") *)
Definition transformation (a b : sys) : option (V3 -> V3) :=
  match a, b with
  | Cart, Cart | Cyl, Cyl | Sph, Sph => Some (fun p => p)
  | Cart, Cyl => Some cart_to_cyl
  | Cart, Sph => Some cart_to_sph
  | Cyl, Cart => Some cyl_to_cart
  | Sph, Cart => Some sph_to_cart
  | Cyl, Sph | Sph, Cyl => None
  end.

Definition transformation_supported (a b : sys) : bool :=
  match transformation a b with Some _ => true | None => false end.

(* the Cartesian position a coordinate triple denotes (the meaning of the coordinates) *)
Definition to_cart (s : sys) (p : V3) : V3 :=
  match s with Cart => p | Cyl => cyl_to_cart p | Sph => sph_to_cart p end.

(* ---- Vector.rebase ------------------------------------------------------------------------------------------- *)

(* missing components are read as 0 (vectors.py: `0 if i >= len(self.components)`) *)
Definition pad (l : list R) : V3 := (nth 0 l 0, nth 1 l 0, nth 2 l 0).

Definition rebase (a b : sys) (l : list R) : option V3 :=
  match transformation a b with Some T => Some (T (pad l)) | None => None end.

(* ---- arithmetics.dot_vectors / vector_magnitude / scale_vector ------------------------------------------------- *)

Definition dot (s : sys) (u v : V3) : R :=
  let '(a1, a2, a3) := u in
  let '(b1, b2, b3) := v in
  match s with
  | Cart => a1 * b1 + a2 * b2 + a3 * b3
  | Cyl => a1 * b1 * cos (a2 - b2) + a3 * b3
  | Sph => a1 * b1 * (sin a3 * sin b3 * cos (a2 - b2) + cos a3 * cos b3)
  end.

Definition magnitude (s : sys) (u : V3) : R := sqrt (dot s u u).

Definition scale (s : sys) (k : R) (u : V3) : V3 :=
  let '(a1, a2, a3) := u in
  match s with
  | Cart => (k * a1, k * a2, k * a3)
  | Cyl => (a1 * k, a2, a3 * k)
  | Sph => (a1 * k, a2, a3)
  end.

Definition smul (k : R) (u : V3) : V3 := let '(a1, a2, a3) := u in (k * a1, k * a2, k * a3).

(* ---- ScalarField ------------------------------------------------------------------------------------------------ *)

Definition field : Type := R -> R -> R -> R.

Definition apply_field (f : field) (p : V3) : R := let '(a, b, c) := p in f a b c.

(* ScalarField.rebase: a field written in system a, wanted in system b, is composed with the table of b towards a
   (scalar_field.py: "This is a reverse transformation") *)
Definition field_rebase (a b : sys) (f : field) : option field :=
  match transformation b a with
  | Some T => Some (fun q1 q2 q3 => apply_field f (T (q1, q2, q3)))
  | None => None
  end.

(* ScalarField.__call__: kinds of point objects and the outcome *)
Inductive pkind : Type := PGeneric | PTyped (s : sys).
Inductive outcome : Type := Applied | Constant | Refused.

Definition outcome_eqb (a b : outcome) : bool :=
  match a, b with
  | Applied, Applied | Constant, Constant | Refused, Refused => true
  | _, _ => false
  end.

Definition field_call (callable : bool) (pk : pkind) (fs : sys) : outcome :=
  if negb callable then Constant
  else match pk with
       | PGeneric => Applied
       | PTyped s => if sys_eqb s fs then Applied else Refused
       end.

(* ---- the part of each system on which coordinates are determined by the point ------------------------------------ *)

Definition in_domain (s : sys) (p : V3) : Prop :=
  let '(a1, a2, a3) := p in
  match s with
  | Cart => True
  | Cyl => 0 < a1 /\ - PI < a2 <= PI
  | Sph => 0 < a1 /\ - PI < a2 <= PI /\ 0 < a3 < PI
  end.

(* Cartesian points off the z axis (where the azimuth is defined) *)
Definition off_axis (p : V3) : Prop := let '(x, y, _) := p in (x, y) <> (0, 0).

(* ---- frames related by a rotation (coordinates_rotate) ---------------------------------------------------------- *)

Inductive axis : Type := AX | AY | AZ.

(* components in the PARENT frame of the vector whose components in the frame rotated by the angle al about the
   parent's axis ax are p (sympy: parent.orient_new_axis(name, al, axis)) *)
Definition to_parent (ax : axis) (al : R) (p : V3) : V3 :=
  let '(x, y, z) := p in
  match ax with
  | AZ => (x * cos al - y * sin al, x * sin al + y * cos al, z)
  | AX => (x, y * cos al - z * sin al, y * sin al + z * cos al)
  | AY => (x * cos al + z * sin al, y, - x * sin al + z * cos al)
  end.

Definition from_parent (ax : axis) (al : R) (p : V3) : V3 := to_parent ax (- al) p.

(* a curvilinear triple given in the child of the rotated frame, re-expressed in the parent Cartesian frame *)
Definition curv_rotated_to_parent (s : sys) (ax : axis) (al : R) (p : V3) : V3 := to_parent ax al (to_cart s p).

(* ---- points/*.py: a point is a list of coordinates, absent ones read as 0, setters pad with zeros ----------------- *)

Definition pget {A : Type} (zero : A) (l : list A) (i : nat) : A := nth i l zero.

Fixpoint pset {A : Type} (zero : A) (l : list A) (i : nat) (v : A) : list A :=
  match i, l with
  | O, [] => [v]
  | O, _ :: t => v :: t
  | S i', [] => zero :: pset zero [] i' v
  | S i', h :: t => h :: pset zero t i' v
  end.

(* a sequence of setter calls *)
Definition pset_all {A : Type} (zero : A) (l : list A) (ops : list (nat * A)) : list A :=
  fold_left (fun acc op => pset zero acc (fst op) (snd op)) ops l.
