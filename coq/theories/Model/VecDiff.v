(* Differentiation of coordinate-free vector expressions with respect to a scalar parameter, as the
   _eval_derivative methods of VectorDot / VectorCross / VectorMixedProduct / VectorNorm and SymPy's rules for
   Add and Mul perform it (and as harness/vp/vx.py : diff_recipe restates it): a structural function. *)
From Coq Require Import Reals.
From VP Require Import Model.Vec3.
Local Open Scope R_scope.

Inductive pv : Type :=                       (* vector expressions of the parameter *)
| PSym (v : V3)                              (* a VectorSymbol: does not depend on the parameter *)
| PFun (f : nat -> R -> V3) (n : nat)        (* the n-th derivative of a vector function of the parameter (f 0): f n *)
| PAddV (x y : pv)
| PScaleV (k : ps) (x : pv)
| PCrossV (x y : pv)
with ps : Type :=                            (* scalar expressions of the parameter *)
| PConst (r : R)
| PPar                                       (* the parameter *)
| PAddS (p q : ps)
| PMulS (p q : ps)
| PDivS (p q : ps)
| PDotS (x y : pv)
| PMixedS (x y z : pv)
| PNormS (x : pv).

Fixpoint pval_v (e : pv) (t : R) : V3 :=
  match e with
  | PSym v => v
  | PFun f n => f n t
  | PAddV x y => vadd (pval_v x t) (pval_v y t)
  | PScaleV k x => vscale (pval_s k t) (pval_v x t)
  | PCrossV x y => cross (pval_v x t) (pval_v y t)
  end
with pval_s (e : ps) (t : R) : R :=
  match e with
  | PConst r => r
  | PPar => t
  | PAddS p q => pval_s p t + pval_s q t
  | PMulS p q => pval_s p t * pval_s q t
  | PDivS p q => pval_s p t / pval_s q t
  | PDotS x y => dot (pval_v x t) (pval_v y t)
  | PMixedS x y z => mixed (pval_v x t) (pval_v y t) (pval_v z t)
  | PNormS x => norm (pval_v x t)
  end.

(* terminates by construction: structural recursion *)
Fixpoint Dv (e : pv) : pv :=
  match e with
  | PSym _ => PSym vzero
  | PFun f n => PFun f (S n)                          (* VectorDerivative(f(t), (t, n + 1)): an atom of its own *)
  | PAddV x y => PAddV (Dv x) (Dv y)
  | PScaleV k x => PAddV (PScaleV (Ds k) x) (PScaleV k (Dv x))
  | PCrossV x y => PAddV (PCrossV (Dv x) y) (PCrossV x (Dv y))
  end
with Ds (e : ps) : ps :=
  match e with
  | PConst _ => PConst 0
  | PPar => PConst 1
  | PAddS p q => PAddS (Ds p) (Ds q)
  | PMulS p q => PAddS (PMulS (Ds p) q) (PMulS p (Ds q))
  | PDivS p q => PDivS (PAddS (PMulS (Ds p) q) (PMulS (PConst (-1)) (PMulS p (Ds q)))) (PMulS q q)
  | PDotS x y => PAddS (PDotS (Dv x) y) (PDotS x (Dv y))
  | PMixedS x y z =>                                   (* the derivative of VectorDot(a, VectorCross(b, c)) *)
      PAddS (PDotS (Dv x) (PCrossV y z)) (PDotS x (PAddV (PCrossV (Dv y) z) (PCrossV y (Dv z))))
  | PNormS x => PDivS (PDotS x (Dv x)) (PNormS x)
  end.

(* the atoms are differentiable with the stated derivatives, and nothing is divided by zero, at t *)
Definition dlim3 (F : R -> V3) (t : R) (L : V3) : Prop :=
  derivable_pt_lim (fun u => vx (F u)) t (vx L) /\
  derivable_pt_lim (fun u => vy (F u)) t (vy L) /\
  derivable_pt_lim (fun u => vz (F u)) t (vz L).

Fixpoint wf_v (e : pv) (t : R) : Prop :=
  match e with
  | PSym _ => True
  | PFun f n => dlim3 (f n) t (f (S n) t)
  | PAddV x y => wf_v x t /\ wf_v y t
  | PScaleV k x => wf_s k t /\ wf_v x t
  | PCrossV x y => wf_v x t /\ wf_v y t
  end
with wf_s (e : ps) (t : R) : Prop :=
  match e with
  | PConst _ => True
  | PPar => True
  | PAddS p q => wf_s p t /\ wf_s q t
  | PMulS p q => wf_s p t /\ wf_s q t
  | PDivS p q => wf_s p t /\ wf_s q t /\ pval_s q t <> 0
  | PDotS x y => wf_v x t /\ wf_v y t
  | PMixedS x y z => wf_v x t /\ wf_v y t /\ wf_v z t
  | PNormS x => wf_v x t /\ norm (pval_v x t) <> 0
  end.
