(* Executable model of QuantityVector.__init__ (symplyphysics/core/vectors/vectors.py:113-139):
   every component is dimension-checked on construction; angle components of curvilinear systems are checked against
   the angle dimension. *)
From Coq Require Import List QArith ZArith Bool NArith.
From VP Require Import Base.Util Base.Dim Base.Val Model.CollectQ Model.Gate.
Import ListNotations.

(* coordinate system: 0 Cartesian, 1 cylindrical, 2 spherical *)
Definition is_angle_component (sys idx : nat) : bool :=
  match sys, idx with
  | 1%nat, 1%nat => true
  | 2%nat, 1%nat => true
  | 2%nat, 2%nat => true
  | _, _ => false
  end.

Inductive qcomp :=
| CQ (v : val) (d : dim)     (* already a symplyphysics Quantity: used as it is *)
| CE (e : qexpr).            (* anything else: Quantity(e, dimension=<the dimension argument>) *)

Definition resolve (o : option dim) (c : qcomp) : cres :=
  match c with
  | CQ v d => Ok (v, d)
  | CE e => quantity_ctor e o
  end.

Fixpoint resolve_all (o : option dim) (l : list qcomp) : result (list (val * dim)) :=
  match l with
  | [] => Ok []
  | c :: r => match resolve o c with
              | Err k => Err k
              | Ok q => match resolve_all o r with
                        | Err k => Err k
                        | Ok qs => Ok (q :: qs)
                        end
              end
  end.

(* `q.scale_factor != 0` is structural: Float(0.0) != 0 holds in SymPy 1.14 *)
Definition structurally_nonzero (v : val) : bool :=
  match v with VQ q => negb (qzero q) | _ => true end.

Fixpoint first_dimension (qs : list (val * dim)) : dim :=
  match qs with
  | [] => dzero
  | (v, d) :: r => if structurally_nonzero v then d else first_dimension r
  end.

Fixpoint check_components (sys : nat) (idx : nat) (d : dim) (qs : list (val * dim)) : verdict :=
  match qs with
  | [] => None
  | (v, qd) :: r =>
      let expected := if is_angle_component sys idx then base ANGLE else d in
      match gate1 (GExpr (QQty v qd)) (GDim expected) with
      | Some k => Some k
      | None => check_components sys (S idx) d r
      end
  end.

(* Ok dimension-of-the-vector, or the error class raised by the constructor *)
Definition qvec_ctor (sys : nat) (comps : list qcomp) (o : option dim) : result dim :=
  match resolve_all o comps with
  | Err k => Err k
  | Ok qs =>
      let d := match o with Some x => x | None => first_dimension qs end in
      match check_components sys 0 d qs with
      | Some k => Err k
      | None => Ok d
      end
  end.

Definition rdim_eqb (a b : result dim) : bool :=
  match a, b with
  | Ok x, Ok y => deqb x y
  | Err x, Err y => N.eqb x y
  | _, _ => false
  end.
