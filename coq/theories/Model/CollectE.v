(* Executable model of symplyphysics/core/dimensions/collect_expression.py
   (collect_expression_and_dimension): the inferred dimension, and the class of the returned expression as far as
   the inference itself looks at it (is it literally 0 / +-oo / nan?). *)
From Coq Require Import List QArith ZArith Bool NArith.
From VP Require Import Base.Util Base.Dim Base.Val Model.CollectQ.
Import ListNotations.

Inductive sexpr :=
| SNum (v : val)                         (* a number *)
| SQty (v : val) (d : dim)               (* sympy Quantity: has .dimension (early return), scale v *)
| SDimSym (d : dim)                      (* anything else with a .dimension attribute: Symbol, IndexedSymbol, Symbolic wrappers *)
| SPlain                                 (* a plain SymPy symbol / any leaf without dimension: default branch *)
| SMul (l : list sexpr)
| SPow (b e : sexpr)
| SAdd (l : list sexpr)
| SAbs (e : sexpr)
| SMin (l : list sexpr)
| SMax (l : list sexpr)
| SFun (d : dim) (l : list sexpr)        (* f(args); d = f.dimension if declared, else dimensionless *)
| SDeriv (fd : dim) (vanishes : bool) (vars : list (sexpr * Q)).
                                         (* Derivative(f(..), (x1,n1), ...); fd = dimension of f;
                                            vanishes = SymPy's .diff returns 0 (f does not depend on a variable) *)

Definition eres := result (val * dim).   (* (class of the returned expression: a number, or VSym for anything symbolic; dimension) *)

(* how _split_numeric_and_symbolic classifies an argument *)
Inductive cls := CNum (v : val) | CQty (v : val) (d : dim) | CSymb (r : val * dim).

(* product of the returned expressions: a symbolic factor times zero is zero for SymPy *)
Definition smul (a b : val) : val :=
  match a, b with
  | VQ x, VQ y => VQ (Qred (x * y))
  | VQ x, _ => if qzero x then VQ 0 else VSym
  | _, VQ y => if qzero y then VQ 0 else VSym
  | _, _ => VSym
  end.

Definition sadd (a b : val) : val :=
  match a, b with
  | VQ x, VQ y => VQ (Qred (x + y))
  | _, _ => VSym
  end.

(* nums, qtys, syms in that group order, each as (is-any value, dimension) for _collect_unique_dimension *)
Definition group_entries (cs : list cls) : list (val * dim) :=
  flat_map (fun c => match c with CNum v => [(v, dzero)] | _ => [] end) cs ++
  flat_map (fun c => match c with CQty v d => [(v, d)] | _ => [] end) cs ++
  flat_map (fun c => match c with CSymb r => [r] | _ => [] end) cs.

(* _collect_unique_dimension: the terms that are not of any dimension must be pairwise equivalent; the result is the
   dimension of the first of them in group order, dimensionless when there is none *)
Fixpoint unique_dim_go (d : option dim) (ts : list (val * dim)) : result dim :=
  match ts with
  | [] => Ok (match d with Some x => x | None => dzero end)
  | (v, td) :: r =>
      if is_any v then unique_dim_go d r else
      match d with
      | None => unique_dim_go (Some td) r
      | Some dd => if equivalent_dims dd td then unique_dim_go d r else Err E_UNITS
      end
  end.

Definition unique_dim (cs : list cls) : result dim := unique_dim_go None (group_entries cs).

Definition classify (c : sexpr -> eres) : list sexpr -> result (list cls) :=
  fix go (l : list sexpr) : result (list cls) :=
    match l with
    | [] => Ok []
    | a :: r =>
        let this : result cls :=
          match a with
          | SQty v d => Ok (CQty v d)
          | SNum v => if is_number v then Ok (CNum v) else match c a with Ok x => Ok (CSymb x) | Err k => Err k end
          | _ => match c a with Ok x => Ok (CSymb x) | Err k => Err k end
          end in
        match this with
        | Err k => Err k
        | Ok x => match go r with Err k => Err k | Ok xs => Ok (x :: xs) end
        end
    end.

Definition nums_of (cs : list cls) : list val := flat_map (fun c => match c with CNum v => [v] | _ => [] end) cs.
Definition qtys_of (cs : list cls) : list (val * dim) := flat_map (fun c => match c with CQty v d => [(v, d)] | _ => [] end) cs.
Definition syms_of (cs : list cls) : list (val * dim) := flat_map (fun c => match c with CSymb r => [r] | _ => [] end) cs.

(* _collect_mul *)
Definition mul_of (cs : list cls) : val * dim :=
  let qf := fold_left vmul (map fst (qtys_of cs)) (fold_left vmul (nums_of cs) (VQ 1)) in
  let qd := fold_left (fun d q => if is_any (fst q) then d else dmul d (snd q)) (qtys_of cs) dzero in
  if is_any qf then (qf, dzero) else
  let base : val := if dimensionless qd then qf else VSym in
  (fold_left smul (map fst (syms_of cs)) base, fold_left dmul (map snd (syms_of cs)) qd).

(* value class of the sum returned by _collect_add *)
Definition add_val (cs : list cls) (d : dim) : val :=
  let qs := fold_left vadd (map fst (qtys_of cs)) (fold_left vadd (nums_of cs) (VQ 0)) in
  let qpart : val := if dimensionless d then qs else VSym in
  fold_left sadd (map fst (syms_of cs)) qpart.

Definition dim_pow_expr (d : dim) (v : val) : option dim :=
  if dimensionless d then Some d else
  match v with
  | VQ q => Some (dpow d q)
  | VFloat0 => Some (dpow d 0)
  | _ => None
  end.

Fixpoint infer_e (e : sexpr) : eres :=
  match e with
  | SNum v => Ok (v, dzero)
  | SQty v d => Ok (VSym, d)
  | SDimSym d => Ok (VSym, d)
  | SPlain => Ok (VSym, dzero)
  | SMul l =>
      match classify infer_e l with
      | Err k => Err k
      | Ok cs => Ok (mul_of cs)
      end
  | SPow b x =>
      match infer_e x with
      | Err k => Err k
      | Ok (xv, xd) =>
          if negb (is_any xv) && negb (dimensionless xd) then Err E_VALUE else
          match infer_e b with
          | Err k => Err k
          | Ok (bv, bd) =>
              (* a bare quantity in the exponent stands for its value (repo commit "a bare quantity in an exponent ...") *)
              let xe := match x with SQty v _ => v | _ => xv end in
              match dim_pow_expr bd xe with
              | Some d => Ok (match bv, xe with VSym, _ | _, VSym => VSym | _, _ => vpow bv xe end, d)
              | None => Err E_UNSUPPORTED
              end
          end
      end
  | SAdd l =>
      match classify infer_e l with
      | Err k => Err k
      | Ok cs => match unique_dim cs with
                 | Err k => Err k
                 | Ok d => Ok (add_val cs d, d)
                 end
      end
  | SAbs a =>
      match infer_e a with
      | Err k => Err k
      | Ok (v, d) => Ok (match v with VSym => VSym | _ => vabs v end, d)
      end
  | SMin l | SMax l =>
      match classify infer_e l with
      | Err k => Err k
      | Ok cs => match unique_dim cs with
                 | Err k => Err k
                 | Ok d => Ok (VSym, d)
                 end
      end
  | SFun d l =>
      (fix go (l : list sexpr) : eres :=
         match l with
         | [] => Ok (VSym, d)
         | a :: r => match infer_e a with Err k => Err k | Ok _ => go r end
         end) l
  | SDeriv fd vanishes vars =>
      (fix go (acc : dim) (l : list (sexpr * Q)) : eres :=
         match l with
         | [] => Ok (if vanishes then VQ 0 else VSym, acc)
         | (a, n) :: r =>
             match infer_e a with
             | Err k => Err k
             | Ok (_, ad) => go (ddiv acc (dpow ad n)) r
             end
         end) fd vars
  end.

Definition eres_dim_eqb (a b : eres) : bool :=
  match a, b with
  | Ok (_, d), Ok (_, e) => deqb d e
  | Err x, Err y => N.eqb x y
  | _, _ => false
  end.

(* as eres_dim_eqb, and (when observed) the returned expression is literally of any dimension (0, +-oo, nan) on both
   sides or on neither *)
Definition eres_eqb (a b : eres) (b_any : option bool) : bool :=
  eres_dim_eqb a b &&
  match a, b_any with
  | Ok (v, _), Some x => Bool.eqb (is_any v) x
  | _, _ => true
  end.
