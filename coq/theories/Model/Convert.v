(* Executable model of unit conversion:
     symplyphysics/core/convert.py              convert_to, convert_to_float, convert_to_si, evaluate_expression
     symplyphysics/core/dimensions/dimensions.py dimension_to_si_unit (+ the _si_conversions table)
     symplyphysics/core/symbols/celsius.py      to_kelvin, from_kelvin, *_quantity
     symplyphysics/core/symbols/prefixes.py     the prefix tuple (as a table that is checked, see prefix_row_ok)
   No proofs here (Proofs/ConvertProofs.v).  Quantity construction and the dimension check are NOT re-modelled:
   the model calls CollectQ.quantity_ctor and Gate.gate1.

   Scale factors follow SymPy's convention (gram based: kilogram has scale 1000, joule 1000).  Nothing below
   assumes a particular table: the seven rows of `_si_conversions` are an argument `tbl`, regenerated from the
   live objects on every run. *)
From Coq Require Import List QArith ZArith Bool NArith Qabs Qround Qpower String.
From VP Require Import Base.Util Base.Dim Base.Val Model.CollectQ Model.Gate.
Import ListNotations.

(* ---- SymPy's a / b on the value classes of Val.v ------------------------------------------------
   (Float / Float(0.0) raises ZeroDivisionError in SymPy; the harness never divides by a float zero.) *)
Definition vzero (v : val) : bool :=
  match v with VQ q => qzero q | VFloat0 => true | _ => false end.

Definition vdiv (a b : val) : val :=
  match a, b with
  | VSym, _ | _, VSym => VSym
  | VNaN, _ | _, VNaN => VNaN
  | VPInf, VQ y => match qsign y with Lt => VNInf | _ => VPInf end
  | VNInf, VQ y => match qsign y with Lt => VPInf | _ => VNInf end
  | VPInf, VFloat0 => VPInf
  | VNInf, VFloat0 => VNInf
  | VPInf, VOther => VPInf
  | VNInf, VOther => VNInf
  | (VPInf | VNInf | VZoo), (VPInf | VNInf | VZoo) => VNaN
  | VZoo, _ => VZoo
  | _, (VPInf | VNInf | VZoo) => VQ 0
  | _, (VQ _ | VFloat0) =>
      if vzero b then (if vzero a then VNaN else VZoo)
      else match a, b with
           | VQ x, VQ y => VQ (Qred (x / y))
           | VFloat0, _ => VQ 0
           | _, _ => VOther
           end
  | VQ x, VOther => if qzero x then VQ 0 else VOther
  | VFloat0, VOther => VQ 0
  | VOther, VOther => VOther       (* may be rational in SymPy (sqrt(2)/sqrt(2)); the comparison treats a model
                                      VOther as "a number outside the exact model" *)
  end.

(* ---- convert_to -------------------------------------------------------------------------------- *)
(* what the caller hands over: something that already is a sympy Quantity (registered scale factor and
   dimension are read off it), or any other expression, from which Quantity(...) is constructed first *)
Inductive carg := CQ (v : val) (d : dim) | CE (e : qexpr).

Definition as_quantity (a : carg) : cres :=
  match a with
  | CQ v d => Ok (v, d)
  | CE e => quantity_ctor e None
  end.

(* the part after both operands are quantities:
   assert_equivalent_dimension(value, name, "convert_to", target_unit.dimension); scale / scale *)
Definition convert_core (sv : val) (dv : dim) (su : val) (du : dim) : result val :=
  match gate1 (GExpr (QQty sv dv)) (GDim du) with
  | Some k => Err k
  | None => Ok (vdiv sv su)
  end.

Definition convert_to (value target : carg) : result val :=
  match as_quantity value with
  | Err k => Err k
  | Ok (sv, dv) =>
      match as_quantity target with
      | Err k => Err k
      | Ok (su, du) => convert_core sv dv su du
      end
  end.

(* convert_to_float(value) = float(convert_to(value, S.One)) ; the float() itself is not modelled *)
Definition convert_to_float (value : carg) : result val := convert_to value (CE (QNum (VQ 1))).

(* ---- dimension_to_si_unit ----------------------------------------------------------------------
   row i = (scale_factor, dimension) of `_si_conversions[base dimension i]`, i = 0..6 in the order of Dim.v
   (a base without an entry contributes S.One, written as the row (1, dimensionless)).
       si_unit = S.One;  for dim, n in dependencies.items(): si_unit *= _si_conversions.get(dim, S.One)**n
   Bases that do not occur have exponent 0 here (u**0 = 1, a factor SymPy drops); angle and any_dimension have
   no row at all, so they contribute S.One**n = 1 exactly as `.get(dim, S.One)` does. *)
Definition si_row := (val * dim)%type.

Definition si_factor (row : si_row) (e : Q) : qexpr :=
  QPow (QQty (fst row) (snd row)) (QNum (VQ e)).

Definition si_unit_expr (tbl : list si_row) (d : dim) : qexpr :=
  QMul (QNum (VQ 1) :: map2 si_factor tbl d).

Definition convert_to_si (tbl : list si_row) (value : carg) : result val :=
  match as_quantity value with
  | Err k => Err k
  | Ok (sv, dv) => convert_to (CQ sv dv) (CE (si_unit_expr tbl dv))
  end.

(* ---- evaluate_expression ----------------------------------------------------------------------
   Arithmetic trees over numbers and quantities, n-ary like SymPy's Add / Mul (.args order).
       for qty in expr.atoms(Quantity): expr = expr.subs(qty, convert_to_si(qty))
   leaves a number expression that SymPy evaluates with exact rational arithmetic. *)
Inductive aexpr :=
| ANum (q : Q)
| AQty (s : Q) (d : dim)
| AAdd (l : list aexpr)
| AMul (l : list aexpr)
| APow (a : aexpr) (z : Z).

Fixpoint embed (e : aexpr) : qexpr :=
  match e with
  | ANum q => QNum (VQ q)
  | AQty s d => QQty (VQ s) d
  | AAdd l => QAdd (map embed l)
  | AMul l => QMul (map embed l)
  | APow a z => QPow (embed a) (QNum (VQ (inject_Z z)))
  end.

Definition lift2 (f : val -> val -> val) (a b : result val) : result val :=
  match a with
  | Err k => Err k
  | Ok x => match b with Err k => Err k | Ok y => Ok (f x y) end
  end.

(* left fold of a binary operation over the evaluated arguments *)
Definition ev_go (ev : aexpr -> result val) (f : val -> val -> val) : result val -> list aexpr -> result val :=
  fix go (acc : result val) (l : list aexpr) : result val :=
    match l with
    | [] => acc
    | a :: r => go (lift2 f acc (ev a)) r
    end.

Fixpoint eval_si (tbl : list si_row) (e : aexpr) : result val :=
  match e with
  | ANum q => Ok (VQ q)
  | AQty s d => convert_to_si tbl (CQ (VQ s) d)
  | AAdd l => ev_go (eval_si tbl) vadd (Ok (VQ 0)) l
  | AMul l => ev_go (eval_si tbl) vmul (Ok (VQ 1)) l
  | APow a z => lift2 vpow (eval_si tbl a) (Ok (VQ (inject_Z z)))
  end.

(* ---- Celsius helpers ---------------------------------------------------------------------------
   off = Celsius.CELSIUS_TO_KELVIN_OFFSET (regenerated); temperatures are exact rationals here, the binary64
   round trip is a test in the harness. *)
Definition to_kelvin (off c : Q) : Q := c + off.
Definition from_kelvin (off k : Q) : Q := k - off.

Definition TEMPERATURE : nat := 4.

(* to_kelvin_quantity: Quantity(to_kelvin(c) * kelvin, dimension=units.temperature), kelvin = (ks, kd) as registered,
   td = units.temperature (explicit, because a zero factor makes the collected dimension dimensionless) *)
Definition to_kelvin_quantity (off : Q) (ks : val) (kd td : dim) (c : Q) : cres :=
  quantity_ctor (QMul [QNum (VQ (to_kelvin off c)); QQty ks kd]) (Some td).

(* from_kelvin_quantity: float(sympy.convert_to(value, kelvin).subs(kelvin, 1)) - off.  For a quantity whose
   dimension is not a temperature SymPy leaves other units in the expression and float() raises TypeError. *)
Definition from_kelvin_quantity (off : Q) (ks : val) (kd : dim) (sv : val) (dv : dim) : result val :=
  if deqb dv kd then
    match vdiv sv ks with
    | VQ k => Ok (VQ (Qred (from_kelvin off k)))
    | VPInf => Ok VPInf
    | VNInf => Ok VNInf
    | VNaN => Ok VNaN
    | VOther => Ok VOther
    | _ => Err E_TYPE
    end
  else Err E_TYPE.

(* ---- tables that are regenerated from the live objects and checked inside Coq ------------------ *)

(* SI coherent base units, in the order of Dim.v, with the scale SymPy's gram-based SI system registers for them.
   Hand-entered reference (BIPM SI brochure: metre, kilogram, second, ampere, kelvin, mole, candela). *)
Open Scope string_scope.
Definition si_reference : list (string * Q) :=
  [("meter", 1); ("kilogram", 1000 # 1); ("second", 1); ("ampere", 1); ("kelvin", 1); ("mole", 1); ("candela", 1)]%Q.

(* SI prefixes (BIPM): name, decimal exponent.  Hand-entered reference. *)
Definition prefix_reference : list (string * Z) :=
  [("yotta", 24); ("zetta", 21); ("exa", 18); ("peta", 15); ("tera", 12); ("giga", 9); ("mega", 6); ("kilo", 3);
   ("hecto", 2); ("deca", 1); ("deci", -1); ("centi", -2); ("milli", -3); ("micro", -6); ("nano", -9); ("pico", -12);
   ("femto", -15); ("atto", -18); ("zepto", -21); ("yocto", -24)]%Z.
Close Scope string_scope.

Definition pow10 (k : Z) : Q := Qpower (10 # 1) k.
Definition pow2 (k : Z) : Q := Qpower (2 # 1) k.

(* `x` (the exact rational a Python number denotes) is the value SymPy/Python should hold for the real number `t`:
   either exactly t (ints, Rationals), or the binary64 nearest to t, certified by mantissa m and exponent e:
   x = m * 2^e, 2^52 <= m < 2^53, |t - x| <= half an ulp (a quarter below a power of two). *)
Definition nearest_b64 (x t : Q) (m e : Z) : bool :=
  Qeq_bool x (inject_Z m * pow2 e) &&
  (Z.leb (2 ^ 52) m && Z.ltb m (2 ^ 53)) &&
  Qle_bool (Qabs (t - x))
    (if Z.eqb m (2 ^ 52) && Qle_bool t x && negb (Qeq_bool t x) then pow2 (e - 2) else pow2 (e - 1)).

Definition denotes (x t : Q) (cert : option (Z * Z)) : bool :=
  match cert with
  | None => Qeq_bool x t
  | Some (m, e) => nearest_b64 x t m e
  end.

Fixpoint sassoc {A} (k : string) (l : list (string * A)) : option A :=
  match l with
  | [] => None
  | (k', v) :: r => if String.eqb k k' then Some v else sassoc k r
  end.

(* one entry of symplyphysics.core.symbols.prefixes.prefixes: field name, value, float certificate *)
Definition prefix_row_ok (row : string * Q * option (Z * Z)) : bool :=
  let '(name, x, cert) := row in
  match sassoc name prefix_reference with
  | None => false
  | Some k => denotes x (pow10 k) cert
  end.

Definition prefix_table_ok (rows : list (string * Q * option (Z * Z))) : bool :=
  Nat.eqb (List.length rows) (List.length prefix_reference) &&
  forallb prefix_row_ok rows &&
  forallb (fun r => existsb (fun row => String.eqb (fst (fst row)) (fst r)) rows) prefix_reference.

(* the live _si_conversions rows: unit name, (scale, dimension) *)
Definition si_table_row_ok (i : nat) (row : string * si_row) (ref : string * Q) : bool :=
  String.eqb (fst row) (fst ref) &&
  val_eqb (fst (snd row)) (VQ (snd ref)) &&
  deqb (snd (snd row)) (base i).

Fixpoint si_table_ok_from (i : nat) (rows : list (string * si_row)) (refs : list (string * Q)) : bool :=
  match rows, refs with
  | [], [] => true
  | r :: rows', f :: refs' => si_table_row_ok i r f && si_table_ok_from (S i) rows' refs'
  | _, _ => false
  end.

Definition si_table_ok (rows : list (string * si_row)) : bool := si_table_ok_from 0 rows si_reference.

(* what the theorems need of a table: row i is a non-zero rational scale with dimension base i *)
Fixpoint table_ok_from (i : nat) (tbl : list si_row) : bool :=
  match tbl with
  | [] => true
  | (VQ s, d) :: r => negb (qzero s) && deqb d (base i) && table_ok_from (S i) r
  | _ => false
  end.
Definition table_ok (tbl : list si_row) : bool := Nat.eqb (List.length tbl) 7 && table_ok_from 0 tbl.

(* the Celsius offset is the binary64 nearest to 273.15 *)
Definition celsius_offset_ok (off : Q) (m e : Z) : bool := nearest_b64 off (27315 # 100) m e.

(* ---- observation comparison used by the correspondence check ------------------------------------
   exact = true : rationals must agree exactly;  false : to a relative 1e-12 (SymPy Float arithmetic rounds).
   A model VOther (irrational or complex scale, outside the exact model) matches any finite number. *)
Definition rval_close (exact : bool) (m i : result val) : bool :=
  match m, i with
  | Ok (VQ a), Ok (VQ b) =>
      if exact then Qeq_bool a b
      else Qle_bool (Qabs (a - b)) ((1 # 1000000000000) * Qabs a)
  | Ok VOther, Ok (VQ _) => true
  | Ok x, Ok y => val_eqb x y
  | Err a, Err b => N.eqb a b
  | _, _ => false
  end.
