(* The nine operator formulas of symplyphysics/core/fields/operators.py over differential polynomials.

   Coordinates (coordinate_systems.py : system_to_base_scalars):
     Cartesian   q = (x, y, z)
     cylindrical q = (r, theta, z)
     spherical   q = (r, theta, phi)   theta = azimuthal angle, phi = polar angle
   Every operator takes the derivation `d` as an argument: `D` for a field given in the system's own coordinates,
   `Dvia X` for a Cartesian field composed with the coordinate map X.
   Vector fields are component LISTS; short lists are padded with zeros exactly as operators.py does
   (`list(components) + [0] * (3 - len(components))`).  No proofs in this file. *)
From Coq Require Import ZArith Reals List.
From VP Require Import Model.DiffAlg.
Import ListNotations.
Local Open Scope R_scope.

Inductive sys : Type := Cart | Cyl | Sph.

Definition q0 : tx := TCoord 0.
Definition q1 : tx := TCoord 1.
Definition q2 : tx := TCoord 2.

(* ---- gradient_operator : operators.py 9-41 ------------------------------------------------------------- *)
Definition grad_cart (d : nat -> tx -> tx) (f : tx) : tx3 := (d 0%nat f, d 1%nat f, d 2%nat f).
Definition grad_cyl (d : nat -> tx -> tx) (f : tx) : tx3 :=
  (d 0%nat f, TDiv (d 1%nat f) q0, d 2%nat f).
Definition grad_sph (d : nat -> tx -> tx) (f : tx) : tx3 :=
  (d 0%nat f, TDiv (d 1%nat f) (TMul q0 (TSin 2)), TDiv (d 2%nat f) q0).

(* ---- divergence_operator : operators.py 44-73 ---------------------------------------------------------- *)
Definition div_cart (d : nat -> tx -> tx) (l : list tx) : tx :=
  let '(fx, fy, fz) := pad3 l in
  TAdd (TAdd (d 0%nat fx) (d 1%nat fy)) (d 2%nat fz).
Definition div_cyl (d : nat -> tx -> tx) (l : list tx) : tx :=
  let '(fr, ft, fz) := pad3 l in
  TAdd (TAdd (TAdd (d 0%nat fr) (TDiv fr q0)) (TDiv (d 1%nat ft) q0)) (d 2%nat fz).

(* the cotangent term.  operators.py writes  field_phi / (r * tan(phi));  `div_sph_code` keeps the tangent
   (tan = sin / cos, as in Coq's Rtrigo1.tan), `div_sph` is the formula with cos/sin, defined also on the
   plane phi = pi/2.  OpsProofs.div_sph_code_eq : they agree wherever cos phi <> 0. *)
Definition ttan (i : nat) : tx := TDiv (TSin i) (TCos i).
Definition div_sph_gen (cot_term : tx -> tx) (d : nat -> tx -> tx) (l : list tx) : tx :=
  let '(fr, ft, fp) := pad3 l in
  TAdd (TAdd (TAdd (TAdd (d 0%nat fr) (TDiv (TMul (TC 2) fr) q0))
                   (TDiv (d 1%nat ft) (TMul q0 (TSin 2))))
             (TDiv (d 2%nat fp) q0))
       (cot_term fp).
Definition div_sph_code : (nat -> tx -> tx) -> list tx -> tx :=
  div_sph_gen (fun fp => TDiv fp (TMul q0 (ttan 2))).
Definition div_sph : (nat -> tx -> tx) -> list tx -> tx :=
  div_sph_gen (fun fp => TDiv (TMul fp (TCos 2)) (TMul q0 (TSin 2))).

(* ---- curl_operator : operators.py 77-123 --------------------------------------------------------------- *)
Definition curl_cart (d : nat -> tx -> tx) (l : list tx) : tx3 :=
  let '(fx, fy, fz) := pad3 l in
  (TSub (d 1%nat fz) (d 2%nat fy),
   TSub (d 2%nat fx) (d 0%nat fz),
   TSub (d 0%nat fy) (d 1%nat fx)).
Definition curl_cyl (d : nat -> tx -> tx) (l : list tx) : tx3 :=
  let '(fr, ft, fz) := pad3 l in
  (TSub (TDiv (d 1%nat fz) q0) (d 2%nat ft),
   TSub (d 2%nat fr) (d 0%nat fz),
   TDiv (TSub (d 0%nat (TMul q0 ft)) (d 1%nat fr)) q0).
Definition curl_sph (d : nat -> tx -> tx) (l : list tx) : tx3 :=
  let '(fr, ft, fp) := pad3 l in
  (TDiv (TSub (d 2%nat (TMul (TSin 2) ft)) (d 1%nat fp)) (TMul q0 (TSin 2)),
   TDiv (TSub (d 0%nat (TMul q0 fp)) (d 2%nat fr)) q0,
   TDiv (TSub (TDiv (d 1%nat fr) (TSin 2)) (d 0%nat (TMul q0 ft))) q0).

Definition grad (s : sys) : (nat -> tx -> tx) -> tx -> tx3 :=
  match s with Cart => grad_cart | Cyl => grad_cyl | Sph => grad_sph end.
Definition div (s : sys) : (nat -> tx -> tx) -> list tx -> tx :=
  match s with Cart => div_cart | Cyl => div_cyl | Sph => div_sph end.
Definition curl (s : sys) : (nat -> tx -> tx) -> list tx -> tx3 :=
  match s with Cart => curl_cart | Cyl => curl_cyl | Sph => curl_sph end.

(* ---- generic fields ------------------------------------------------------------------------------------- *)
Definition gen_scalar : tx := TJ 0 0 0 0.
Definition gen_vector (n : nat) : list tx := map (fun k => TJ k 0 0 0) (seq 1 n).      (* fields 1..n *)

(* ---- coordinate maps to the Cartesian point (coordinate_systems.py : transformation_to_system) ---------- *)
Definition X_cyl (k : nat) : tx :=
  match k with
  | 0%nat => TMul q0 (TCos 1)
  | 1%nat => TMul q0 (TSin 1)
  | _ => q2
  end.
Definition X_sph (k : nat) : tx :=
  match k with
  | 0%nat => TMul (TMul q0 (TCos 1)) (TSin 2)
  | 1%nat => TMul (TMul q0 (TSin 1)) (TSin 2)
  | _ => TMul q0 (TCos 2)
  end.
Definition X_of (s : sys) : nat -> tx :=
  match s with Cart => TCoord | Cyl => X_cyl | Sph => X_sph end.

(* Lame coefficients h_i = | dX/dq_i | and the local orthonormal basis  E i k = (dX_k/dq_i) / h_i
   (Cartesian component k of the unit vector along q_i) *)
Definition lame (s : sys) (i : nat) : tx :=
  match s, i with
  | Cart, _ => T1
  | Cyl, 1%nat => q0
  | Cyl, _ => T1
  | Sph, 0%nat => T1
  | Sph, 1%nat => TMul q0 (TSin 2)
  | Sph, _ => q0
  end.
Definition E_cyl (i k : nat) : tx :=
  match i, k with
  | 0%nat, 0%nat => TCos 1 | 0%nat, 1%nat => TSin 1 | 0%nat, _ => T0
  | 1%nat, 0%nat => TNeg (TSin 1) | 1%nat, 1%nat => TCos 1 | 1%nat, _ => T0
  | _, 2%nat => T1 | _, _ => T0
  end.
Definition E_sph (i k : nat) : tx :=
  match i, k with
  | 0%nat, 0%nat => TMul (TCos 1) (TSin 2) | 0%nat, 1%nat => TMul (TSin 1) (TSin 2) | 0%nat, _ => TCos 2
  | 1%nat, 0%nat => TNeg (TSin 1) | 1%nat, 1%nat => TCos 1 | 1%nat, _ => T0
  | _, 0%nat => TMul (TCos 1) (TCos 2) | _, 1%nat => TMul (TSin 1) (TCos 2) | _, _ => TNeg (TSin 2)
  end.
Definition E_of (s : sys) : nat -> nat -> tx :=
  match s with Cart => delta | Cyl => E_cyl | Sph => E_sph end.

(* components of a Cartesian triple in the local basis *)
Definition local_tx (E : nat -> nat -> tx) (v : tx3) : tx3 :=
  let '(a, b, c) := v in
  let row i := TAdd (TAdd (TMul a (E i 0%nat)) (TMul b (E i 1%nat))) (TMul c (E i 2%nat)) in
  (row 0%nat, row 1%nat, row 2%nat).
Definition local_R (rho : val) (E : nat -> nat -> tx) (v : R3) : R3 :=
  let '(a, b, c) := v in
  let row i := a * ev rho (E i 0%nat) + b * ev rho (E i 1%nat) + c * ev rho (E i 2%nat) in
  (row 0%nat, row 1%nat, row 2%nat).

(* a generic Cartesian scalar field / vector field seen from the curvilinear coordinates *)
Definition cart_scalar_at : tx := TK 0 0 0 0.
Definition cart_vector : list tx := gen_vector 3.                                   (* in Cartesian variables *)
Definition cart_vector_local (s : sys) : list tx :=
  list3 (local_tx (E_of s) (pad3 (map (comp (X_of s)) cart_vector))).
