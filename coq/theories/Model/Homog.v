(* C01 -- dimensional homogeneity of a published equation.

   * `dexpr`  : deep embedding of a SymPy equation with dimension-annotated leaves (what harness/vp/dx.py emits);
   * `Homog`  : the judgment "e is dimensionally homogeneous and has dimension d", written from the property text
                (declarative: sums / comparisons need a *common* dimension of all their terms, independent of order);
   * `infer`  : the executable checker (a left fold with `join`), `check_rel`.

   Conventions (all visible modelling choices):
   - angles count as dimensionless: a leaf's dimension is its declared dimension with the angle exponent erased;
   - `Any` (wildcard) is the dimension of 0, +-oo, nan, AnyDimension symbols and symbols without declared dimension;
     it matches anything in a sum / comparison and absorbs in a product;
   - `DPow b e q`: `q = Some r` iff the serialiser saw that the exponent `e` is the rational constant r
     (a float exponent such as 0.8 is read as the decimal it prints as, 4/5);
   - multi-variable derivatives / integrals are nested single-variable nodes; the variable of a derivative / integral
     is a symbol, so only its (declared) dimension is recorded;
   - a matrix equation is the conjunction `DConj` of its entry equations (the serialiser expands matrix products
     into sums of products).
   No proofs here. *)
From Coq Require Import List QArith Bool.
From VP Require Import Base.Dim.
Import ListNotations.

Inductive adim := Any | D (d : dim).

Inductive dexpr :=
| DNum                                         (* non-zero finite numeric constant (2, 1/2, 0.8, pi, I): dimensionless *)
| DWild                                        (* 0, +-oo, nan, zoo, AnyDimension symbol, symbol with no declared dimension *)
| DLeaf (d : dim)                              (* symbol / indexed symbol / quantity with declared dimension d *)
| DAdd (l : list dexpr)
| DMul (l : list dexpr)
| DPow (b e : dexpr) (q : option Q)
| DSame (e : dexpr)                            (* Abs, conjugate, re, im, average / difference wrappers *)
| DMinMax (l : list dexpr)
| DFun (l : list dexpr)                        (* exp log trig hyperbolic inverse-trig factorial special functions *)
| DApp (d : adim) (l : list dexpr)             (* applied user function with declared dimension d (Any: undeclared / O()) *)
| DDeriv (f : dexpr) (v : adim) (n : Q)        (* d^n f / dv^n, v the declared dimension of the variable *)
| DIntegral (f : dexpr) (v : adim) (bounds : list dexpr)
| DSumIdx (f : dexpr)                          (* sum over an index *)
| DProdIdx (f : dexpr)                         (* product over an index (unknown number of factors) *)
| DPiecewise (vals conds : list dexpr)
| DRel (l r : dexpr)                           (* = , <, <=, ... *)
| DTrue                                        (* boolean constant (the `True` condition of a Piecewise) *)
| DConj (l : list dexpr).                      (* entrywise matrix equation *)

(* ---- algebra of possibly-wild dimensions ---------------------------------------------------- *)

Definition aerase (x : adim) : adim := match x with Any => Any | D a => D (erase_angle a) end.

Definition amul (x y : adim) : adim :=
  match x, y with D a, D b => D (dmul a b) | _, _ => Any end.

Definition amul_all (l : list adim) : adim := fold_right amul (D dzero) l.

Definition aderiv (f v : adim) (n : Q) : adim :=
  match f, v with D a, D b => D (dmul a (dpow b (- n))) | _, _ => Any end.

(* ---- the specification ------------------------------------------------------------------------ *)

Definition dimless (a : dim) : Prop := Forall (fun q => q == 0) a.

Definition dimless_or_any (x : adim) : Prop := match x with Any => True | D a => dimless a end.

Definition adim_equiv (x y : adim) : Prop :=
  match x, y with Any, Any => True | D a, D b => deq a b | _, _ => False end.

(* x may stand where dimension d is required *)
Definition compat (x d : adim) : Prop :=
  match x, d with Any, _ => True | D a, D b => deq a b | D _, Any => False end.

(* d is the common dimension of the terms ds: every term is compatible with it, and it is wild only when
   every term is *)
Definition common (ds : list adim) (d : adim) : Prop :=
  Forall (fun x => compat x d) ds /\
  match d with Any => True | D _ => Exists (fun x => x <> Any) ds end.

Inductive Homog : dexpr -> adim -> Prop :=
| HNum : Homog DNum (D dzero)
| HWild : Homog DWild Any
| HLeaf d : Homog (DLeaf d) (D (erase_angle d))
| HAdd l ds d : Forall2 Homog l ds -> common ds d -> Homog (DAdd l) d
| HMul l ds : Forall2 Homog l ds -> Homog (DMul l) (amul_all ds)
| HPowAny b e q de : Homog b Any -> Homog e de -> dimless_or_any de -> Homog (DPow b e q) Any
| HPowDl b e q a de : Homog b (D a) -> dimless a -> Homog e de -> dimless_or_any de -> Homog (DPow b e q) (D a)
| HPowQ b e r a de : Homog b (D a) -> Homog e de -> dimless_or_any de -> Homog (DPow b e (Some r)) (D (dpow a r))
| HSame e d : Homog e d -> Homog (DSame e) d
| HMinMax l ds d : Forall2 Homog l ds -> common ds d -> Homog (DMinMax l) d
| HFun l ds : Forall2 Homog l ds -> Forall dimless_or_any ds -> Homog (DFun l) (D dzero)
| HApp d l ds : Forall2 Homog l ds -> Homog (DApp d l) (aerase d)
| HDeriv f v n df : Homog f df -> Homog (DDeriv f v n) (aderiv df (aerase v) n)
| HIntegral f v bs df ds dv :
    Homog f df -> Forall2 Homog bs ds -> common (aerase v :: ds) dv -> Homog (DIntegral f v bs) (amul df dv)
| HSumIdx f d : Homog f d -> Homog (DSumIdx f) d
| HProdIdx f d : Homog f d -> dimless_or_any d -> Homog (DProdIdx f) d
| HPiecewise vs cs ds dcs d :
    Forall2 Homog vs ds -> Forall2 Homog cs dcs -> common ds d -> Homog (DPiecewise vs cs) d
| HRel l r dl dr d : Homog l dl -> Homog r dr -> common [dl; dr] d -> Homog (DRel l r) d
| HTrue : Homog DTrue Any
| HConj l ds : Forall2 Homog l ds -> Homog (DConj l) Any.

(* ---- the executable checker ------------------------------------------------------------------- *)

Definition join (x y : adim) : option adim :=
  match x, y with
  | Any, _ => Some y
  | _, Any => Some x
  | D a, D b => if deqb a b then Some x else None
  end.

Fixpoint join_all (acc : adim) (l : list adim) : option adim :=
  match l with
  | [] => Some acc
  | x :: r => match join acc x with Some a => join_all a r | None => None end
  end.

Definition dimless_or_anyb (x : adim) : bool := match x with Any => true | D a => dimensionless a end.

Definition apow (b : adim) (q : option Q) : option adim :=
  match b with
  | Any => Some Any
  | D a => if dimensionless a then Some (D a)
           else match q with Some r => Some (D (dpow a r)) | None => None end
  end.

Definition omap {A B} (f : A -> option B) : list A -> option (list B) :=
  fix go (l : list A) : option (list B) :=
    match l with
    | [] => Some []
    | x :: r => match f x with
                | None => None
                | Some y => match go r with None => None | Some ys => Some (y :: ys) end
                end
    end.

Fixpoint infer (e : dexpr) : option adim :=
  match e with
  | DNum => Some (D dzero)
  | DWild => Some Any
  | DLeaf d => Some (D (erase_angle d))
  | DAdd l => match omap infer l with Some ds => join_all Any ds | None => None end
  | DMul l => match omap infer l with Some ds => Some (amul_all ds) | None => None end
  | DPow b e q =>
      match infer b, infer e with
      | Some db, Some de => if dimless_or_anyb de then apow db q else None
      | _, _ => None
      end
  | DSame a => infer a
  | DMinMax l => match omap infer l with Some ds => join_all Any ds | None => None end
  | DFun l => match omap infer l with
              | Some ds => if forallb dimless_or_anyb ds then Some (D dzero) else None
              | None => None
              end
  | DApp d l => match omap infer l with Some _ => Some (aerase d) | None => None end
  | DDeriv f v n => match infer f with Some df => Some (aderiv df (aerase v) n) | None => None end
  | DIntegral f v bs =>
      match infer f, omap infer bs with
      | Some df, Some ds => match join_all (aerase v) ds with Some dv => Some (amul df dv) | None => None end
      | _, _ => None
      end
  | DSumIdx f => infer f
  | DProdIdx f => match infer f with
                  | Some d => if dimless_or_anyb d then Some d else None
                  | None => None
                  end
  | DPiecewise vs cs =>
      match omap infer vs, omap infer cs with
      | Some ds, Some _ => join_all Any ds
      | _, _ => None
      end
  | DRel l r =>
      match infer l, infer r with
      | Some dl, Some dr => join dl dr
      | _, _ => None
      end
  | DTrue => Some Any
  | DConj l => match omap infer l with Some _ => Some Any | None => None end
  end.

Definition check_rel (e : dexpr) : bool := match infer e with Some _ => true | None => false end.

(* ---- helpers for the harness (diagnostics and cross-ties; not part of the specification) ------- *)

Definition adim_eqb (x y : adim) : bool :=
  match x, y with Any, Any => true | D a, D b => deqb a b | _, _ => false end.

(* an externally computed dimension (the repository's own inference, or the harness' Python specification
   predicate) agrees with `infer` on e: both refuse, or both accept with equal dimensions up to angle; a wild
   result of `infer` agrees with any external dimension *)
Definition agrees (e : dexpr) (ext : option adim) : bool :=
  match infer e, ext with
  | None, None => true
  | Some Any, Some _ => true
  | Some (D a), Some x => adim_eqb (D a) (aerase x)
  | _, _ => false
  end.

(* strict version: wildness must agree too *)
Definition agrees_strict (e : dexpr) (ext : option adim) : bool :=
  match infer e, ext with
  | None, None => true
  | Some x, Some y => adim_eqb x (aerase y)
  | _, _ => false
  end.
