(* Executable model of object creation in symplyphysics:

     core/symbols/symbols.py      Symbol (45-61), IndexedSymbol (68-95), Function (101-133), next_name (189),
                                  _process_subscript_and_names (204-212), clone_as_symbol (215-233),
                                  clone_as_function (236-258), clone_as_indexed (260-277),
                                  SymbolPrinter (150-186) / docs/printer_code.py on atoms
     core/symbols/quantities.py   Quantity.__new__/__init__ (19-53), _sympystr (73-92)
     core/coordinate_systems/coordinate_systems.py   CoordinateSystem.__init__ (54), coordinates_transform (112),
                                  coordinates_rotate (124)
     core/experimental/vectors/__init__.py   VectorSymbol (SYM + VEC ids), _process_vector_names
     core/vectors/vectors.py      QuantityVector (one "" id, one QTY id per non-quantity component)

   Python truthiness of optional strings (`x or y`) is modelled by [str_or]: None and "" both fall through.
   SymPy identity of a created object is modelled as (kind, internal name, assumptions).  No proofs here. *)
From Coq Require Import List NArith String Ascii Bool QArith.
From VP Require Import Base.Dim Model.Ids.
Import ListNotations.
Open Scope string_scope.

Inductive kind := KSymbol | KIndexed | KFunction | KQuantity | KCoordSys | KVector | KQVector.

Definition kind_eqb (a b : kind) : bool :=
  match a, b with
  | KSymbol, KSymbol | KIndexed, KIndexed | KFunction, KFunction | KQuantity, KQuantity
  | KCoordSys, KCoordSys | KVector, KVector | KQVector, KQVector => true
  | _, _ => false
  end.

(* the assumption keywords passed by the caller, in the harness' canonical (sorted) order; [] = none *)
Definition assum := list (string * bool).

Definition assum_eqb (a b : assum) : bool :=
  list_eqb (fun x y => String.eqb (fst x) (fst y) && Bool.eqb (snd x) (snd y)) a b.

Record obj := mkobj {
  okind : kind;
  oname : string;       (* generated internal name: what SymPy sees *)
  odisplay : string;    (* display_name: code name *)
  olatex : string;      (* display_latex *)
  odim : dim;
  oassum : assum
}.

Record store := mkstore { ids : state; objs : list obj }.

Definition is_empty (s : string) : bool := match s with EmptyString => true | _ => false end.

(* `o or d` *)
Definition str_or (o : option string) (d : string) : string :=
  match o with
  | Some s => if is_empty s then d else s
  | None => d
  end.

(* `a or d` on keyword dicts *)
Definition assum_or (a d : assum) : assum := match a with [] => d | _ => a end.

(* _process_subscript_and_names *)
Definition with_subscript (code latex : string) (sub : option string) : string * string :=
  match sub with
  | Some s => if is_empty s then (code, latex) else (code ++ "_" ++ s, latex ++ "_{" ++ s ++ "}")
  | None => (code, latex)
  end.

(* experimental/vectors: _process_vector_names(code, latex, base="VEC", i) *)
Definition vector_names (code latex : option string) (i : N) : string * string :=
  let c := str_or code "" in
  if is_empty c then
    ("VEC" ++ dec i, let l := str_or latex "" in if is_empty l then "\mathbf{v}_{" ++ dec i ++ "}" else l)
  else
    (c, let l := str_or latex "" in if is_empty l then "\mathbf{" ++ c ++ "}" else l).

Inductive sop :=
| NewSymbol (display : option string) (d : dim) (latex : option string) (a : assum)
| NewIndexed (name : option string) (d : dim) (latex : option string) (a : assum)
| NewFunction (display : option string) (d : dim) (latex : option string) (a : assum)
| NewQuantity (display latex : option string) (d : dim)
| NewCoordSys          (* CoordinateSystem(type) *)
| TransformSys         (* coordinates_transform(existing, type) *)
| RotateSys            (* coordinates_rotate(existing cartesian, angle, axis) *)
| NewVector (display : option string) (d : dim) (latex : option string)
| NewQVector (fresh_components : nat) (d : dim)
| CloneSymbol (src : nat) (display latex subscript : option string) (a : assum)
| CloneFunction (src : nat) (display latex subscript : option string) (a : assum)
| CloneIndexed (src : nat) (display latex : option string) (a : assum).

(* sources accepted by the clone helpers (type hints: Symbol | IndexedSymbol) *)
Definition clonable (o : obj) : bool :=
  match okind o with KSymbol | KIndexed => true | _ => false end.

Definition get_src (st : store) (src : nat) : option obj :=
  match nth_error (objs st) src with
  | Some o => if clonable o then Some o else None
  | None => None
  end.

(* DimensionSymbol.__init__: _display_latex = display_latex or display_name *)
Definition mk_dimsym (k : kind) (internal display : string) (latex : option string) (d : dim) (a : assum) : obj :=
  mkobj k internal display (str_or latex display) d a.

(* Symbol(display, dim, display_latex=..., **a): name = next_name("SYM"); display = display or name *)
Definition new_symbol (s : state) (display : option string) (d : dim) (latex : option string) (a : assum)
  : state * obj :=
  let '(nm, s') := next_name "SYM" s in
  (s', mk_dimsym KSymbol nm (str_or display nm) latex d a).

(* IndexedSymbol(name, index, dim, ...): display = name if name is not None (an empty string is kept) *)
Definition new_indexed (s : state) (name : option string) (d : dim) (latex : option string) (a : assum)
  : state * obj :=
  let '(nm, s') := next_name "SYM" s in
  (s', mk_dimsym KIndexed nm (match name with Some x => x | None => nm end) latex d a).

Definition new_function (s : state) (display : option string) (d : dim) (latex : option string) (a : assum)
  : state * obj :=
  let '(nm, s') := next_name "FUN" s in
  (s', mk_dimsym KFunction nm (str_or display nm) latex d a).

Fixpoint alloc_many (p : string) (k : nat) (s : state) : state :=
  match k with
  | O => s
  | S k' => alloc_many p k' (snd (next_id p s))
  end.

(* one operation: new counter state and the object it creates (None: rejected operand, nothing happens) *)
Definition exec (o : sop) (st : store) : state * option obj :=
  let s := ids st in
  match o with
  | NewSymbol display d latex a =>
      let '(s', x) := new_symbol s display d latex a in (s', Some x)
  | NewIndexed name d latex a =>
      let '(s', x) := new_indexed s name d latex a in (s', Some x)
  | NewFunction display d latex a =>
      let '(s', x) := new_function s display d latex a in (s', Some x)
  | NewQuantity display latex d =>
      let '(nm, s') := next_name "QTY" s in
      let disp := str_or display nm in
      (s', Some (mkobj KQuantity nm disp (str_or latex disp) d []))
  | NewCoordSys | TransformSys =>
      let '(nm, s') := next_name "SYS" s in
      (s', Some (mkobj KCoordSys nm nm nm dzero []))
  | RotateSys =>
      let '(nm, s') := next_name "C" s in
      (s', Some (mkobj KCoordSys nm nm nm dzero []))
  | NewVector display d latex =>
      (* Symbol.__new__(cls) first, then VectorSymbol.__init__ takes a VEC id whether or not it is used *)
      let '(nm, s1) := next_name "SYM" s in
      let '(i, s2) := next_id "VEC" s1 in
      let '(c, l) := vector_names display latex i in
      (s2, Some (mkobj KVector nm c l d []))
  | NewQVector k d =>
      let s1 := alloc_many "QTY" k s in
      let '(i, s2) := next_id "" s1 in
      (s2, Some (mkobj KQVector (mk_name "" i) ("VEC" ++ dec i) ("v_{" ++ dec i ++ "}") d []))
  | CloneSymbol src display latex sub a =>
      match get_src st src with
      | None => (s, None)
      | Some x =>
          let a' := assum_or a (oassum x) in
          let '(c, l) := with_subscript (str_or display (odisplay x)) (str_or latex (olatex x)) sub in
          let '(s', y) := new_symbol s (Some c) (odim x) (Some l) a' in (s', Some y)
      end
  | CloneFunction src display latex sub a =>
      match get_src st src with
      | None => (s, None)
      | Some x =>
          let a' := assum_or a (oassum x) in
          let '(c, l) := with_subscript (str_or display (odisplay x)) (str_or latex (olatex x)) sub in
          let '(s', y) := new_function s (Some c) (odim x) (Some l) a' in (s', Some y)
      end
  | CloneIndexed src display latex a =>
      match get_src st src with
      | None => (s, None)
      | Some x =>
          let a' := assum_or a (oassum x) in
          let '(s', y) := new_indexed s (Some (str_or display (odisplay x))) (odim x)
                            (Some (str_or latex (olatex x))) a' in (s', Some y)
      end
  end.

Definition step (o : sop) (st : store) : store :=
  let '(s', r) := exec o st in
  mkstore s' (match r with Some x => objs st ++ [x] | None => objs st end).

Fixpoint run (ops : list sop) (st : store) : store :=
  match ops with
  | [] => st
  | o :: r => run r (step o st)
  end.

(* ---------------------------------------------------------------------------------------- *)
(* identity                                                                                   *)

Definition identity (o : obj) : kind * string * assum := (okind o, oname o, oassum o).

Definition same_identity (a b : obj) : bool :=
  kind_eqb (okind a) (okind b) && String.eqb (oname a) (oname b) && assum_eqb (oassum a) (oassum b).

(* pairs (i, j), i < j, of created objects the model considers equal *)
Fixpoint alias_row (i j : N) (x : obj) (l : list obj) : list (N * N) :=
  match l with
  | [] => []
  | y :: r => (if same_identity x y then [(i, j)] else []) ++ alias_row i (N.succ j) x r
  end.

Fixpoint alias_pairs_from (i : N) (l : list obj) : list (N * N) :=
  match l with
  | [] => []
  | x :: r => alias_row i (N.succ i) x r ++ alias_pairs_from (N.succ i) r
  end.

Definition alias_pairs (st : store) : list (N * N) := alias_pairs_from 0%N (objs st).

(* ---------------------------------------------------------------------------------------- *)
(* printing of atoms (print_expression and code_str agree on these)                           *)

Inductive printed :=
| PText (s : string)
| PValue.             (* the SI value of an unnamed quantity, e.g. "5.0*m" *)

Fixpoint has_prefix (p s : string) : bool :=
  match p, s with
  | EmptyString, _ => true
  | String a p', String b s' => Ascii.eqb a b && has_prefix p' s'
  | String _ _, EmptyString => false
  end.

Fixpoint contains (p s : string) : bool :=
  has_prefix p s || match s with EmptyString => false | String _ s' => contains p s' end.

(* Symbol -> x ; IndexedSymbol -> x[i] (default index "i") ; Function applied to a plain symbol t -> x(t) ;
   Quantity -> display unless it contains "QTY" (quantities.py:74), then the value ;
   coordinate systems have no display name ; vectors print as symbols *)
Definition pp_name (o : obj) : option string :=
  match okind o with
  | KCoordSys => Some (oname o)
  | KQuantity => if contains "QTY" (odisplay o) then None else Some (odisplay o)
  | _ => Some (odisplay o)
  end.

Definition decorate (k : kind) (s : string) : string :=
  match k with
  | KIndexed => s ++ "[i]"
  | KFunction => s ++ "(t)"
  | _ => s
  end.

Definition pp (o : obj) : printed :=
  match pp_name o with
  | Some s => PText (decorate (okind o) s)
  | None => PValue
  end.

(* the object printed WITHOUT decoration (an IndexedSymbol without its index: the base itself, as it occurs in [m, E], Eq(m, E),
   Tuple(m, 2); a Function that is not applied -- SymbolPrinter._print_UndefinedFunction): still the display name *)
Definition pp_bare (o : obj) : printed :=
  match okind o with
  | KIndexed | KFunction => match pp_name o with Some s => PText s | None => PValue end
  | _ => pp o
  end.

Definition printed_eqb (a b : printed) : bool :=
  match a, b with
  | PText x, PText y => String.eqb x y
  | PValue, PValue => true
  | _, _ => false
  end.

(* ---------------------------------------------------------------------------------------- *)
(* a small expression language over internal names                                            *)

Inductive expr :=
| ENum (q : Q)
| EVar (x : string)
| EAdd (a b : expr)
| EMul (a b : expr)
| ENeg (a : expr)
| EDiv (a b : expr).

Fixpoint subs (x : string) (v : expr) (e : expr) : expr :=
  match e with
  | ENum q => ENum q
  | EVar y => if String.eqb x y then v else EVar y
  | EAdd a b => EAdd (subs x v a) (subs x v b)
  | EMul a b => EMul (subs x v a) (subs x v b)
  | ENeg a => ENeg (subs x v a)
  | EDiv a b => EDiv (subs x v a) (subs x v b)
  end.

Fixpoint free (e : expr) : list string :=
  match e with
  | ENum _ => []
  | EVar y => [y]
  | EAdd a b | EMul a b | EDiv a b => free a ++ free b
  | ENeg a => free a
  end.

(* d/dx with all leaves independent *)
Fixpoint diff (x : string) (e : expr) : expr :=
  match e with
  | ENum _ => ENum 0
  | EVar y => if String.eqb x y then ENum 1 else ENum 0
  | EAdd a b => EAdd (diff x a) (diff x b)
  | EMul a b => EAdd (EMul (diff x a) b) (EMul a (diff x b))
  | ENeg a => ENeg (diff x a)
  | EDiv a b => EDiv (EAdd (EMul (diff x a) b) (ENeg (EMul a (diff x b)))) (EMul b b)
  end.

Definition env := list (string * Q).

Fixpoint env_get (x : string) (r : env) : Q :=
  match r with
  | [] => 0
  | (y, v) :: t => if String.eqb x y then v else env_get x t
  end.

Fixpoint eval (r : env) (e : expr) : Q :=
  match e with
  | ENum q => q
  | EVar x => env_get x r
  | EAdd a b => eval r a + eval r b
  | EMul a b => eval r a * eval r b
  | ENeg a => - eval r a
  | EDiv a b => eval r a / eval r b
  end.

(* a*x + b*y  and its solution for x *)
Definition lin2 (a x b y : string) : expr := EAdd (EMul (EVar a) (EVar x)) (EMul (EVar b) (EVar y)).
Definition solve_lin2 (a b y : string) : expr := EDiv (ENeg (EMul (EVar b) (EVar y))) (EVar a).

(* ---------------------------------------------------------------------------------------- *)
(* observation record compared with the implementation                                        *)

Record seen := mkseen {
  s_kind : kind; s_name : string; s_display : string; s_latex : string; s_dim : dim; s_assum : assum;
  s_print : printed;     (* print_expression *)
  s_code : printed;      (* code_str *)
  s_bare : printed       (* print_expression of the undecorated object *)
}.

Definition see (o : obj) : seen :=
  mkseen (okind o) (oname o) (odisplay o) (olatex o) (odim o) (oassum o) (pp o) (pp o) (pp_bare o).

Definition seen_eqb (a b : seen) : bool :=
  kind_eqb (s_kind a) (s_kind b) && String.eqb (s_name a) (s_name b) &&
  String.eqb (s_display a) (s_display b) && String.eqb (s_latex a) (s_latex b) &&
  deqb (s_dim a) (s_dim b) && assum_eqb (s_assum a) (s_assum b) &&
  printed_eqb (s_print a) (s_print b) && printed_eqb (s_code a) (s_code b) && printed_eqb (s_bare a) (s_bare b).

(* multiset equality of printed terms (order of terms in a sum is not part of the property) *)
Fixpoint remove_one (x : string) (l : list string) : option (list string) :=
  match l with
  | [] => None
  | y :: r => if String.eqb x y then Some r
              else match remove_one x r with Some r' => Some (y :: r') | None => None end
  end.

Fixpoint perm_eqb (a b : list string) : bool :=
  match a with
  | [] => match b with [] => true | _ => false end
  | x :: r => match remove_one x b with Some b' => perm_eqb r b' | None => false end
  end.

Definition term_text (o : obj) : string := match pp o with PText s => s | PValue => "<value>" end.

(* the terms of the printed sum of the objects at the given store positions *)
Definition sum_terms (st : store) (idx : list nat) : list string :=
  flat_map (fun i => match nth_error (objs st) i with Some o => [term_text o] | None => [] end) idx.

(* algebra probe on a*x + b*y at positions (a, x, b, y): values of subs(x:=7), d/dx, solve for x *)
Definition name_at (st : store) (i : nat) : string :=
  match nth_error (objs st) i with Some o => oname o | None => "" end.

Definition algebra_probe (st : store) (r : env) (ia ix ib iy : nat) : Q * Q * Q :=
  let a := name_at st ia in let x := name_at st ix in
  let b := name_at st ib in let y := name_at st iy in
  let e := lin2 a x b y in
  (eval r (subs x (ENum 7) e), eval r (diff x e), eval r (solve_lin2 a b y)).

(* one correspondence case *)
Record ccase := mkcase {
  c_ids : state;                       (* _ids before the sequence *)
  c_ops : list sop;
  c_seen : list seen;                  (* observed objects, in creation order *)
  c_ids_after : state;                 (* _ids after the sequence *)
  c_alias : list (N * N);              (* observed i<j with obj_i == obj_j *)
  c_sums : list (list nat * list string);          (* positions, observed printed terms *)
  c_env : env;
  c_algebra : list ((nat * nat * nat * nat) * (Q * Q * Q))
}.

Definition pair_eqb (a b : N * N) : bool := N.eqb (fst a) (fst b) && N.eqb (snd a) (snd b).

Definition q3_eqb (a b : Q * Q * Q) : bool :=
  Qeq_bool (fst (fst a)) (fst (fst b)) && Qeq_bool (snd (fst a)) (snd (fst b)) && Qeq_bool (snd a) (snd b).

(* which part of a case disagrees: 0 none, 1 objects, 2 counters, 3 aliasing, 4 sums, 5 algebra *)
Definition check_case_code (c : ccase) : N :=
  let st := run (c_ops c) (mkstore (c_ids c) []) in
  if negb (list_eqb seen_eqb (map see (objs st)) (c_seen c)) then 1%N
  else if negb (state_eqb (ids st) (c_ids_after c)) then 2%N
  else if negb (list_eqb pair_eqb (alias_pairs st) (c_alias c)) then 3%N
  else if negb (forallb (fun s => perm_eqb (sum_terms st (fst s)) (snd s)) (c_sums c)) then 4%N
  else if negb (forallb (fun p => let '(ia, ix, ib, iy) := fst p in
                                  q3_eqb (algebra_probe st (c_env c) ia ix ib iy) (snd p)) (c_algebra c)) then 5%N
  else 0%N.

Definition check_case (c : ccase) : bool := N.eqb (check_case_code c) 0.
