(* The sign claim a symplyphysics Quantity publishes to SymPy (symplyphysics/core/symbols/quantities.py):

     def _eval_is_positive(self):
         try:    return scale_factor(self) >= 0        # float(self.scale_factor) >= 0
         except TypeError: return False                # complex values, zoo

   SymPy consults it while an expression is being BUILT (Max(q, 0) -> q, Min(q, 0) -> 0, Abs(q) -> q, sqrt(q**2) -> q):
   what Quantity(expr) receives is the rewritten tree, so the claim is part of "the value of the expression".
   None = the value class does not determine the answer (VOther covers positive irrationals -> True and complex
   numbers -> False; the correspondence stream does not generate them). *)
From Coq Require Import QArith Bool.
From VP Require Import Base.Val.

Definition qty_is_positive (v : val) : option bool :=
  match v with
  | VQ q => Some (Qle_bool 0 q)
  | VFloat0 => Some true          (* float(0.0) >= 0 *)
  | VPInf => Some true            (* float(oo) = inf >= 0 *)
  | VNInf => Some false
  | VNaN => Some false            (* nan >= 0 is False *)
  | VZoo => Some false            (* float(zoo) raises TypeError *)
  | VSym => Some false            (* float(symbolic) raises TypeError *)
  | VOther => None
  end.
