(* Executable model of symplyphysics/core/symbols/id_generator.py (+ symbols.py:189 next_name).

     _ids: dict[str, int] = {}                       state   (prefix -> last id handed out)
     def next_id(base=""):                           next_id
         id_val = _ids.get(base)
         id_val = 1 if id_val is None else id_val + 1
         _ids[base] = id_val
         return id_val
     def last_id(base): return _ids[base]            last_id (KeyError = None)
     def next_name(name): return name + str(next_id(name))

   Python's str(int) for a non-negative int is modelled by [dec]; string comparison (code-point
   lexicographic; all generated names are ASCII) by [str_ltb].  No proofs here. *)
From Coq Require Import List NArith String Ascii Bool.
Import ListNotations.
Open Scope N_scope.

(* ---------------------------------------------------------------------------------------- *)
(* decimal printing                                                                          *)

(* most significant digit first; fuel = number of bits of n + 1 (always enough, IdsProofs.digits_eqn) *)
Fixpoint digits_f (fuel : nat) (n : N) : list N :=
  match fuel with
  | O => [n]
  | S f => if n <? 10 then [n] else digits_f f (n / 10) ++ [n mod 10]
  end.

Definition digits (n : N) : list N := digits_f (S (N.to_nat (N.size n))) n.

Definition digit_char (d : N) : ascii := ascii_of_N (48 + d).

Fixpoint str_of_digits (l : list N) : string :=
  match l with
  | [] => EmptyString
  | d :: r => String (digit_char d) (str_of_digits r)
  end.

(* str(n) *)
Definition dec (n : N) : string := str_of_digits (digits n).

Definition ndig (n : N) : nat := List.length (digits n).

Definition is_digit (c : ascii) : bool :=
  let n := N_of_ascii c in (48 <=? n) && (n <=? 57).

Fixpoint digit_free (s : string) : bool :=
  match s with
  | EmptyString => true
  | String c r => negb (is_digit c) && digit_free r
  end.

Fixpoint all_digits (s : string) : bool :=
  match s with
  | EmptyString => true
  | String c r => is_digit c && all_digits r
  end.

(* Python's `a < b` on (ASCII) strings *)
Fixpoint str_ltb (a b : string) : bool :=
  match a, b with
  | EmptyString, EmptyString => false
  | EmptyString, String _ _ => true
  | String _ _, EmptyString => false
  | String x a', String y b' =>
      let nx := N_of_ascii x in
      let ny := N_of_ascii y in
      if nx <? ny then true else if ny <? nx then false else str_ltb a' b'
  end.

(* the same order on digit lists *)
Fixpoint lex_ltb (a b : list N) : bool :=
  match a, b with
  | [], [] => false
  | [], _ :: _ => true
  | _ :: _, [] => false
  | x :: a', y :: b' => if x <? y then true else if y <? x then false else lex_ltb a' b'
  end.

(* ---------------------------------------------------------------------------------------- *)
(* the counter state                                                                          *)

Definition state := list (string * N).

Fixpoint lookup (p : string) (s : state) : option N :=
  match s with
  | [] => None
  | (q, v) :: r => if String.eqb p q then Some v else lookup p r
  end.

(* dict assignment: replace the binding if present, else append (insertion order as in a Python dict) *)
Fixpoint update (p : string) (v : N) (s : state) : state :=
  match s with
  | [] => [(p, v)]
  | (q, w) :: r => if String.eqb p q then (q, v) :: r else (q, w) :: update p v r
  end.

Definition next_val (p : string) (s : state) : N :=
  match lookup p s with
  | None => 1
  | Some v => v + 1
  end.

Definition next_id (p : string) (s : state) : N * state :=
  let v := next_val p s in (v, update p v s).

Definition last_id (p : string) (s : state) : option N := lookup p s.

Definition mk_name (p : string) (v : N) : string := (p ++ dec v)%string.

Definition next_name (p : string) (s : state) : string * state :=
  let '(v, s') := next_id p s in (mk_name p v, s').

(* ---------------------------------------------------------------------------------------- *)
(* histories                                                                                  *)

Inductive op :=
| NextId (p : string)      (* next_id(p); callers build the name p' + str(id) themselves *)
| NextName (p : string)    (* next_name(p) *)
| LastId (p : string).     (* last_id(p), read only *)

Definition op_prefix (o : op) : string :=
  match o with NextId p | NextName p | LastId p => p end.

Definition allocates (o : op) : bool :=
  match o with LastId _ => false | _ => true end.

Definition step (o : op) (s : state) : state :=
  match o with
  | NextId p | NextName p => snd (next_id p s)
  | LastId _ => s
  end.

Fixpoint final (h : list op) (s : state) : state :=
  match h with
  | [] => s
  | o :: r => final r (step o s)
  end.

(* (prefix, id) pairs handed out by a history started in state s *)
Fixpoint run_ids (h : list op) (s : state) : list (string * N) :=
  match h with
  | [] => []
  | o :: r =>
      if allocates o
      then (op_prefix o, next_val (op_prefix o) s) :: run_ids r (step o s)
      else run_ids r (step o s)
  end.

(* the names generated by a history started in state s *)
Definition run (h : list op) (s : state) : list string :=
  map (fun pv => mk_name (fst pv) (snd pv)) (run_ids h s).

(* what the Python caller observes, op by op (for the correspondence check) *)
Inductive obs :=
| ONum (n : N)
| OName (s : string)
| OKeyError.

Fixpoint run_obs (h : list op) (s : state) : list obs :=
  match h with
  | [] => []
  | o :: r =>
      (match o with
       | NextId p => ONum (next_val p s)
       | NextName p => OName (mk_name p (next_val p s))
       | LastId p => match last_id p s with Some v => ONum v | None => OKeyError end
       end) :: run_obs r (step o s)
  end.

Definition obs_eqb (a b : obs) : bool :=
  match a, b with
  | ONum x, ONum y => N.eqb x y
  | OName x, OName y => String.eqb x y
  | OKeyError, OKeyError => true
  | _, _ => false
  end.

Fixpoint list_eqb {A} (f : A -> A -> bool) (a b : list A) : bool :=
  match a, b with
  | [], [] => true
  | x :: a', y :: b' => f x y && list_eqb f a' b'
  | _, _ => false
  end.

Definition state_eqb (a b : state) : bool :=
  list_eqb (fun x y => String.eqb (fst x) (fst y) && N.eqb (snd x) (snd y)) a b.

(* ---------------------------------------------------------------------------------------- *)
(* windows of consecutive names                                                               *)

(* the j-th name (1-based) allocated for prefix p from counter value n *)
Definition wname (p : string) (n j : N) : string := mk_name p (n + j).

(* order pattern of a window: the matrix of [str_ltb] over offsets 1..k *)
Definition offsets (k : N) : list N := map N.of_nat (seq 1 (N.to_nat k)).

Definition pattern (p : string) (n k : N) : list (list bool) :=
  map (fun i => map (fun j => str_ltb (wname p n i) (wname p n j)) (offsets k)) (offsets k).

(* what the pattern is claimed to be: longer numerals first, then numeric order *)
Definition order_spec (di : nat) (i : N) (dj : nat) (j : N) : bool :=
  Nat.ltb dj di || (Nat.eqb di dj && (i <? j)).

Definition small_window (n k : N) : Prop := n + k < 10 * (n + 1).
Definition small_windowb (n k : N) : bool := n + k <? 10 * (n + 1).

(* executable: is m a power of ten *)
Definition is_pow10 (m : N) : bool :=
  match digits m with
  | d :: r => (d =? 1) && forallb (fun x => x =? 0) r
  | [] => false
  end.

(* positions (offsets) of the powers of ten inside (n, n+k] *)
Definition pow10_positions (n k : N) : list N :=
  filter (fun j => is_pow10 (n + j)) (offsets k).

(* the representative counter states for a module that allocates k names with a prefix:
   10^m - j for 1 <= m <= mmax, 0 <= j <= k (the power of ten falls at every possible offset,
   or just before the window), plus whatever generic state the caller adds *)
Definition boundary_states (mmax : nat) (k : N) : list N :=
  flat_map (fun m => map (fun j => 10 ^ N.of_nat m - j) (0 :: offsets k)) (seq 1 mmax).

(* is a list of names in strictly increasing lexicographic order (used to tie SymPy's canonical argument order) *)
Fixpoint sorted_ltb (l : list string) : bool :=
  match l with
  | [] => true
  | x :: r => match r with [] => true | y :: _ => str_ltb x y && sorted_ltb r end
  end.
