(* Integrands built by symplyphysics/core/fields/analysis.py (the code builds integrands; SymPy integrates).

   Variables: curve parameter t = q0; surface parameters (u, v) = (q0, q1).
   The trajectory / surface components are generic fields 11,12,13 of the parameters  (Xs k = TJ (11+k) 0 0 0),
   the vector field components F1..F3 are generic fields of the CARTESIAN point evaluated on the trajectory /
   surface (TK 1..3, chain rule through `Dvia (Xn n)`).  Component lists shorter than three are zero-padded, as
   dot_vectors (zip) / cross_cartesian_vectors (_extend_two_vectors) effectively do.
   Volume integrals are non-parametrised: coordinates q0 q1 q2 of the system, field = gen_vector 3.
   No proofs in this file. *)
From Coq Require Import ZArith Reals List.
From VP Require Import Model.DiffAlg Model.Ops.
Import ListNotations.
Local Open Scope R_scope.

Definition Xs (k : nat) : tx := TJ (11 + k) 0 0 0.
Definition traj (n : nat) : list tx := map Xs (seq 0 n).                       (* n = 2 or 3 components *)
(* the map the field is composed with: a missing third component is the constant 0 (Point.coordinate) *)
Definition Xn (n k : nat) : tx := if Nat.ltb k n then Xs k else T0.
Definition Fat (m : nat) : list tx := map (fun k => TK k 0 0 0) (seq 1 m).     (* field.apply(trajectory) *)

Definition dot3 (a b : tx3) : tx :=
  let '(a1, a2, a3) := a in let '(b1, b2, b3) := b in
  TAdd (TAdd (TMul a1 b1) (TMul a2 b2)) (TMul a3 b3).
Definition cross3 (a b : tx3) : tx3 :=                                          (* cross_cartesian_vectors *)
  let '(a1, a2, a3) := a in let '(b1, b2, b3) := b in
  (TSub (TMul a2 b3) (TMul a3 b2), TSub (TMul a3 b1) (TMul a1 b3), TSub (TMul a1 b2) (TMul a2 b1)).
Definition c3 (i : nat) (v : tx3) : tx :=
  match i with 0%nat => fst (fst v) | 1%nat => snd (fst v) | _ => snd v end.

(* elements.py : parametrized_curve_element = d trajectory / d parameter *)
Definition tangent (i : nat) (n : nat) : tx3 := map3 (D i) (pad3 (traj n)).
(* normals.py : parametrized_surface_normal = dS/dp1 x dS/dp2 *)
Definition surf_normal (n : nat) : tx3 := cross3 (tangent 0 n) (tangent 1 n).
(* normals.py : parametrized_curve_normal = T x k   (outward for a counter-clockwise planar curve) *)
Definition khat : tx3 := (T0, T0, T1).
Definition curve_normal (i : nat) (n : nat) : tx3 := cross3 (tangent i n) khat.

(* analysis.py 12-23 : circulation_along_curve, parameter q_i *)
Definition line_integrand (i m n : nat) : tx := dot3 (pad3 (Fat m)) (tangent i n).
(* analysis.py 63-78 : flux_across_surface *)
Definition flux_surface_integrand (m n : nat) : tx := dot3 (pad3 (Fat m)) (surf_normal n).
(* analysis.py 28-37 : flux_across_surface o curl_operator;  curl taken in the Cartesian variables, then applied
   to the surface *)
Definition curl_at (m n : nat) : tx3 := map3 (comp (Xn n)) (curl_cart D (gen_vector m)).
Definition stokes_surface_integrand (m n : nat) : tx := dot3 (curl_at m n) (surf_normal n).
(* analysis.py 42-60 : flux_across_curve; the code multiplies (F . n/|n|) by |T|, and |n| = |T| for a planar curve:
   FormsProofs.flux_curve_normalisation *)
Definition flux_curve_integrand (i m n : nat) : tx := dot3 (pad3 (Fat m)) (curve_normal i n).
(* analysis.py 82-96 : flux_across_surface_boundary, as the divergence theorem needs it: (div F) o S * |S_u x S_v| ;
   jac_det is the z-component of the normal of a planar surface, the element magnitude is its absolute value *)
Definition div_at (m n : nat) : tx := comp (Xn n) (div_cart D (gen_vector m)).
Definition jac_det : tx := c3 2 (surf_normal 2).
Definition norm3 (v : R3) : R := let '(a, b, c) := v in sqrt (a * a + b * b + c * c).       (* vector_magnitude *)
Definition flux_boundary_integrand (rho : val) (m n : nat) : R :=
  ev rho (div_at m n) * norm3 (ev3 rho (surf_normal n)).

(* analysis.py 103-119 : flux_across_volume_boundary = div F * volume element (elements.py 17-28) *)
Definition vol_elem (s : sys) : tx :=
  match s with
  | Cart => T1
  | Cyl => q0
  | Sph => TMul (TMul q0 q0) (TSin 2)
  end.
Definition volume_integrand (s : sys) : tx := TMul (div s D (gen_vector 3)) (vol_elem s).
Definition volume_integrand_code : tx := TMul (div_sph_code D (gen_vector 3)) (vol_elem Sph).
(* the divergence theorem's integrand on a coordinate box:  d_1 (h2 h3 F1) + d_2 (h1 h3 F2) + d_3 (h1 h2 F3) *)
Definition gauss_integrand (s : sys) : tx :=
  let F k := TJ k 0 0 0 in
  TAdd (TAdd (D 0 (TMul (TMul (lame s 1) (lame s 2)) (F 1%nat)))
             (D 1 (TMul (TMul (lame s 0) (lame s 2)) (F 2%nat))))
       (D 2 (TMul (TMul (lame s 0) (lame s 1)) (F 3%nat))).

(* reparametrisation t = phi(s):  phi = field 20 of s = q0;  the curve components are now functions of t evaluated
   at phi(s) (TK 11..13 with the one-variable map), the field values on the curve are TK 1..3 (not differentiated) *)
Definition phi : tx := TJ 20 0 0 0.
Definition Xphi (k : nat) : tx := match k with 0%nat => phi | _ => T0 end.
Definition curve_at_phi (n : nat) : list tx := map (fun k => TK (11 + k) 0 0 0) (seq 0 n).
Definition curve_velocity_at_phi (n : nat) : tx3 := pad3 (map (fun k => TK (11 + k) 1 0 0) (seq 0 n)).
Definition reparam_integrand (m n : nat) : tx :=
  dot3 (pad3 (Fat m)) (map3 (Dvia Xphi 0) (pad3 (curve_at_phi n))).
Definition original_integrand_at_phi (m n : nat) : tx :=
  dot3 (pad3 (Fat m)) (curve_velocity_at_phi n).
