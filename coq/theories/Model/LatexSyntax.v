(* Reference reader for the LaTeX rendering of formulas (property C18).

     wellformed_tex : string -> bool                       braces and \left/\right obey a stack discipline
     parse_tex      : list string -> string -> option aexpr     "read as mathematics"

   parse_tex reads: numbers, known symbol names (longest match, given by the caller), \frac{}{}, \sqrt[n]{},
   ^{} powers, juxtaposition and \cdot as product, + - signs, =, \left( \right), plain ( ), { } groups,
   \left| \right| as Abs, function macros (\sin ... \log_{b} ... \operatorname{f}) applied to a bracket group.
   Precedence is that of ordinary mathematical notation:  = | + - | juxtaposition | ^ ;  a leading minus applies
   to the whole first term (- a b = -(a b)); a term after + or - may carry one sign of its own (a - - b).
   Blanks are insignificant as in TeX: numerals separated only by blanks are rejected (they would typeset as one number).  The result is an `aexpr` of Model/CodeSyntax.v, evaluated by `aeval`.
   It contains no knowledge of symplyphysics' printer. *)
From Coq Require Import String Ascii List ZArith NArith Bool Arith.
From VP Require Import Model.CodeSyntax.
Import ListNotations.
Local Open Scope string_scope.

(* ------------------------------------------------------------------------------------------------ *)
(* well-formedness: a scanner that knows nothing about names                                        *)
(* ------------------------------------------------------------------------------------------------ *)

Inductive btok : Type := BO | BC | LO | LC.      (* {  }  \left<delim>  \right<delim> *)

Definition is_letter (c : ascii) : bool :=
  let n := nat_of_ascii c in ((65 <=? n)%nat && (n <=? 90)%nat) || ((97 <=? n)%nat && (n <=? 122)%nat).

Inductive bstate : Type :=
| SNorm                      (* ordinary text *)
| SCmd (acc : string)        (* after a backslash, letters read so far *)
| SDelim (l : bool)          (* after \left (true) / \right (false): the delimiter is expected *)
| SDCmd (seen : bool).       (* inside a delimiter given as a control sequence: \left\{  \left\langle *)

Definition bnorm (c : ascii) : list btok * bstate :=
  if Ascii.eqb c "\" then ([], SCmd "")
  else if Ascii.eqb c "{" then ([BO], SNorm)
  else if Ascii.eqb c "}" then ([BC], SNorm)
  else ([], SNorm).

Definition bdelim (l : bool) (c : ascii) : list btok * bstate :=
  if is_space c then ([], SDelim l)
  else if Ascii.eqb c "\" then ([if l then LO else LC], SDCmd false)
  else ([if l then LO else LC], SNorm).

Definition bstep (st : bstate) (c : ascii) : list btok * bstate :=
  match st with
  | SNorm => bnorm c
  | SCmd acc =>
      if is_letter c then ([], SCmd (acc ++ String c ""))
      else if (acc =? "")%string then ([], SNorm)                 (* escaped character: \{ \} \, \\ \| *)
      else if (acc =? "left")%string then bdelim true c
      else if (acc =? "right")%string then bdelim false c
      else bnorm c
  | SDelim l => bdelim l c
  | SDCmd seen =>
      if is_letter c then ([], SDCmd true)
      else if seen then bnorm c else ([], SNorm)
  end.

Definition bfinal (st : bstate) : list btok :=
  match st with
  | SCmd acc => if (acc =? "left")%string then [LO] else if (acc =? "right")%string then [LC] else []
  | SDelim l => [if l then LO else LC]
  | _ => []
  end.

Fixpoint bscan (st : bstate) (s : string) : list btok :=
  match s with
  | EmptyString => bfinal st
  | String c r => let (out, st') := bstep st c in out ++ bscan st' r
  end.

(* stack discipline: true = an open brace, false = an open \left *)
Fixpoint bcheck (st : list bool) (l : list btok) : bool :=
  match l with
  | [] => match st with [] => true | _ => false end
  | BO :: r => bcheck (true :: st) r
  | LO :: r => bcheck (false :: st) r
  | BC :: r => match st with true :: st' => bcheck st' r | _ => false end
  | LC :: r => match st with false :: st' => bcheck st' r | _ => false end
  end.

Definition wellformed_tex (s : string) : bool := bcheck [] (bscan SNorm s).

(* ------------------------------------------------------------------------------------------------ *)
(* reader: tokens                                                                                    *)
(* ------------------------------------------------------------------------------------------------ *)

Inductive ttok : Type :=
| XNum (m : N) (e : Z)
| XName (s : string)            (* a known symbol name *)
| XCmd (s : string)             (* control word  \name *)
| XLeft (d : string) | XRight (d : string)       (* \left( \right| ... with the delimiter *)
| XLB | XRB | XLP | XRP | XLSq | XRSq
| XPlus | XMinus | XEq | XCaret | XUnder | XComma | XBar
| XWord (s : string)            (* letters not covered by a known name (e.g. the argument of \operatorname) *)
| XOther (c : ascii).

(* a name that ends in a control word must not be followed by a letter (\in is not a prefix of \int) *)
Fixpoint ends_in_cmd_aux (s : string) (in_cmd : bool) : bool :=
  match s with
  | EmptyString => in_cmd
  | String c r =>
      if Ascii.eqb c "\" then ends_in_cmd_aux r true
      else if is_letter c then ends_in_cmd_aux r in_cmd
      else ends_in_cmd_aux r false
  end.
Definition ends_in_cmd (s : string) : bool := ends_in_cmd_aux s false.

Fixpoint match_tex_name (names : list string) (s : string) (best : option (string * string)) : option (string * string) :=
  match names with
  | [] => best
  | nm :: more =>
      let ok :=
        match strip_prefix nm s with
        | Some rest =>
            if (0 <? String.length nm)%nat then
              match rest with
              | String c _ => if (ends_in_cmd nm && is_letter c)%bool then None else Some rest
              | EmptyString => Some rest
              end
            else None
        | None => None
        end in
      let best' :=
        match ok with
        | Some rest =>
            match best with
            | Some (b, _) => if (String.length b <? String.length nm)%nat then Some (nm, rest) else best
            | None => Some (nm, rest)
            end
        | None => best
        end in
      match_tex_name more s best'
  end.

(* decimal literal without exponent part:  digits [ . digits ] *)
Definition tex_number (s : string) : token * string :=
  let (ip, r1) := span is_digit s in
  let (fp, r2) := lex_frac r1 in
  (TNum (digits_val (digits_val 0 ip) fp) (- Z.of_nat (String.length fp))%Z, r2).

Definition tsym (c : ascii) : ttok :=
  if Ascii.eqb c "{" then XLB else if Ascii.eqb c "}" then XRB else
  if Ascii.eqb c "(" then XLP else if Ascii.eqb c ")" then XRP else
  if Ascii.eqb c "[" then XLSq else if Ascii.eqb c "]" then XRSq else
  if Ascii.eqb c "+" then XPlus else if Ascii.eqb c "-" then XMinus else
  if Ascii.eqb c "=" then XEq else if Ascii.eqb c "^" then XCaret else
  if Ascii.eqb c "_" then XUnder else if Ascii.eqb c "," then XComma else
  if Ascii.eqb c "|" then XBar else XOther c.

(* the delimiter after \left / \right : one character, or a backslash-escaped character / control word *)
Definition tex_delim (s : string) : option (string * string) :=
  let s := snd (span is_space s) in
  match s with
  | String c r =>
      if Ascii.eqb c "\" then
        match r with
        | String c1 r1 =>
            if is_letter c1 then let (w, r2) := span is_letter r in Some (String "\" w, r2)
            else Some (String "\" (String c1 ""), r1)
        | EmptyString => None
        end
      else Some (String c "", r)
  | EmptyString => None
  end.

Definition next_is_digit (s : string) : bool :=
  match s with String c _ => is_digit c | EmptyString => false end.

Inductive tlres : Type := TLOk (ts : list ttok) | TLErr | TLOof.
Definition tlcons (t : ttok) (r : tlres) : tlres := match r with TLOk ts => TLOk (t :: ts) | e => e end.

Fixpoint tlex_fuel (n : nat) (names : list string) (s : string) : tlres :=
  match n with
  | O => TLOof
  | S n =>
    match s with
    | EmptyString => TLOk []
    | String c r =>
        if is_space c then tlex_fuel n names r else
        match match_tex_name names s None with
        | Some (nm, rest) => tlcons (XName nm) (tlex_fuel n names rest)
        | None =>
            if is_digit c then
              match tex_number s with
              | (TNum m e, rest) =>
                  (* TeX discards blanks in math mode: "2 3^{a}" typesets as 23^a.  Two numerals separated only by
                     blanks are therefore NOT a product; the reader rejects them instead of guessing. *)
                  if next_is_digit (snd (span is_space rest)) then TLErr
                  else tlcons (XNum m e) (tlex_fuel n names rest)
              | _ => TLErr
              end
            else if is_letter c then
              let (w, rest) := span is_letter s in tlcons (XWord w) (tlex_fuel n names rest)
            else if Ascii.eqb c "\" then
              match r with
              | String c1 r1 =>
                  if is_letter c1 then
                    let (w, rest) := span is_letter r in
                    if (w =? "left")%string then
                      match tex_delim rest with
                      | Some (d, rest') => tlcons (XLeft d) (tlex_fuel n names rest')
                      | None => TLErr
                      end
                    else if (w =? "right")%string then
                      match tex_delim rest with
                      | Some (d, rest') => tlcons (XRight d) (tlex_fuel n names rest')
                      | None => TLErr
                      end
                    else if (w =? "operatorname")%string then
                      (* \operatorname{word}: the word is a function name, never a product of symbols *)
                      match snd (span is_space rest) with
                      | String c2 r2 =>
                          if Ascii.eqb c2 "{" then
                            let (f, r3) := span is_letter r2 in
                            match r3 with
                            | String c3 r4 =>
                                if Ascii.eqb c3 "}" then
                                  tlcons (XCmd w) (tlcons XLB (tlcons (XWord f) (tlcons XRB (tlex_fuel n names r4))))
                                else TLErr
                            | EmptyString => TLErr
                            end
                          else TLErr
                      | EmptyString => TLErr
                      end
                    else tlcons (XCmd w) (tlex_fuel n names rest)
                  else
                    (* \, \; \! \: \space : spacing, dropped;  other escaped characters are kept as commands *)
                    if (Ascii.eqb c1 "," || Ascii.eqb c1 ";" || Ascii.eqb c1 "!" || Ascii.eqb c1 ":" || Ascii.eqb c1 " ")%bool
                    then tlex_fuel n names r1
                    else tlcons (XCmd (String c1 "")) (tlex_fuel n names r1)
              | EmptyString => TLErr
              end
            else tlcons (tsym c) (tlex_fuel n names r)
        end
    end
  end.

Definition tlex (names : list string) (s : string) : option (list ttok) :=
  match tlex_fuel (S (String.length s)) names s with TLOk ts => Some ts | _ => None end.

(* ------------------------------------------------------------------------------------------------ *)
(* reader: grammar                                                                                   *)
(* ------------------------------------------------------------------------------------------------ *)

(* function macros and the head they denote (heads known to CodeSyntax.fun_val are interpreted there) *)
Definition tex_fun (w : string) : option string :=
  if (w =? "sin") then Some "sin" else if (w =? "cos") then Some "cos" else if (w =? "tan") then Some "tan" else
  if (w =? "cot") then Some "cot" else if (w =? "sec") then Some "sec" else if (w =? "csc") then Some "csc" else
  if (w =? "sinh") then Some "sinh" else if (w =? "cosh") then Some "cosh" else if (w =? "tanh") then Some "tanh" else
  if (w =? "coth") then Some "coth" else
  if (w =? "arcsin") then Some "asin" else if (w =? "arccos") then Some "acos" else if (w =? "arctan") then Some "atan" else
  if (w =? "exp") then Some "exp" else if (w =? "log") then Some "log" else if (w =? "ln") then Some "log" else None.

(* does this token start a factor (so that juxtaposition means a product)? *)
Definition starts_factor (t : ttok) : bool :=
  match t with
  | XNum _ _ | XName _ | XLB | XLP | XLeft _ => true
  | XCmd w =>
      match tex_fun w with
      | Some _ => true
      | None => (w =? "frac") || (w =? "sqrt") || (w =? "operatorname") || (w =? "pi") || (w =? "infty")
      end
  | _ => false
  end.

Definition is_times (t : ttok) : bool :=
  match t with XCmd w => (w =? "cdot") || (w =? "times") | _ => false end.

Definition apply_pow (b : aexpr) (p : option aexpr) : aexpr :=
  match p with Some e => ABin OPow b e | None => b end.

Fixpoint t_sum (n : nat) (ts : list ttok) {struct n} : pres (aexpr * list ttok) :=
  match n with
  | O => POof
  | S n =>
      match ts with
      | XMinus :: r =>
          match t_prod n r with
          | POk (a, r') => t_sum_rest n (ANeg a) r'
          | PErr => PErr | POof => POof
          end
      | _ =>
          match t_prod n ts with
          | POk (a, r') => t_sum_rest n a r'
          | PErr => PErr | POof => POof
          end
      end
  end

with t_sum_rest (n : nat) (lhs : aexpr) (ts : list ttok) {struct n} : pres (aexpr * list ttok) :=
  match n with
  | O => POof
  | S n =>
      match ts with
      | XPlus :: XMinus :: r =>          (* a + - b *)
          match t_prod n r with
          | POk (a, r') => t_sum_rest n (ABin OAdd lhs (ANeg a)) r'
          | PErr => PErr | POof => POof
          end
      | XPlus :: r =>
          match t_prod n r with
          | POk (a, r') => t_sum_rest n (ABin OAdd lhs a) r'
          | PErr => PErr | POof => POof
          end
      | XMinus :: XMinus :: r =>         (* a - - b : subtraction of a negated term *)
          match t_prod n r with
          | POk (a, r') => t_sum_rest n (ABin OSub lhs (ANeg a)) r'
          | PErr => PErr | POof => POof
          end
      | XMinus :: r =>
          match t_prod n r with
          | POk (a, r') => t_sum_rest n (ABin OSub lhs a) r'
          | PErr => PErr | POof => POof
          end
      | _ => POk (lhs, ts)
      end
  end

with t_prod (n : nat) (ts : list ttok) {struct n} : pres (aexpr * list ttok) :=
  match n with
  | O => POof
  | S n =>
      match t_pow n ts with
      | POk (a, r) => t_prod_rest n a r
      | PErr => PErr | POof => POof
      end
  end

with t_prod_rest (n : nat) (lhs : aexpr) (ts : list ttok) {struct n} : pres (aexpr * list ttok) :=
  match n with
  | O => POof
  | S n =>
      match ts with
      | t :: r =>
          if is_times t then
            match t_pow n r with
            | POk (a, r') => t_prod_rest n (ABin OMul lhs a) r'
            | PErr => PErr | POof => POof
            end
          else if starts_factor t then
            match t_pow n ts with
            | POk (a, r') => t_prod_rest n (ABin OMul lhs a) r'
            | PErr => PErr | POof => POof
            end
          else POk (lhs, ts)
      | [] => POk (lhs, ts)
      end
  end

(* atom [ ^ group ] *)
with t_pow (n : nat) (ts : list ttok) {struct n} : pres (aexpr * list ttok) :=
  match n with
  | O => POof
  | S n =>
      match t_atom n ts with
      | POk (a, XCaret :: r) =>
          match t_group n r with
          | POk (e, r') => POk (ABin OPow a e, r')
          | PErr => PErr | POof => POof
          end
      | other => other
      end
  end

(* { sum }  or a single number / name *)
with t_group (n : nat) (ts : list ttok) {struct n} : pres (aexpr * list ttok) :=
  match n with
  | O => POof
  | S n =>
      match ts with
      | XLB :: r =>
          match t_sum n r with
          | POk (a, XRB :: r') => POk (a, r')
          | POk _ => PErr
          | PErr => PErr | POof => POof
          end
      | XNum m e :: r => POk (ANum m e, r)
      | XName s :: r => POk (AVar s, r)
      | _ => PErr
      end
  end

with t_atom (n : nat) (ts : list ttok) {struct n} : pres (aexpr * list ttok) :=
  match n with
  | O => POof
  | S n =>
      match ts with
      | XNum m e :: r => POk (ANum m e, r)
      | XName s :: r => POk (AVar s, r)
      | XLB :: _ => t_group n ts
      | XLP :: r =>
          match t_sum n r with
          | POk (a, XRP :: r') => POk (a, r')
          | POk _ => PErr
          | PErr => PErr | POof => POof
          end
      | XLeft d :: r =>
          if (d =? "(") then
            match t_sum n r with
            | POk (a, XRight d' :: r') => if (d' =? ")") then POk (a, r') else PErr
            | POk _ => PErr
            | PErr => PErr | POof => POof
            end
          else if (d =? "|") then
            match t_sum n r with
            | POk (a, XRight d' :: r') => if (d' =? "|") then POk (ACall "Abs" [a], r') else PErr
            | POk _ => PErr
            | PErr => PErr | POof => POof
            end
          else PErr
      | XCmd w :: r =>
          if (w =? "frac") then
            match t_group n r with
            | POk (a, r1) =>
                match t_group n r1 with
                | POk (b, r2) => POk (ABin ODiv a b, r2)
                | PErr => PErr | POof => POof
                end
            | PErr => PErr | POof => POof
            end
          else if (w =? "sqrt") then
            match r with
            | XLSq :: r1 =>
                match t_sum n r1 with
                | POk (k, XRSq :: r2) =>
                    match t_group n r2 with
                    | POk (a, r3) => POk (ABin OPow a (ABin ODiv (ANum 1 0) k), r3)
                    | PErr => PErr | POof => POof
                    end
                | POk _ => PErr
                | PErr => PErr | POof => POof
                end
            | _ =>
                match t_group n r with
                | POk (a, r1) => POk (ACall "sqrt" [a], r1)
                | PErr => PErr | POof => POof
                end
            end
          else if (w =? "pi") then POk (AVar "pi", r)
          else if (w =? "infty") then POk (AVar "\infty", r)
          else if (w =? "operatorname") then
            match r with
            | XLB :: XWord f :: XRB :: r1 => t_fun n f r1
            | _ => PErr
            end
          else
            match tex_fun w with
            | Some f => t_fun n f r
            | None => PErr
            end
      | _ => PErr
      end
  end

(* after a function head:  [ ^ group ] [ _ group ]  argument-bracket *)
with t_fun (n : nat) (f : string) (ts : list ttok) {struct n} : pres (aexpr * list ttok) :=
  match n with
  | O => POof
  | S n =>
      match ts with
      | XCaret :: r =>
          match t_group n r with
          | POk (e, r1) =>
              match t_fun n f r1 with
              | POk (c, r2) => POk (ABin OPow c e, r2)
              | PErr => PErr | POof => POof
              end
          | PErr => PErr | POof => POof
          end
      | XUnder :: r =>
          match t_group n r with
          | POk (b, r1) =>
              match t_args n r1 with
              | POk ([x], r2) => POk (ACall f [x; b], r2)
              | POk _ => PErr
              | PErr => PErr | POof => POof
              end
          | PErr => PErr | POof => POof
          end
      | _ =>
          match t_args n ts with
          | POk (l, r1) => POk (ACall f l, r1)
          | PErr => PErr | POof => POof
          end
      end
  end

(* the argument bracket of a function:  {\left( a, b \right)}   \left( a \right)   { a } *)
with t_args (n : nat) (ts : list ttok) {struct n} : pres (list aexpr * list ttok) :=
  match n with
  | O => POof
  | S n =>
      match ts with
      | XLB :: XLeft d :: r =>
          if (d =? "(") then
            match t_items n r with
            | POk (l, XRight d' :: XRB :: r') => if (d' =? ")") then POk (l, r') else PErr
            | POk _ => PErr
            | PErr => PErr | POof => POof
            end
          else PErr
      | XLeft d :: r =>
          if (d =? "(") then
            match t_items n r with
            | POk (l, XRight d' :: r') => if (d' =? ")") then POk (l, r') else PErr
            | POk _ => PErr
            | PErr => PErr | POof => POof
            end
          else PErr
      | XLB :: r =>
          match t_sum n r with
          | POk (a, XRB :: r') => POk ([a], r')
          | POk _ => PErr
          | PErr => PErr | POof => POof
          end
      | _ => PErr
      end
  end

with t_items (n : nat) (ts : list ttok) {struct n} : pres (list aexpr * list ttok) :=
  match n with
  | O => POof
  | S n =>
      match t_sum n ts with
      | POk (a, XComma :: r) =>
          match t_items n r with
          | POk (l, r') => POk (a :: l, r')
          | PErr => PErr | POof => POof
          end
      | POk (a, r) => POk ([a], r)
      | PErr => PErr | POof => POof
      end
  end.

(* top level:  sum [ = sum ] *)
Definition t_top (n : nat) (ts : list ttok) : pres (aexpr * list ttok) :=
  match t_sum n ts with
  | POk (a, XEq :: r) =>
      match t_sum n r with
      | POk (b, r') => POk (ABin OEq a b, r')
      | PErr => PErr | POof => POof
      end
  | other => other
  end.

Definition tex_fuel_of (ts : list ttok) : nat := 8 * List.length ts + 8.

Definition parse_ttoks (ts : list ttok) : option aexpr :=
  match t_top (tex_fuel_of ts) ts with
  | POk (a, []) => Some a
  | _ => None
  end.

Definition parse_tex (names : list string) (s : string) : option aexpr :=
  match tlex names s with
  | Some ts => parse_ttoks ts
  | None => None
  end.
