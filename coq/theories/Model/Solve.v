(* Model of symplyphysics/core/experimental/solvers/__init__.py : solve_for_vector (lines 62-113) and apply
   (lines 12-28), over R^3.

   A vector expression is seen by the solver as the tuple
       combination = tuple(split_factor(term) for term in into_terms(expr))
   i.e. a list of (vector, factor).  Vectors are identified by an index into an assignment rho : nat -> V3
   (an index stands for an atomic vector or any other irreducible vector term, e.g. a cross product). *)
From Coq Require Import List NArith Reals Bool.
From VP Require Import Base.Util Model.Vec3.
Import ListNotations.
Local Open Scope R_scope.

Definition vid : Type := nat.
Definition term : Type := (vid * R)%type.                 (* (v, s) as split_factor returns them *)
Definition comb : Type := list term.

Definition eval_comb (rho : vid -> V3) (c : comb) : V3 :=
  fold_right (fun t acc => vadd (vscale (snd t) (rho (fst t))) acc) vzero c.

(* for j, (v, _) in enumerate(combination): if vector_equals(v, atomic): i = j; break *)
Fixpoint find_term (atomic : vid) (c : comb) : option nat :=
  match c with
  | [] => None
  | (v, _) :: r => if Nat.eqb v atomic then Some O
                   else match find_term atomic r with Some i => Some (S i) | None => None end
  end.

(* combination[:i] + combination[i + 1:] *)
Fixpoint drop_nth (i : nat) (c : comb) : comb :=
  match c, i with
  | [], _ => []
  | _ :: r, O => r
  | t :: r, S i' => t :: drop_nth i' r
  end.

Definition scale_of (i : nat) (c : comb) : R := snd (nth i c (O, 0)).

Inductive outcome : Type :=
| Solved (lhs rhs : comb)            (* Eq(lhs, rhs) *)
| Refused (e : N).                   (* E_TYPE: not a vector expression;  E_VALUE: the vector is not a term *)

(* expr = None : `not is_vector_expr(expr)` *)
Definition solve_for_vector (expr : option comb) (atomic : vid) (reduce_factor : bool) : outcome :=
  match expr with
  | None => Refused E_TYPE
  | Some combination =>
      match find_term atomic combination with
      | None => Refused E_VALUE
      | Some i =>
          let combination_rhs := drop_nth i combination in
          let scale := scale_of i combination in
          if reduce_factor
          then Solved [(atomic, 1)] (map (fun vs => (fst vs, -1 * snd vs / scale)) combination_rhs)
          else Solved [(atomic, -1 * scale)] combination_rhs
      end
  end.

(* apply(eqn, f): an equality gives Eq(f(lhs), f(rhs)), anything else is read as `eqn = 0` *)
Inductive equation (T : Type) : Type :=
| AnEq (lhs rhs : T)
| AnExpr (e : T).
Arguments AnEq {T}. Arguments AnExpr {T}.

Definition apply_eq {T U : Type} (zero : T) (f : T -> U) (eqn : equation T) : U * U :=
  match eqn with
  | AnEq l r => (f l, f r)
  | AnExpr e => (f e, f zero)
  end.
