(* Reference reader for the plain-text ("code") rendering of formulas (property C17).

   THIS FILE IS THE DEFINITION of "parses under ordinary arithmetic precedence, with ^ for powers and
   function-call syntax".  It contains no knowledge of symplyphysics' printer.

     lex        : list string -> string -> option (list token)
     p_expr ... : precedence-climbing parser with fuel over tokens
     parse_code : list string -> string -> option aexpr
     aeval      : (string -> R) -> (string -> list R -> R) -> aexpr -> R

   Binding (loosest to tightest):  =   |  + -  (left)  |  * /  (left)  |  unary -  |  ^ (right)  |  postfix [..] .T, calls
   exactly as in Python/SymPy:  -a^b = -(a^b),  a^-b allowed,  a^b^c = a^(b^c),  a/b/c = (a/b)/c,  a-b-c = (a-b)-c.

   `names` lists display names that are not plain identifiers (e.g. "10 Gyr", "t'"); they are matched first,
   longest first, and yield one identifier token. *)
From Coq Require Import String Ascii List ZArith NArith Bool Arith Reals.
Import ListNotations.
Local Open Scope string_scope.

(* ------------------------------------------------------------------------------------------------ *)
(* tokens and lexer                                                                                 *)
(* ------------------------------------------------------------------------------------------------ *)

Inductive token : Type :=
| TNum (m : N) (e : Z)          (* decimal literal: m * 10^e *)
| TId (s : string)
| TPlus | TMinus | TStar | TSlash | TCaret | TEq
| TLP | TRP | TLB | TRB | TComma | TDotT.

Definition is_digit (c : ascii) : bool :=
  let n := nat_of_ascii c in (48 <=? n)%nat && (n <=? 57)%nat.

Definition is_alpha (c : ascii) : bool :=
  let n := nat_of_ascii c in
  ((65 <=? n)%nat && (n <=? 90)%nat) || ((97 <=? n)%nat && (n <=? 122)%nat) || (n =? 95)%nat.

Definition is_idchar (c : ascii) : bool := is_alpha c || is_digit c.

Definition is_space (c : ascii) : bool :=
  let n := nat_of_ascii c in (n =? 32)%nat || (n =? 9)%nat || (n =? 10)%nat || (n =? 13)%nat.

Definition digit_val (c : ascii) : N := N.of_nat (nat_of_ascii c - 48).

(* longest prefix of s whose characters satisfy f, and the rest *)
Fixpoint span (f : ascii -> bool) (s : string) : string * string :=
  match s with
  | String c r => if f c then let (a, b) := span f r in (String c a, b) else (EmptyString, s)
  | EmptyString => (EmptyString, EmptyString)
  end.

Fixpoint digits_val (acc : N) (s : string) : N :=
  match s with
  | String c r => digits_val (acc * 10 + digit_val c) r
  | EmptyString => acc
  end.

(* if p is a prefix of s, the remainder *)
Fixpoint strip_prefix (p s : string) : option string :=
  match p, s with
  | EmptyString, _ => Some s
  | String a p', String b s' => if Ascii.eqb a b then strip_prefix p' s' else None
  | _, EmptyString => None
  end.

(* longest name of `names` that is a prefix of s *)
Fixpoint match_name (names : list string) (s : string) (best : option (string * string)) : option (string * string) :=
  match names with
  | [] => best
  | nm :: more =>
      let best' :=
        match strip_prefix nm s with
        | Some rest =>
            match best with
            | Some (b, _) => if (String.length b <? String.length nm)%nat then Some (nm, rest) else best
            | None => if (0 <? String.length nm)%nat then Some (nm, rest) else best
            end
        | None => best
        end in
      match_name more s best'
  end.

(* number:  digits [ . digits ] [ (e|E) [+|-] digits ]   -- s starts with a digit *)
Definition lex_frac (r1 : string) : string * string :=
  match r1 with
  | String c r =>
      if Ascii.eqb c "." then
        match r with
        | String c0 _ => if is_digit c0 then span is_digit r else (EmptyString, r1)
        | EmptyString => (EmptyString, r1)
        end
      else (EmptyString, r1)
  | EmptyString => (EmptyString, r1)
  end.

Definition lex_digits1 (r : string) : option (N * string) :=
  let (d, r') := span is_digit r in
  if (0 <? String.length d)%nat then Some (digits_val 0 d, r') else None.

Definition lex_exp (r : string) : option (Z * string) :=
  match r with
  | String c r' =>
      if Ascii.eqb c "-" then
        match lex_digits1 r' with Some (v, q) => Some ((- Z.of_N v)%Z, q) | None => None end
      else if Ascii.eqb c "+" then
        match lex_digits1 r' with Some (v, q) => Some (Z.of_N v, q) | None => None end
      else
        match lex_digits1 r with Some (v, q) => Some (Z.of_N v, q) | None => None end
  | EmptyString => None
  end.

Definition lex_number (s : string) : option (token * string) :=
  let (ip, r1) := span is_digit s in
  let (fp, r2) := lex_frac r1 in
  let mant := digits_val (digits_val 0 ip) fp in
  let sc := (- Z.of_nat (String.length fp))%Z in
  match r2 with
  | String c r =>
      if (Ascii.eqb c "e" || Ascii.eqb c "E")%bool then
        match lex_exp r with
        | Some (x, r') => Some (TNum mant (sc + x)%Z, r')
        | None => None
        end
      else if is_idchar c then None        (* "2x": no implicit products *)
      else Some (TNum mant sc, r2)
  | EmptyString => Some (TNum mant sc, r2)
  end.

Inductive lres : Type := LOk (ts : list token) | LErr | LOof.

Definition lcons (t : token) (r : lres) : lres :=
  match r with LOk ts => LOk (t :: ts) | e => e end.

(* single-character tokens *)
Definition sym_token (c : ascii) : option token :=
  if Ascii.eqb c "+" then Some TPlus else
  if Ascii.eqb c "-" then Some TMinus else
  if Ascii.eqb c "*" then Some TStar else
  if Ascii.eqb c "/" then Some TSlash else
  if Ascii.eqb c "^" then Some TCaret else
  if Ascii.eqb c "=" then Some TEq else
  if Ascii.eqb c "(" then Some TLP else
  if Ascii.eqb c ")" then Some TRP else
  if Ascii.eqb c "[" then Some TLB else
  if Ascii.eqb c "]" then Some TRB else
  if Ascii.eqb c "," then Some TComma else None.

(* ".T" not followed by an identifier character *)
Definition dot_t (s : string) : option string :=
  match s with
  | String c (String c1 r') =>
      if (Ascii.eqb c "." && Ascii.eqb c1 "T")%bool then
        match r' with
        | String c2 _ => if is_idchar c2 then None else Some r'
        | EmptyString => Some r'
        end
      else None
  | _ => None
  end.

Fixpoint lex_fuel (n : nat) (names : list string) (s : string) : lres :=
  match n with
  | O => LOof
  | S n =>
    match s with
    | EmptyString => LOk []
    | String c r =>
        if is_space c then lex_fuel n names r else
        match match_name names s None with
        | Some (nm, rest) => lcons (TId nm) (lex_fuel n names rest)
        | None =>
            if is_digit c then
              match lex_number s with
              | Some (t, rest) => lcons t (lex_fuel n names rest)
              | None => LErr
              end
            else if is_alpha c then
              let (id, rest) := span is_idchar s in lcons (TId id) (lex_fuel n names rest)
            else
              match sym_token c with
              | Some t => lcons t (lex_fuel n names r)
              | None =>
                  match dot_t s with
                  | Some rest => lcons TDotT (lex_fuel n names rest)
                  | None => LErr
                  end
              end
        end
    end
  end.

Definition lex (names : list string) (s : string) : option (list token) :=
  match lex_fuel (S (String.length s)) names s with LOk ts => Some ts | _ => None end.

(* ------------------------------------------------------------------------------------------------ *)
(* abstract syntax                                                                                  *)
(* ------------------------------------------------------------------------------------------------ *)

Inductive binop : Type := OEq | OAdd | OSub | OMul | ODiv | OPow.

Inductive aexpr : Type :=
| ANum (m : N) (e : Z)
| AVar (s : string)
| ANeg (a : aexpr)
| ABin (o : binop) (a b : aexpr)
| ACall (f : string) (args : list aexpr).
(* bracket forms are calls with reserved heads:
     (a, b, ...)  = ACall "tuple" [...]     [a, b, ...] = ACall "list" [...]
     a[i, ...]    = ACall "index" (a :: ...)            a.T = ACall "T" [a]          *)

(* operator, left binding power, minimal binding power of its right operand *)
Definition binop_of (t : token) : option (binop * nat * nat) :=
  match t with
  | TEq => Some (OEq, 1, 2)
  | TPlus => Some (OAdd, 3, 4)
  | TMinus => Some (OSub, 3, 4)
  | TStar => Some (OMul, 5, 6)
  | TSlash => Some (ODiv, 5, 6)
  | TCaret => Some (OPow, 9, 7)
  | _ => None
  end%nat.

Definition neg_bp : nat := 7.

Definition is_close (sq : bool) (t : token) : bool :=
  match t with TRP => negb sq | TRB => sq | _ => false end.

Definition is_comma (t : token) : bool := match t with TComma => true | _ => false end.     (* operand of a unary minus:  -a^b = -(a^b),  -a*b = (-a)*b *)

Inductive pres (A : Type) : Type := POk (a : A) | PErr | POof.
Arguments POk {A} a.
Arguments PErr {A}.
Arguments POof {A}.

Fixpoint p_expr (n : nat) (bp : nat) (ts : list token) {struct n} : pres (aexpr * list token) :=
  match n with
  | O => POof
  | S n =>
      match p_prefix n ts with
      | POk (lhs, r) => p_loop n bp lhs r
      | PErr => PErr
      | POof => POof
      end
  end

with p_loop (n : nat) (bp : nat) (lhs : aexpr) (ts : list token) {struct n} : pres (aexpr * list token) :=
  match n with
  | O => POof
  | S n =>
      match ts with
      | t :: r =>
          match binop_of t with
          | Some (o, lbp, rbp) =>
              if (bp <=? lbp)%nat then
                match p_expr n rbp r with
                | POk (rhs, r') => p_loop n bp (ABin o lhs rhs) r'
                | PErr => PErr
                | POof => POof
                end
              else POk (lhs, ts)
          | None => POk (lhs, ts)
          end
      | [] => POk (lhs, ts)
      end
  end

with p_prefix (n : nat) (ts : list token) {struct n} : pres (aexpr * list token) :=
  match n with
  | O => POof
  | S n =>
      match ts with
      | TMinus :: r =>
          match p_expr n neg_bp r with
          | POk (a, r') => POk (ANeg a, r')
          | PErr => PErr
          | POof => POof
          end
      | TNum m e :: r => p_post n (ANum m e) r
      | TId s :: TLP :: r =>
          match p_args n false r with
          | POk (args, r') => p_post n (ACall s args) r'
          | PErr => PErr
          | POof => POof
          end
      | TId s :: r => p_post n (AVar s) r
      | TLP :: r =>
          match p_args n false r with
          | POk ([a], r') => p_post n a r'
          | POk (args, r') => p_post n (ACall "tuple" args) r'
          | PErr => PErr
          | POof => POof
          end
      | TLB :: r =>
          match p_args n true r with
          | POk (args, r') => p_post n (ACall "list" args) r'
          | PErr => PErr
          | POof => POof
          end
      | _ => PErr
      end
  end

with p_post (n : nat) (a : aexpr) (ts : list token) {struct n} : pres (aexpr * list token) :=
  match n with
  | O => POof
  | S n =>
      match ts with
      | TLB :: r =>
          match p_args n true r with
          | POk (args, r') => p_post n (ACall "index" (a :: args)) r'
          | PErr => PErr
          | POof => POof
          end
      | TDotT :: r => p_post n (ACall "T" [a]) r
      | _ => POk (a, ts)
      end
  end

(* after an opening bracket:  [ e {, e} ] close      (sq = true: close is ']', else ')') *)
with p_args (n : nat) (sq : bool) (ts : list token) {struct n} : pres (list aexpr * list token) :=
  match n with
  | O => POof
  | S n =>
      match ts with
      | t :: r => if is_close sq t then POk ([], r) else p_items n sq ts
      | [] => PErr
      end
  end

(* e {, e} close *)
with p_items (n : nat) (sq : bool) (ts : list token) {struct n} : pres (list aexpr * list token) :=
  match n with
  | O => POof
  | S n =>
      match p_expr n 0 ts with
      | POk (a, t :: r) =>
          if is_close sq t then POk ([a], r)
          else if is_comma t then
            match p_items n sq r with
            | POk (l, r') => POk (a :: l, r')
            | PErr => PErr
            | POof => POof
            end
          else PErr
      | POk (_, []) => PErr
      | PErr => PErr
      | POof => POof
      end
  end.

Definition fuel_of (ts : list token) : nat := 4 * List.length ts + 4.

Definition parse_toks (ts : list token) : option aexpr :=
  match p_expr (fuel_of ts) 0 ts with
  | POk (a, []) => Some a
  | _ => None
  end.

Definition parse_code (names : list string) (s : string) : option aexpr :=
  match lex names s with
  | Some ts => parse_toks ts
  | None => None
  end.

(* ------------------------------------------------------------------------------------------------ *)
(* reference printer (minimal brackets).  It exists only to pin the parser down:                     *)
(*   Proofs/CodeSyntaxProofs.v proves  parse_toks (show 0 a) = Some a  for EVERY a.                  *)
(* ------------------------------------------------------------------------------------------------ *)

Definition level (a : aexpr) : nat :=
  match a with
  | ABin OEq _ _ => 1
  | ABin OAdd _ _ | ABin OSub _ _ => 3
  | ABin OMul _ _ | ABin ODiv _ _ => 5
  | ABin OPow _ _ => 7
  | ANeg _ => 7
  | _ => 10
  end.

Definition tok_of (o : binop) : token :=
  match o with OEq => TEq | OAdd => TPlus | OSub => TMinus | OMul => TStar | ODiv => TSlash | OPow => TCaret end.

(* context of the left / right operand of o *)
Definition left_ctx (o : binop) : nat :=
  match o with OEq => 1 | OAdd | OSub => 3 | OMul | ODiv => 5 | OPow => 10 end.
Definition right_ctx (o : binop) : nat :=
  match o with OEq => 2 | OAdd | OSub => 4 | OMul | ODiv => 6 | OPow => 7 end.

(* brackets exactly when the expression binds looser than its context requires *)
Definition wrap (c : nat) (x : aexpr) (rx : list token) : list token :=
  if (level x <? c)%nat then (TLP :: rx ++ [TRP])%list else rx.

Fixpoint raw (a : aexpr) : list token :=
  match a with
  | ANum m e => [TNum m e]
  | AVar s => [TId s]
  | ANeg x => TMinus :: wrap 7 x (raw x)
  | ABin o x y => (wrap (left_ctx o) x (raw x) ++ tok_of o :: wrap (right_ctx o) y (raw y))%list
  | ACall f args =>
      let sep := fix sep (l : list aexpr) : list token :=
        match l with
        | [] => []
        | x :: r => match r with [] => raw x | _ :: _ => (raw x ++ TComma :: sep r)%list end
        end in
      if (f =? "list")%string then (TLB :: sep args ++ [TRB])%list
      else if ((f =? "tuple")%string && negb (List.length args =? 1)%nat)%bool then (TLP :: sep args ++ [TRP])%list
      else
        match args with
        | a0 :: more =>
            if (f =? "index")%string then (wrap 10 a0 (raw a0) ++ TLB :: sep more ++ [TRB])%list
            else if ((f =? "T")%string && (List.length more =? 0)%nat)%bool then (wrap 10 a0 (raw a0) ++ [TDotT])%list
            else (TId f :: TLP :: sep args ++ [TRP])%list
        | [] => (TId f :: TLP :: sep args ++ [TRP])%list
        end
  end.

Definition show (c : nat) (a : aexpr) : list token := wrap c a (raw a).

(* ------------------------------------------------------------------------------------------------ *)
(* value                                                                                            *)
(* ------------------------------------------------------------------------------------------------ *)
Local Open Scope R_scope.

Definition num_val (m : N) (e : Z) : R :=
  match e with
  | Zneg p => IZR (Z.of_N m) / IZR (Z.pow_pos 10 p)
  | _ => IZR (Z.of_N m * 10 ^ e)
  end.

(* exponent that is a literal natural number *)
Definition nat_lit (a : aexpr) : option nat :=
  match a with
  | ANum m Z0 => Some (N.to_nat m)
  | _ => None
  end.

(* b ^ e :  literal integer exponents are repeated products (defined for every base);
   any other exponent is the real power exp (e * ln b) (meaningful for 0 < b). *)
Definition pow_val (b : R) (e : aexpr) (ev : R) : R :=
  match nat_lit e with
  | Some k => b ^ k
  | None =>
      match e with
      | ANeg e' => match nat_lit e' with Some k => / (b ^ k) | None => Rpower b ev end
      | _ => Rpower b ev
      end
  end.

(* elementary functions known to the reader; every other head is left uninterpreted (phi) *)
Definition fun_val (phi : string -> list R -> R) (f : string) (l : list R) : R :=
  match l with
  | [x] =>
      if f =? "sqrt" then sqrt x else
      if f =? "exp" then exp x else
      if f =? "log" then ln x else
      if f =? "sin" then sin x else
      if f =? "cos" then cos x else
      if f =? "tan" then tan x else
      if f =? "asin" then asin x else
      if f =? "acos" then acos x else
      if f =? "atan" then atan x else
      if f =? "sinh" then sinh x else
      if f =? "cosh" then cosh x else
      if f =? "tanh" then tanh x else
      if f =? "Abs" then Rabs x else
      if f =? "abs" then Rabs x else
      phi f l
  | [x; b] => if f =? "log" then ln x / ln b else phi f l
  | _ => phi f l
  end%string.

Fixpoint aeval (rho : string -> R) (phi : string -> list R -> R) (a : aexpr) : R :=
  match a with
  | ANum m e => num_val m e
  | AVar s => if (s =? "pi")%string then PI else rho s
  | ANeg x => - aeval rho phi x
  | ABin OAdd x y => aeval rho phi x + aeval rho phi y
  | ABin OSub x y => aeval rho phi x - aeval rho phi y
  | ABin OMul x y => aeval rho phi x * aeval rho phi y
  | ABin ODiv x y => aeval rho phi x / aeval rho phi y
  | ABin OPow x y => pow_val (aeval rho phi x) y (aeval rho phi y)
  | ABin OEq x y => 0     (* an equation has no value; the two sides are evaluated separately *)
  | ACall f args => fun_val phi f (map (aeval rho phi) args)
  end.

(* environment from an association list (unlisted names are 0) *)
Fixpoint env_of (l : list (string * R)) (s : string) : R :=
  match l with
  | [] => 0
  | (k, v) :: r => if (k =? s)%string then v else env_of r s
  end.
