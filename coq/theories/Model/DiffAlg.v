(* Differential polynomials over JETS, with our own formal derivation D.

   A term denotes a smooth function of (up to) three variables q0 q1 q2 (coordinates, or surface / curve
   parameters).  `TJ f a b c` is the partial derivative  d^a/dq0^a d^b/dq1^b d^c/dq2^c  of the generic (undefined)
   field number f of the current variables; the multi-index is a triple of COUNTS, so mixed partial derivatives
   commute by construction -- this is where Schwarz' theorem (symmetry of second derivatives of a C^2 function)
   enters the trusted base.  `TK f a b c` is the same partial derivative of a generic field of the Cartesian
   point, taken with respect to the CARTESIAN variables and evaluated at the image X(q) of a map
   X = (X0,X1,X2) of the current variables; differentiating it with respect to q_i uses the chain rule with the
   Jacobian `jac i k = d X_k / d q_i`.

   No proofs in this file. *)
From Coq Require Import ZArith Reals List.
Import ListNotations.
Local Open Scope R_scope.

Inductive tx : Type :=
| TC (z : Z)                         (* integer constant *)
| TCoord (i : nat)                   (* the variable q_i *)
| TSin (i : nat)                     (* sin q_i *)
| TCos (i : nat)                     (* cos q_i *)
| TJ (f : nat) (a b c : nat)         (* jet of generic field f of the current variables *)
| TK (f : nat) (a b c : nat)         (* jet of generic Cartesian field f, at the mapped point *)
| TAdd (s t : tx)
| TMul (s t : tx)
| TNeg (t : tx)
| TInv (t : tx).

Definition TSub (s t : tx) : tx := TAdd s (TNeg t).
Definition TDiv (s t : tx) : tx := TMul s (TInv t).
Definition T0 : tx := TC 0.
Definition T1 : tx := TC 1.

Definition delta (i j : nat) : tx := if Nat.eqb i j then T1 else T0.

(* d/dq_i of a jet of the current variables: bump the i-th count.  Fields depend on q0 q1 q2 only. *)
Definition bumpJ (i f a b c : nat) : tx :=
  match i with
  | 0%nat => TJ f (S a) b c
  | 1%nat => TJ f a (S b) c
  | 2%nat => TJ f a b (S c)
  | _ => T0
  end.

(* chain rule: d/dq_i [ (d^abc g)(X(q)) ] = sum_k (d^(abc+e_k) g)(X(q)) * dX_k/dq_i *)
Definition chainK (jac : nat -> nat -> tx) (i f a b c : nat) : tx :=
  TAdd (TMul (TK f (S a) b c) (jac i 0%nat))
       (TAdd (TMul (TK f a (S b) c) (jac i 1%nat))
             (TMul (TK f a b (S c)) (jac i 2%nat))).

(* The formal derivation.  Structural; `jac` is only used at TK leaves. *)
Fixpoint Dgen (jac : nat -> nat -> tx) (i : nat) (t : tx) : tx :=
  match t with
  | TC _ => T0
  | TCoord j => delta i j
  | TSin j => if Nat.eqb i j then TCos j else T0
  | TCos j => if Nat.eqb i j then TNeg (TSin j) else T0
  | TJ f a b c => bumpJ i f a b c
  | TK f a b c => chainK jac i f a b c
  | TAdd s u => TAdd (Dgen jac i s) (Dgen jac i u)
  | TMul s u => TAdd (TMul (Dgen jac i s) u) (TMul s (Dgen jac i u))
  | TNeg s => TNeg (Dgen jac i s)
  | TInv s => TNeg (TMul (Dgen jac i s) (TInv (TMul s s)))
  end.

(* derivation for terms without TK leaves (TK is then treated as a constant; never used on such terms) *)
Definition D : nat -> tx -> tx := Dgen (fun _ _ => T0).

(* derivation through a map X of the current variables *)
Definition Dvia (X : nat -> tx) : nat -> tx -> tx := Dgen (fun i k => D i (X k)).

(* composition with the map: a term over the Cartesian variables (no sin/cos leaves) is moved to the mapped point *)
Fixpoint comp (X : nat -> tx) (t : tx) : tx :=
  match t with
  | TC z => TC z
  | TCoord k => X k
  | TSin k => TSin k     (* not meaningful; `cart_term` excludes it *)
  | TCos k => TCos k
  | TJ f a b c => TK f a b c
  | TK f a b c => TK f a b c
  | TAdd s u => TAdd (comp X s) (comp X u)
  | TMul s u => TMul (comp X s) (comp X u)
  | TNeg s => TNeg (comp X s)
  | TInv s => TInv (comp X s)
  end.

(* terms over the Cartesian variables x0 x1 x2 and generic fields of them *)
Fixpoint cart_term (t : tx) : bool :=
  match t with
  | TSin _ | TCos _ | TK _ _ _ _ => false
  | TCoord k => Nat.ltb k 3
  | TC _ | TJ _ _ _ _ => true
  | TAdd s u | TMul s u => andb (cart_term s) (cart_term u)
  | TNeg s | TInv s => cart_term s
  end.

(* terms without TK leaves: on these every Dgen coincides with D *)
Fixpoint tk_free (t : tx) : bool :=
  match t with
  | TK _ _ _ _ => false
  | TC _ | TCoord _ | TSin _ | TCos _ | TJ _ _ _ _ => true
  | TAdd s u | TMul s u => andb (tk_free s) (tk_free u)
  | TNeg s | TInv s => tk_free s
  end.

(* valuations: a point, and one arbitrary real per jet *)
Record val : Type := mkval {
  vq : nat -> R;
  vj : nat -> nat -> nat -> nat -> R;
  vk : nat -> nat -> nat -> nat -> R }.

Fixpoint ev (rho : val) (t : tx) : R :=
  match t with
  | TC z => IZR z
  | TCoord i => vq rho i
  | TSin i => sin (vq rho i)
  | TCos i => cos (vq rho i)
  | TJ f a b c => vj rho f a b c
  | TK f a b c => vk rho f a b c
  | TAdd s u => ev rho s + ev rho u
  | TMul s u => ev rho s * ev rho u
  | TNeg s => - ev rho s
  | TInv s => / ev rho s
  end.

(* triples *)
Definition tx3 : Type := (tx * tx * tx)%type.
Definition R3 : Type := (R * R * R)%type.
Definition ev3 (rho : val) (v : tx3) : R3 :=
  let '(a, b, c) := v in (ev rho a, ev rho b, ev rho c).
Definition map3 (g : tx -> tx) (v : tx3) : tx3 := let '(a, b, c) := v in (g a, g b, g c).
Definition list3 (v : tx3) : list tx := let '(a, b, c) := v in [a; b; c].

(* zero padding of a short component list *)
Definition pad3 (l : list tx) : tx3 := (nth 0 l T0, nth 1 l T0, nth 2 l T0).
