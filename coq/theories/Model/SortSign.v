(* Model of symplyphysics/core/experimental/miscellaneous.py : sort_with_sign, line by line.

     old_keys = [key(v) for v in old_it]
     new_keys = sorted(old_keys)
     indices  = [old_keys.index(k) for k in new_keys]
     new_it   = [old_it[i] for i in indices]
     sign     = 0 if len(set(indices)) != len(indices) else Permutation(indices).signature()

   Keys are integers (the callers use key = id).  `sorted` on integers is modelled by insertion sort (the
   sorted list of integers is unique); `Permutation(p).signature()` by its definition, the parity of the
   number of inversions of p.  The branch `key is None` is the same computation with the identity key. *)
From Coq Require Import List ZArith Bool.
Import ListNotations.

Fixpoint insert_z (k : Z) (l : list Z) : list Z :=
  match l with
  | [] => [k]
  | h :: t => if (k <=? h)%Z then k :: l else h :: insert_z k t
  end.

Fixpoint sort_z (l : list Z) : list Z :=
  match l with
  | [] => []
  | h :: t => insert_z h (sort_z t)
  end.

(* list.index : position of the first occurrence *)
Fixpoint index_of (k : Z) (l : list Z) : nat :=
  match l with
  | [] => 0
  | h :: t => if (k =? h)%Z then 0 else S (index_of k t)
  end.

Fixpoint mem_nat (a : nat) (l : list nat) : bool :=
  match l with
  | [] => false
  | h :: t => if Nat.eqb a h then true else mem_nat a t
  end.

(* len(set(indices)) != len(indices) *)
Fixpoint has_dup (l : list nat) : bool :=
  match l with
  | [] => false
  | h :: t => if mem_nat h t then true else has_dup t
  end.

(* number of later entries smaller than a *)
Fixpoint count_lt (a : nat) (l : list nat) : nat :=
  match l with
  | [] => 0
  | h :: t => if Nat.ltb h a then S (count_lt a t) else count_lt a t
  end.

Fixpoint inversions (l : list nat) : nat :=
  match l with
  | [] => 0
  | h :: t => count_lt h t + inversions t
  end.

Definition signature (p : list nat) : Z := if Nat.even (inversions p) then 1%Z else (-1)%Z.

Definition select {A} (l : list A) (idx : list nat) : list A :=
  flat_map (fun i => match nth_error l i with Some x => [x] | None => [] end) idx.

Definition indices_of (old_keys : list Z) : list nat :=
  map (fun k => index_of k old_keys) (sort_z old_keys).

Definition sort_with_sign {A} (key : A -> Z) (it : list A) : Z * list A :=
  let old_keys := map key it in
  let indices := indices_of old_keys in
  let new_it := select it indices in
  let sign := if has_dup indices then 0%Z else signature indices in
  (sign, new_it).

Definition sort_with_sign_nokey (it : list Z) : Z * list Z := sort_with_sign (fun x => x) it.
