(* C01 -- semantic reading of the judgment `Homog` over the reals, for the fragment
   { positive constants, named positive quantities, +, *, rational powers }.

   A change of the base units by positive factors lam_0 .. lam_8 multiplies the numeric value of a quantity of
   dimension d by  scale lam d = prod_i lam_i ^ d_i  (written exp (sum_i d_i * ln lam_i); for 0 < lam_i this is
   prod_i Rpower lam_i d_i by the definition of Rpower).  Angles count as dimensionless (the radian is not rescaled):
   a leaf scales with its declared dimension with the angle exponent erased.  No proofs here. *)
From Coq Require Import List QArith Qreals Reals.
From VP Require Import Base.Dim Model.Homog.
Import ListNotations.
Local Open Scope R_scope.

Inductive sexpr :=
| SConst (c : nat)                 (* positive numeric constant number c of the constant table *)
| SLeaf (n : nat) (d : dim)        (* quantity named n with declared dimension d *)
| SAdd (a b : sexpr)
| SMul (a b : sexpr)
| SPow (b : sexpr) (r : Q).

(* the dimension-annotated tree the checker sees *)
Fixpoint forget (s : sexpr) : dexpr :=
  match s with
  | SConst _ => DNum
  | SLeaf _ d => DLeaf d
  | SAdd a b => DAdd [forget a; forget b]
  | SMul a b => DMul [forget a; forget b]
  | SPow b r => DPow (forget b) DNum (Some r)
  end.

Fixpoint swf (s : sexpr) : Prop :=
  match s with
  | SConst _ => True
  | SLeaf _ d => wf_dim d
  | SAdd a b | SMul a b => swf a /\ swf b
  | SPow b _ => swf b
  end.

(* value under a valuation of the constants and of the named quantities *)
Fixpoint sval (cst : nat -> R) (rho : nat -> dim -> R) (s : sexpr) : R :=
  match s with
  | SConst c => cst c
  | SLeaf n d => rho n d
  | SAdd a b => sval cst rho a + sval cst rho b
  | SMul a b => sval cst rho a * sval cst rho b
  | SPow b r => Rpower (sval cst rho b) (Q2R r)
  end.

Fixpoint dotQR (d : dim) (mu : list R) : R :=
  match d, mu with
  | q :: d', m :: mu' => Q2R q * m + dotQR d' mu'
  | _, _ => 0
  end.

Definition scale (lam : list R) (d : dim) : R := exp (dotQR d (map ln lam)).

(* the same physical situation described in the rescaled units *)
Definition rescale (lam : list R) (rho : nat -> dim -> R) : nat -> dim -> R :=
  fun n d => scale lam (erase_angle d) * rho n d.

Definition positive_valuation (cst : nat -> R) (rho : nat -> dim -> R) : Prop :=
  (forall c, 0 < cst c) /\ (forall n d, 0 < rho n d).

(* rescale base unit i by the factor x, leave the others alone *)
Definition one_hot (i : nat) (x : R) : list R := set_nth i x (repeat 1 NB).
