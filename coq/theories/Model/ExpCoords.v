(* C15 -- model of symplyphysics.core.experimental.coordinate_systems.{express_base_scalars, express_base_vectors,
   convert, coordinate_systems (Lame coefficients)} over the reals.  Hand-written from the mathematics; the generated
   lemmas `corr_*` (harness/props/c15.py) state that the tables returned by the code are exactly these formulas.
   No proofs in this file.

   Conventions of the experimental package: cylindrical (rho, phi, z); spherical (r, theta, phi) with theta the POLAR
   angle and phi the AZIMUTH (the opposite naming of the non-experimental package modelled in Coords.v). *)
From Coq Require Import Reals Bool.
From VP Require Import Base.Atan2.
Local Open Scope R_scope.

Definition V3 : Type := (R * R * R)%type.
Definition M3 : Type := (V3 * V3 * V3)%type.      (* three rows *)

Inductive esys : Type := ECart | ECyl | ESph.

(* ---- small linear algebra ----------------------------------------------------------------------------------- *)

Definition dotv (u v : V3) : R :=
  let '(u1, u2, u3) := u in let '(v1, v2, v3) := v in u1 * v1 + u2 * v2 + u3 * v3.

Definition I3 : M3 := ((1, 0, 0), (0, 1, 0), (0, 0, 1)).

Definition mtr (m : M3) : M3 :=
  let '((a11, a12, a13), (a21, a22, a23), (a31, a32, a33)) := m in
  ((a11, a21, a31), (a12, a22, a32), (a13, a23, a33)).

Definition mmul (a b : M3) : M3 :=
  let '((a11, a12, a13), (a21, a22, a23), (a31, a32, a33)) := a in
  let '((b11, b12, b13), (b21, b22, b23), (b31, b32, b33)) := b in
  ((a11 * b11 + a12 * b21 + a13 * b31, a11 * b12 + a12 * b22 + a13 * b32, a11 * b13 + a12 * b23 + a13 * b33),
   (a21 * b11 + a22 * b21 + a23 * b31, a21 * b12 + a22 * b22 + a23 * b32, a21 * b13 + a22 * b23 + a23 * b33),
   (a31 * b11 + a32 * b21 + a33 * b31, a31 * b12 + a32 * b22 + a33 * b32, a31 * b13 + a32 * b23 + a33 * b33)).

Definition det (m : M3) : R :=
  let '((a11, a12, a13), (a21, a22, a23), (a31, a32, a33)) := m in
  a11 * (a22 * a33 - a23 * a32) - a12 * (a21 * a33 - a23 * a31) + a13 * (a21 * a32 - a22 * a31).

(* row vector times matrix: components, in the new basis, of the vector with components c in the old basis,
   when row i of m holds the new-basis components of old base vector i *)
Definition vecmat (c : V3) (m : M3) : V3 :=
  let '(c1, c2, c3) := c in
  let '((a11, a12, a13), (a21, a22, a23), (a31, a32, a33)) := m in
  (c1 * a11 + c2 * a21 + c3 * a31, c1 * a12 + c2 * a22 + c3 * a32, c1 * a13 + c2 * a23 + c3 * a33).

Definition mrow (i : nat) (m : M3) : V3 :=
  let '(r1, r2, r3) := m in match i with O => r1 | S O => r2 | _ => r3 end.

(* ---- express_base_scalars(old, new): the old system's scalars of the point whose new-system scalars are q ------- *)

Definition scal (old new : esys) (q : V3) : V3 :=
  let '(q1, q2, q3) := q in
  match old, new with
  | ECart, ECyl => (q1 * cos q2, q1 * sin q2, q3)
  | ECart, ESph => (q1 * sin q2 * cos q3, q1 * sin q2 * sin q3, q1 * cos q2)
  | ECyl, ECart => (sqrt (q1 * q1 + q2 * q2), atan2 q2 q1, q3)
  | ECyl, ESph => (q1 * sin q2, q3, q1 * cos q2)
  | ESph, ECart => (sqrt (q1 * q1 + q2 * q2 + q3 * q3), atan2 (sqrt (q1 * q1 + q2 * q2)) q3, atan2 q2 q1)
  | ESph, ECyl => (sqrt (q1 * q1 + q3 * q3), atan2 q1 q3, q2)
  | ECart, ECart | ECyl, ECyl | ESph, ESph => q
  end.

(* ---- express_base_vectors(old, new): row i = components of old base vector i in the new base vectors,
        as functions of the NEW system's scalars q ------------------------------------------------------------- *)

Definition bvec (old new : esys) (q : V3) : M3 :=
  let '(q1, q2, q3) := q in
  match old, new with
  | ECart, ECyl =>                                   (* q = (rho, phi, z) *)
      ((cos q2, - sin q2, 0), (sin q2, cos q2, 0), (0, 0, 1))
  | ECart, ESph =>                                   (* q = (r, theta, phi) *)
      ((sin q2 * cos q3, cos q2 * cos q3, - sin q3),
       (sin q2 * sin q3, cos q2 * sin q3, cos q3),
       (cos q2, - sin q2, 0))
  | ECyl, ECart =>                                   (* q = (x, y, z) *)
      let rho := sqrt (q1 * q1 + q2 * q2) in
      ((q1 / rho, q2 / rho, 0), (- q2 / rho, q1 / rho, 0), (0, 0, 1))
  | ECyl, ESph =>                                    (* q = (r, theta, phi) *)
      ((sin q2, cos q2, 0), (0, 0, 1), (cos q2, - sin q2, 0))
  | ESph, ECart =>                                   (* q = (x, y, z) *)
      let r := sqrt (q1 * q1 + q2 * q2 + q3 * q3) in
      let rho := sqrt (q1 * q1 + q2 * q2) in
      ((q1 / r, q2 / r, q3 / r),
       (q1 * q3 / rho / r, q2 * q3 / rho / r, - (rho / r)),
       (- q2 / rho, q1 / rho, 0))
  | ESph, ECyl =>                                    (* q = (rho, phi, z) *)
      let r := sqrt (q1 * q1 + q3 * q3) in
      ((q1 / r, 0, q3 / r), (q3 / r, 0, - (q1 / r)), (0, 1, 0))
  | ECart, ECart | ECyl, ECyl | ESph, ESph => I3
  end.

(* ---- convert.py ------------------------------------------------------------------------------------------------- *)

(* convert_point: "conversion = express_base_scalars(new_system, point.system)" then the old coordinates are substituted *)
Definition convert_point (old new : esys) (p : V3) : V3 := scal new old p.

(* convert_vector: base vectors replaced through express_base_vectors(old, new), then the new scalars replaced by the
   converted point's coordinates; c are the components in the old base vectors at p *)
Definition convert_vector (old new : esys) (c p : V3) : V3 :=
  vecmat c (bvec old new (convert_point old new p)).

(* ---- Lame coefficients ---------------------------------------------------------------------------------------------- *)

Definition lame (a : esys) (q : V3) : V3 :=
  let '(q1, q2, q3) := q in
  match a with
  | ECart => (1, 1, 1)
  | ECyl => (1, q1, 1)
  | ESph => (1, q1, q1 * sin q2)
  end.

Definition jacobian (a : esys) (q : V3) : R := let '(h1, h2, h3) := lame a q in h1 * h2 * h3.

(* position map and its partial derivatives (column i = d position / d q_i), written by hand; that they are the
   derivatives is proved in Proofs/ExpCoordsProofs.v *)
Definition position (a : esys) (q : V3) : V3 := scal ECart a q.

Definition dposition (a : esys) (i : nat) (q : V3) : V3 :=
  let '(q1, q2, q3) := q in
  match a, i with
  | ECart, O => (1, 0, 0) | ECart, S O => (0, 1, 0) | ECart, _ => (0, 0, 1)
  | ECyl, O => (cos q2, sin q2, 0)
  | ECyl, S O => (- (q1 * sin q2), q1 * cos q2, 0)
  | ECyl, _ => (0, 0, 1)
  | ESph, O => (sin q2 * cos q3, sin q2 * sin q3, cos q2)
  | ESph, S O => (q1 * cos q2 * cos q3, q1 * cos q2 * sin q3, - (q1 * sin q2))
  | ESph, _ => (- (q1 * sin q2 * sin q3), q1 * sin q2 * cos q3, 0)
  end.

Definition norm (v : V3) : R := sqrt (dotv v v).

(* ---- the regular part of each system (away from the axis / origin, principal angles) ----------------------------- *)

Definition regular (a : esys) (q : V3) : Prop :=
  let '(q1, q2, q3) := q in
  match a with
  | ECart => (q1, q2) <> (0, 0)
  | ECyl => 0 < q1 /\ - PI < q2 <= PI
  | ESph => 0 < q1 /\ 0 < q2 < PI /\ - PI < q3 <= PI
  end.

(* ---- dispatch fall-through (finite table) ---------------------------------------------------------------------------- *)

(* kinds of arguments: the three registered classes, two distinct unregistered subclasses of BaseCoordinateSystem,
   and an object that is not a coordinate system *)
Inductive akind : Type := KCart | KCyl | KSph | KOtherA | KOtherB | KNotSystem.
Inductive dispatch_outcome : Type := DTable | DIdentity | DTypeError | DNoSignature.

Definition akind_eqb (a b : akind) : bool :=
  match a, b with
  | KCart, KCart | KCyl, KCyl | KSph, KSph | KOtherA, KOtherA | KOtherB, KOtherB | KNotSystem, KNotSystem => true
  | _, _ => false
  end.

Definition registered (a : akind) : bool := match a with KCart | KCyl | KSph => true | _ => false end.

Definition dispatch (a b : akind) : dispatch_outcome :=
  match a, b with
  | KNotSystem, _ | _, KNotSystem => DNoSignature
  | _, _ =>
      if akind_eqb a b then DIdentity
      else if registered a && registered b then DTable
      else DTypeError
  end.

Definition outcome_eqb (a b : dispatch_outcome) : bool :=
  match a, b with
  | DTable, DTable | DIdentity, DIdentity | DTypeError, DTypeError | DNoSignature, DNoSignature => true
  | _, _ => false
  end.
