(* Executable model of the documentation patch / evaluation-flag machine (C19).

   symplyphysics/docs/patch.py      : patch_sympy_evaluate            -> [patch]
   symplyphysics/core/processors.py : disable/enable/reset_sympy_evaluation -> [op_run], [exec]
   symplyphysics/docs/parse.py      : find_members_and_functions.process_body (run on the PATCHED module)
                                      -> [parse_scan], [parse_members], [parse_functions]
   symplyphysics/docs/view.py       : member_to_doc / function_to_doc drop names starting with "_"
                                      -> [page_members], [page_functions]

   No proofs here (Proofs/DocsPatchProofs.v). *)
From Coq Require Import List Bool Arith String Ascii.
Import ListNotations.
Local Open Scope string_scope.

(* ------------------------------------------------------------------------------------------- *)
(* Top-level statements of a module, abstracted to exactly what patch.py and parse.py look at.   *)
(* ------------------------------------------------------------------------------------------- *)

Inductive stmt : Type :=
| FnDef (name : string) (doc : bool)            (* ast.FunctionDef; doc = ast.get_docstring is not None *)
| Assign (targets : list (option string))       (* ast.Assign; Some id for an ast.Name target, None otherwise *)
| SConst (ev sym ltx : bool)                    (* ast.Expr(ast.Constant): ":laws:sympy-eval::" / ":laws:symbol::" /
                                                   ":laws:latex::" occurs in str(value) *)
| Other.                                        (* anything else: imports, AnnAssign, assert, with, for, Expr(Call) ... *)

(* statements of the patched module: the three shared nodes of patch.py, or an original statement
   together with its index in the original body *)
Inductive pstmt : Type :=
| PImport                                       (* _IMPORT_NODE  *)
| PDisable                                      (* _DISABLE_NODE *)
| PReset                                        (* _ENABLE_NODE : calls reset_sympy_evaluation *)
| POrig (i : nat) (s : stmt).

(* str(name).startswith("_") *)
Definition is_private (n : string) : bool :=
  match n with
  | String c _ => Ascii.eqb c "_"%char
  | EmptyString => false
  end.

(* list.insert(n, x): inserts before position n, appends when n >= len *)
Definition insert_at {A : Type} (n : nat) (x : A) (l : list A) : list A :=
  firstn n l ++ x :: skipn n l.

Fixpoint index_from (i : nat) (body : list stmt) : list pstmt :=
  match body with
  | [] => []
  | s :: r => POrig i s :: index_from (S i) r
  end.

(* ------------------------------------------------------------------------------------------- *)
(* patch.py                                                                                      *)
(* ------------------------------------------------------------------------------------------- *)

(* for target in stmt.targets: ... current_member_idx = idx  happens iff some target is a Name not starting with "_" *)
Definition has_public (ts : list (option string)) : bool :=
  existsb (fun t => match t with Some n => negb (is_private n) | None => false end) ts.

(* loop state: current_member_idx (-1 = None), disabled_node_idxs, last_documented_node *)
Record scan_state : Type := mkScan { cur : option nat; dis : list nat; lastdoc : nat }.

Definition scan_init : scan_state := mkScan None [] 0.

Definition scan_step (idx : nat) (s : pstmt) (st : scan_state) : scan_state :=
  match s with
  | POrig _ (FnDef _ doc) =>
      if doc then mkScan (Some idx) (dis st) idx else st
  | POrig _ (Assign ts) =>
      if has_public ts then mkScan (Some idx) (dis st) (lastdoc st) else st
  | POrig _ (SConst ev sym ltx) =>
      match cur st with
      | None => st                                             (* current_member_idx >= 0 fails *)
      | Some c =>
          if ev || negb (sym || ltx)
          then mkScan (cur st) (dis st) idx                    (* last_documented_node = idx; continue *)
          else mkScan (cur st) (dis st ++ [c]) idx             (* ... disabled_node_idxs.append(current_member_idx) *)
      end
  | _ => st                                                    (* Other, and the freshly inserted import node *)
  end.

(* for idx, stmt in enumerate(module.body) *)
Fixpoint scan (idx : nat) (l : list pstmt) (st : scan_state) : scan_state :=
  match l with
  | [] => st
  | s :: r => scan (S idx) r (scan_step idx s st)
  end.

(* offset = 0; for node_idx in disabled: insert(node_idx+offset, DISABLE); offset += 1;
                                         insert(node_idx+offset+1, ENABLE); offset += 1 *)
Fixpoint apply_inserts (l : list pstmt) (off : nat) (ds : list nat) : list pstmt :=
  match ds with
  | [] => l
  | d :: r =>
      let l1 := insert_at (d + off) PDisable l in
      let off1 := off + 1 in
      let l2 := insert_at (d + off1 + 1) PReset l1 in
      apply_inserts l2 (off1 + 1) r
  end.

Definition with_import (body : list stmt) : list pstmt := insert_at 1 PImport (index_from 0 body).

Definition patch (body : list stmt) : list pstmt :=
  let b1 := with_import body in
  let st := scan 0 b1 scan_init in
  let kept := firstn (lastdoc st + 1) b1 in                     (* module.body[0:last_documented_node + 1] *)
  apply_inserts kept 0 (dis st).

(* ------------------------------------------------------------------------------------------- *)
(* processors.py: the flag machine.  `_old_evaluation` is a module global that the three           *)
(* functions never write (the assignments inside them bind a local), so it keeps its initial value.*)
(* ------------------------------------------------------------------------------------------- *)

Inductive flag_op : Type := OpDisable | OpEnable | OpReset.

Record pstate : Type := mkP { flag : bool; old : bool }.    (* global_parameters.evaluate, processors._old_evaluation *)

Definition op_run (p : pstate) (o : flag_op) : pstate :=
  match o with
  | OpDisable => mkP false (old p)         (* local _old_evaluation = ...; global flag := False *)
  | OpEnable => mkP true (old p)
  | OpReset => mkP (old p) (old p)         (* flag := module-level _old_evaluation *)
  end.

Definition ops_run (p : pstate) (l : list flag_op) : pstate := fold_left op_run l p.

(* flags observed after each operation *)
Fixpoint ops_trace (p : pstate) (l : list flag_op) : list bool :=
  match l with
  | [] => []
  | o :: r => let p' := op_run p o in flag p' :: ops_trace p' r
  end.

Definition pstmt_run (p : pstate) (s : pstmt) : pstate :=
  match s with
  | PDisable => op_run p OpDisable
  | PReset => op_run p OpReset
  | PImport => p
  | POrig _ _ => p                         (* assumption: module statements leave the flag as they found it *)
  end.

(* value of global_parameters.evaluate after executing the patched body, starting from b,
   in a process where processors._old_evaluation has its import-time value True *)
Definition exec (b : bool) (l : list pstmt) : bool := flag (fold_left pstmt_run l (mkP b true)).

(* (original index, flag value while that original statement is executed) *)
Fixpoint trace_p (p : pstate) (l : list pstmt) : list (nat * bool) :=
  match l with
  | [] => []
  | POrig i s :: r => (i, flag p) :: trace_p p r
  | s :: r => trace_p (pstmt_run p s) r
  end.

Definition trace (b : bool) (l : list pstmt) : list (nat * bool) := trace_p (mkP b true) l.

(* original statements executed while evaluation is switched off *)
Definition off_stmts (b : bool) (l : list pstmt) : list nat :=
  map fst (filter (fun x => negb (snd x)) (trace b l)).

(* the two calls are resolved through the inserted import: a disable/reset node executed before the import node
   raises NameError (the module is exec'd with empty globals) *)
Fixpoint names_ok_from (imported : bool) (l : list pstmt) : bool :=
  match l with
  | [] => true
  | PImport :: r => names_ok_from true r
  | PDisable :: r | PReset :: r => imported && names_ok_from imported r
  | POrig _ _ :: r => names_ok_from imported r
  end.

Definition names_ok (l : list pstmt) : bool := names_ok_from false l.

(* generating several pages one after another in one process *)
Definition exec_pages (b : bool) (mods : list (list stmt)) : bool :=
  fold_left (fun f m => exec f (patch m)) mods b.

(* ------------------------------------------------------------------------------------------- *)
(* parse.py: process_body over the patched module                                                 *)
(* ------------------------------------------------------------------------------------------- *)

Definition docflags : Type := (bool * bool * bool)%type.      (* ev, sym, ltx *)

(* process_assign: id of the first ast.Name target *)
Fixpoint first_name (ts : list (option string)) : option string :=
  match ts with
  | [] => None
  | Some n :: _ => Some n
  | None :: r => first_name r
  end.

Fixpoint dict_set (k : string) (v : docflags) (d : list (string * docflags)) : list (string * docflags) :=
  match d with
  | [] => [(k, v)]
  | (k', v') :: r => if String.eqb k k' then (k, v) :: r else (k', v') :: dict_set k v r
  end.

Fixpoint dict_get (k : string) (d : list (string * docflags)) : option docflags :=
  match d with
  | [] => None
  | (k', v') :: r => if String.eqb k k' then Some v' else dict_get k r
  end.

Record parse_state : Type :=
  mkParse { pcur : option string; pnames : list string; pdocs : list (string * docflags); pfuns : list string }.

Definition parse_init : parse_state := mkParse None [] [] [].

Definition parse_step (st : parse_state) (s : pstmt) : parse_state :=
  match s with
  | POrig _ (FnDef name doc) =>
      if doc then mkParse (pcur st) (pnames st) (pdocs st) (pfuns st ++ [name]) else st
  | POrig _ (Assign ts) =>
      let c := first_name ts in
      mkParse c (match c with Some n => pnames st ++ [n] | None => pnames st end) (pdocs st) (pfuns st)
  | POrig _ (SConst ev sym ltx) =>
      match pcur st with
      | Some n => mkParse (pcur st) (pnames st) (dict_set n (ev, sym, ltx) (pdocs st)) (pfuns st)
      | None => st
      end
  | _ => st                          (* Other; PImport (ImportFrom); PDisable / PReset are Expr(Call), not Constant *)
  end.

Definition parse_scan (l : list pstmt) : parse_state := fold_left parse_step l parse_init.

(* for member_name in member_names: member = process_member_name(...)  (None when it has no docstring) *)
Definition parse_members (l : list pstmt) : list (string * docflags) :=
  let st := parse_scan l in
  flat_map (fun n => match dict_get n (pdocs st) with Some f => [(n, f)] | None => [] end) (pnames st).

Definition parse_functions (l : list pstmt) : list string := pfuns (parse_scan l).

(* view.py: names starting with "_" are not printed *)
Definition page_members (body : list stmt) : list (string * docflags) :=
  filter (fun m => negb (is_private (fst m))) (parse_members (patch body)).

Definition page_functions (body : list stmt) : list string :=
  filter (fun n => negb (is_private n)) (parse_functions (patch body)).

(* index (in the original body) of the last assignment that binds name n through a Name target, among the
   statements kept by the patch: this is the object `context[n]` that the page renders *)
Definition binds (n : string) (ts : list (option string)) : bool :=
  existsb (fun t => match t with Some m => String.eqb n m | None => false end) ts.

Fixpoint last_binding (n : string) (l : list pstmt) (acc : option nat) : option nat :=
  match l with
  | [] => acc
  | POrig i (Assign ts) :: r => last_binding n r (if binds n ts then Some i else acc)
  | _ :: r => last_binding n r acc
  end.

(* ------------------------------------------------------------------------------------------- *)
(* Side condition under which patch.py's and parse.py's notions of "current member" coincide.     *)
(* It is a boolean, evaluated on every catalogue module by the check.                             *)
(* ------------------------------------------------------------------------------------------- *)

(* names bound by assignments (every Name target) and by function definitions *)
Fixpoint bound_names (body : list stmt) : list string :=
  match body with
  | [] => []
  | Assign ts :: r => flat_map (fun t => match t with Some n => [n] | None => [] end) ts ++ bound_names r
  | FnDef n _ :: r => n :: bound_names r
  | _ :: r => bound_names r
  end.

Fixpoint nodupb (l : list string) : bool :=
  match l with
  | [] => true
  | x :: r => negb (existsb (String.eqb x) r) && nodupb r
  end.

(* joint walk over the original body: pm = patch's current member (index), qm = parse's current member
   (index of the last Assign and its first Name target).  At every string constant that parse attributes to a
   public name, patch must attribute it to the same statement. *)
Fixpoint agree_from (idx : nat) (pm : option nat) (qm : option (nat * option string)) (body : list stmt) : bool :=
  match body with
  | [] => true
  | FnDef _ doc :: r => agree_from (S idx) (if doc then Some idx else pm) qm r
  | Assign ts :: r =>
      agree_from (S idx) (if has_public ts then Some idx else pm) (Some (idx, first_name ts)) r
  | SConst _ _ _ :: r =>
      (match qm with
       | Some (qi, Some n) =>
           if is_private n then true
           else match pm with Some pi => Nat.eqb pi qi | None => false end
       | _ => true
       end) && agree_from (S idx) pm qm r
  | Other :: r => agree_from (S idx) pm qm r
  end.

(* the original statements that survive the patch, in order *)
Fixpoint orig_stmts (l : list pstmt) : list stmt :=
  match l with
  | [] => []
  | POrig _ s :: r => s :: orig_stmts r
  | _ :: r => orig_stmts r
  end.

(* (i) among the statements the patch keeps, no public name is bound twice (by assignments or defs);
   (ii) the two notions of current member agree at every docstring of a public variable *)
Definition consistent_side (body : list stmt) : bool :=
  nodupb (filter (fun n => negb (is_private n)) (bound_names (orig_stmts (patch body))))
  && agree_from 0 None None body.

(* ------------------------------------------------------------------------------------------- *)
(* Specification vocabulary (what the property says, written on the ORIGINAL body, without the    *)
(* import node, the truncation and the offsets)                                                   *)
(* ------------------------------------------------------------------------------------------- *)

(* a documented member opens here: a public variable assignment or a documented function *)
Definition is_member (s : stmt) : bool :=
  match s with
  | FnDef _ d => d
  | Assign ts => has_public ts
  | _ => false
  end.

(* a docstring that asks for an auto-generated formula and does not ask for explicit evaluation *)
Definition wants_disable (s : stmt) : bool :=
  match s with
  | SConst ev sym ltx => negb ev && (sym || ltx)
  | _ => false
  end.

(* the members whose docstring wants the source form: one entry per such docstring, in order *)
Fixpoint spec_disabled_from (idx : nat) (c : option nat) (body : list stmt) : list nat :=
  match body with
  | [] => []
  | s :: r =>
      if is_member s then spec_disabled_from (S idx) (Some idx) r
      else match c with
           | Some i => if wants_disable s then i :: spec_disabled_from (S idx) c r
                       else spec_disabled_from (S idx) c r
           | None => spec_disabled_from (S idx) c r
           end
  end.

Definition spec_disabled (body : list stmt) : list nat := spec_disabled_from 0 None body.

(* index of the last documented node: a documented def, or a string constant that follows a member (0 if none) *)
Fixpoint spec_last_from (idx : nat) (c : bool) (last : nat) (body : list stmt) : nat :=
  match body with
  | [] => last
  | s :: r =>
      match s with
      | FnDef _ true => spec_last_from (S idx) true idx r
      | Assign ts => spec_last_from (S idx) (c || has_public ts) last r
      | SConst _ _ _ => spec_last_from (S idx) c (if c then idx else last) r
      | _ => spec_last_from (S idx) c last r
      end
  end.

(* how many leading statements of the module survive *)
Definition keep_count (body : list stmt) : nat := Nat.min (List.length body) (S (spec_last_from 0 false 0 body)).

Fixpoint enum_from (k : nat) (body : list stmt) : list (nat * stmt) :=
  match body with
  | [] => []
  | s :: r => (k, s) :: enum_from (S k) r
  end.

(* (original index, statement) of the surviving statements, in order *)
Fixpoint origs (l : list pstmt) : list (nat * stmt) :=
  match l with
  | [] => []
  | POrig i s :: r => (i, s) :: origs r
  | _ :: r => origs r
  end.

(* ------------------------------------------------------------------------------------------- *)
(* Observation used by the correspondence check                                                  *)
(* ------------------------------------------------------------------------------------------- *)

Inductive shape_tok : Type := TImport | TDisable | TReset | TOrig (i : nat).

Definition shape (l : list pstmt) : list shape_tok :=
  map (fun s => match s with PImport => TImport | PDisable => TDisable | PReset => TReset | POrig i _ => TOrig i end) l.

Definition shape_tok_eqb (a b : shape_tok) : bool :=
  match a, b with
  | TImport, TImport | TDisable, TDisable | TReset, TReset => true
  | TOrig i, TOrig j => Nat.eqb i j
  | _, _ => false
  end.

Fixpoint list_eqb {A : Type} (eqb : A -> A -> bool) (l1 l2 : list A) : bool :=
  match l1, l2 with
  | [], [] => true
  | x :: r1, y :: r2 => eqb x y && list_eqb eqb r1 r2
  | _, _ => false
  end.

Definition nat_bool_eqb (a b : nat * bool) : bool := Nat.eqb (fst a) (fst b) && Bool.eqb (snd a) (snd b).

Definition docflags_eqb (a b : docflags) : bool :=
  let '(a1, a2, a3) := a in let '(b1, b2, b3) := b in Bool.eqb a1 b1 && Bool.eqb a2 b2 && Bool.eqb a3 b3.

Definition member_eqb (a b : string * docflags) : bool := String.eqb (fst a) (fst b) && docflags_eqb (snd a) (snd b).

(* ------------------------------------------------------------------------------------------- *)
(* processors.py again, now over the WHOLE record of SymPy's global switches                     *)
(* (global_parameters.evaluate, .distribute, .exp_is_pow, ...).  Which fields each function       *)
(* writes, and with which constant, is read from the AST of core/processors.py by the check       *)
(* (`_old_evaluation` is resolved to its module-level constant; a `global` declaration makes the  *)
(* translator refuse).                                                                            *)
(* ------------------------------------------------------------------------------------------- *)
From Coq Require Import NArith.

Definition switches : Type := list (N * bool).               (* field id -> value *)
Definition writes : Type := list (N * bool).                 (* assignments global_parameters.<field> = <const>, in order *)

Record procs : Type := mkProcs { w_disable : writes; w_enable : writes; w_reset : writes }.

Fixpoint sw_get (f : N) (s : switches) : option bool :=
  match s with
  | [] => None
  | (g, v) :: r => if N.eqb f g then Some v else sw_get f r
  end.

Fixpoint sw_set (f : N) (v : bool) (s : switches) : switches :=
  match s with
  | [] => [(f, v)]
  | (g, w) :: r => if N.eqb f g then (f, v) :: r else (g, w) :: sw_set f v r
  end.

Definition apply_writes (ws : writes) (s : switches) : switches :=
  fold_left (fun acc w => sw_set (fst w) (snd w) acc) ws s.

Definition sw_op (P : procs) (s : switches) (o : flag_op) : switches :=
  match o with
  | OpDisable => apply_writes (w_disable P) s
  | OpEnable => apply_writes (w_enable P) s
  | OpReset => apply_writes (w_reset P) s
  end.

Definition sw_ops (P : procs) (s : switches) (l : list flag_op) : switches := fold_left (sw_op P) l s.

(* records observed after each call *)
Fixpoint sw_ops_trace (P : procs) (s : switches) (l : list flag_op) : list switches :=
  match l with
  | [] => []
  | o :: r => let s' := sw_op P s o in s' :: sw_ops_trace P s' r
  end.

Definition sw_pstmt (P : procs) (s : switches) (x : pstmt) : switches :=
  match x with
  | PDisable => sw_op P s OpDisable
  | PReset => sw_op P s OpReset
  | PImport | POrig _ _ => s
  end.

Definition sw_run (P : procs) (s : switches) (l : list pstmt) : switches := fold_left (sw_pstmt P) l s.

Definition sw_pages (P : procs) (s : switches) (mods : list (list stmt)) : switches :=
  fold_left (fun acc m => sw_run P acc (patch m)) mods s.

(* value the last write of ws gives to field f *)
Fixpoint last_write (f : N) (ws : writes) (acc : option bool) : option bool :=
  match ws with
  | [] => acc
  | (g, v) :: r => last_write f r (if N.eqb f g then Some v else acc)
  end.

Definition opt_bool_eqb (a b : option bool) : bool :=
  match a, b with
  | Some x, Some y => Bool.eqb x y
  | None, None => true
  | _, _ => false
  end.

(* every field that any of the three functions writes is written by reset, and reset gives it its default *)
Definition covers (P : procs) (s0 : switches) : bool :=
  forallb (fun w : N * bool =>
             match last_write (fst w) (w_reset P) None with
             | Some v => opt_bool_eqb (sw_get (fst w) s0) (Some v)
             | None => false
             end)
          (w_disable P ++ w_enable P ++ w_reset P).

(* the fields that reset fails to bring back (for the report) *)
Definition uncovered (P : procs) (s0 : switches) : list N :=
  map fst (filter (fun w : N * bool =>
             negb match last_write (fst w) (w_reset P) None with
                  | Some v => opt_bool_eqb (sw_get (fst w) s0) (Some v)
                  | None => false
                  end)
          (w_disable P ++ w_enable P ++ w_reset P)).

Definition sw_eqb (a b : switches) : bool :=
  list_eqb (fun x y : N * bool => N.eqb (fst x) (fst y) && Bool.eqb (snd x) (snd y)) a b.
