(* Reference table for the constants catalogue symplyphysics/quantities/__init__.py  (property C20).

   TRUSTED BASE: everything in this file is entered by hand from
     - CODATA 2018 recommended values (NIST SP 961, May 2019; physics.nist.gov/cuu/Constants),
     - IAU 2015 Resolutions B2 (bolometric zero point L0) and B3 (nominal solar / terrestrial values),
     - IAU 2012 Resolution B2 (astronomical unit), ISO / CGPM conventional values (standard gravity, 0 degC),
     - NIST Atomic Spectra Database (ionisation energy of hydrogen).
   Values are exact decimals (Coq's decimal notation for R denotes the exact rational) or exact expressions in them.

   For every constant `x` of the catalogue:
     ref_x  : R     reference SI value
     dim_x  : dim   dimension of the physical quantity the name denotes, as exponents of
                    [length; mass; time; current; temperature; amount; luminous intensity; angle; any]
     tol_x  : R     relative tolerance FLOOR: 1e-8, or the relative standard uncertainty / convention spread of the
                    reference where that is larger.  The check uses  max (tol_x, precision stated in the docstring,
                    half a unit in the last digit of the source literal) ; the last two are read from the live source.
   The file is parsed by harness/props/c20.py (one `Definition` per line, arithmetic with + - * / ^ and PI only) for the
   numeric side of violation reports; the lemmas themselves are checked by Coq against these definitions. *)
From Coq Require Import Reals List QArith ZArith.
From VP Require Import Base.Dim.
Import ListNotations.
Local Open Scope R_scope.

Definition mkdim (l m t i th n j : Z) : dim :=
  [inject_Z l; inject_Z m; inject_Z t; inject_Z i; inject_Z th; inject_Z n; inject_Z j; 0%Q; 0%Q].

Definition tol_default : R := 1e-8.
(* tolerance of the mutual-consistency identities (both sides are live values of the catalogue) *)
Definition tol_identity : R := 1e-9.
(* Wien: root of x = 5 (1 - exp(-x)) *)
Definition wien_x : R := 4.965114231744276.

(* --- SI defining constants (exact) ------------------------------------------------------------- *)
Definition ref_speed_of_light : R := 299792458.
Definition dim_speed_of_light : dim := mkdim 1 0 (-1) 0 0 0 0.
Definition tol_speed_of_light : R := 1e-8.

Definition ref_planck : R := 6.62607015e-34.
Definition dim_planck : dim := mkdim 2 1 (-1) 0 0 0 0.
Definition tol_planck : R := 1e-8.

Definition ref_hbar : R := 1.054571817e-34.
Definition dim_hbar : dim := mkdim 2 1 (-1) 0 0 0 0.
Definition tol_hbar : R := 1e-8.

Definition ref_elementary_charge : R := 1.602176634e-19.
Definition dim_elementary_charge : dim := mkdim 0 0 1 1 0 0 0.
Definition tol_elementary_charge : R := 1e-8.

Definition ref_boltzmann_constant : R := 1.380649e-23.
Definition dim_boltzmann_constant : dim := mkdim 2 1 (-2) 0 (-1) 0 0.
Definition tol_boltzmann_constant : R := 1e-8.

Definition ref_avogadro_constant : R := 6.02214076e23.
Definition dim_avogadro_constant : dim := mkdim 0 0 0 0 0 (-1) 0.
Definition tol_avogadro_constant : R := 1e-8.

(* --- exact consequences, CODATA 2018 (truncated as published) ---------------------------------- *)
Definition ref_molar_gas_constant : R := 8.314462618.
Definition dim_molar_gas_constant : dim := mkdim 2 1 (-2) 0 (-1) (-1) 0.
Definition tol_molar_gas_constant : R := 1e-8.

Definition ref_faraday_constant : R := 96485.33212.
Definition dim_faraday_constant : dim := mkdim 0 0 1 1 0 (-1) 0.
Definition tol_faraday_constant : R := 1e-8.

Definition ref_stefan_boltzmann_constant : R := 5.670374419e-8.
Definition dim_stefan_boltzmann_constant : dim := mkdim 0 1 (-3) 0 (-4) 0 0.
Definition tol_stefan_boltzmann_constant : R := 1e-8.

Definition ref_wien_displacement_constant : R := 2.897771955e-3.
Definition dim_wien_displacement_constant : dim := mkdim 1 0 0 0 1 0 0.
Definition tol_wien_displacement_constant : R := 1e-8.

(* --- measured, CODATA 2018 --------------------------------------------------------------------- *)
(* relative standard uncertainty 1.5e-10; differs from the pre-2019 exact 4 pi 1e-7 by 5.5e-10 *)
Definition ref_vacuum_permeability : R := 1.25663706212e-6.
Definition dim_vacuum_permeability : dim := mkdim 1 1 (-2) (-2) 0 0 0.
Definition tol_vacuum_permeability : R := 1e-8.

Definition ref_vacuum_permittivity : R := 8.8541878128e-12.
Definition dim_vacuum_permittivity : dim := mkdim (-3) (-1) 4 2 0 0 0.
Definition tol_vacuum_permittivity : R := 1e-8.

Definition ref_vacuum_impedance : R := 376.730313668.
Definition dim_vacuum_impedance : dim := mkdim 2 1 (-3) (-2) 0 0 0.
Definition tol_vacuum_impedance : R := 1e-8.

Definition ref_electron_rest_mass : R := 9.1093837015e-31.
Definition dim_electron_rest_mass : dim := mkdim 0 1 0 0 0 0 0.
Definition tol_electron_rest_mass : R := 1e-8.

Definition ref_bohr_radius : R := 5.29177210903e-11.
Definition dim_bohr_radius : dim := mkdim 1 0 0 0 0 0 0.
Definition tol_bohr_radius : R := 1e-8.

(* c R_infinity *)
Definition ref_rydberg_frequency : R := 3.2898419602508e15.
Definition dim_rydberg_frequency : dim := mkdim 0 0 (-1) 0 0 0 0.
Definition tol_rydberg_frequency : R := 1e-8.

(* relative standard uncertainty 2.2e-5 (CODATA 2014 -> 2018 moved it by 3.3e-5) *)
Definition ref_gravitational_constant : R := 6.67430e-11.
Definition dim_gravitational_constant : dim := mkdim 3 (-1) (-2) 0 0 0 0.
Definition tol_gravitational_constant : R := 2.2e-5.

(* Richardson constant A0 = 4 pi m_e k_B^2 e / h^3  (= 1.20173e6 A m^-2 K^-2) *)
Definition ref_richardson_constant : R := 4 * PI * 9.1093837015e-31 * 1.380649e-23 ^ 2 * 1.602176634e-19 / 6.62607015e-34 ^ 3.
Definition dim_richardson_constant : dim := mkdim (-2) 0 0 1 (-2) 0 0.
Definition tol_richardson_constant : R := 1e-8.

(* NIST ASD: ionisation energy of H = 13.598434599702 eV *)
Definition ref_hydrogen_ionization_energy : R := 13.598434599702 * 1.602176634e-19.
Definition dim_hydrogen_ionization_energy : dim := mkdim 2 1 (-2) 0 0 0 0.
Definition tol_hydrogen_ionization_energy : R := 1e-8.

(* --- conventional values ----------------------------------------------------------------------- *)
Definition ref_acceleration_due_to_gravity : R := 9.80665.
Definition dim_acceleration_due_to_gravity : dim := mkdim 1 0 (-2) 0 0 0 0.
Definition tol_acceleration_due_to_gravity : R := 1e-8.

Definition ref_standard_conditions_temperature : R := 273.15.
Definition dim_standard_conditions_temperature : dim := mkdim 0 0 0 0 1 0 0.
Definition tol_standard_conditions_temperature : R := 1e-8.

(* 25 degC *)
Definition ref_standard_laboratory_temperature : R := 298.15.
Definition dim_standard_laboratory_temperature : dim := mkdim 0 0 0 0 1 0 0.
Definition tol_standard_laboratory_temperature : R := 1e-8.

(* --- astronomy: IAU 2015 B2 / B3 --------------------------------------------------------------- *)
(* nominal (GM)_Sun = 1.3271244e20 m^3 s^-2 divided by G; the uncertainty is that of G *)
Definition ref_solar_mass : R := 1.3271244e20 / 6.67430e-11.
Definition dim_solar_mass : dim := mkdim 0 1 0 0 0 0 0.
Definition tol_solar_mass : R := 2.2e-5.

(* nominal (GM)_Earth = 3.986004e14 m^3 s^-2 divided by G *)
Definition ref_earth_mass : R := 3.986004e14 / 6.67430e-11.
Definition dim_earth_mass : dim := mkdim 0 1 0 0 0 0 0.
Definition tol_earth_mass : R := 2.2e-5.

Definition ref_zero_point_luminosity : R := 3.0128e28.
Definition dim_zero_point_luminosity : dim := mkdim 2 1 (-3) 0 0 0 0.
Definition tol_zero_point_luminosity : R := 1e-8.

(* nominal solar luminosity *)
Definition ref_sun_luminosity : R := 3.828e26.
Definition dim_sun_luminosity : dim := mkdim 2 1 (-3) 0 0 0 0.
Definition tol_sun_luminosity : R := 1e-8.

(* 70 km s^-1 Mpc^-1, parsec = 648000/pi au, au = 149597870700 m; measurements spread 67.4 .. 73 *)
Definition ref_hubble_constant : R := 70000 / (1e6 * (648000 / PI) * 149597870700).
Definition dim_hubble_constant : dim := mkdim 0 0 (-1) 0 0 0 0.
Definition tol_hubble_constant : R := 5e-2.

(* --- reserve: CODATA 2018 / IAU values of constants that are NOT in the catalogue on the pinned tree ------------
   If a constant of one of these names is added to the catalogue it is checked like the others (instead of being
   reported as unreferenced).  harness/props/c20.py does not require these names to exist. *)
Definition ref_proton_rest_mass : R := 1.67262192369e-27.
Definition dim_proton_rest_mass : dim := mkdim 0 1 0 0 0 0 0.
Definition tol_proton_rest_mass : R := 1e-8.

Definition ref_neutron_rest_mass : R := 1.67492749804e-27.
Definition dim_neutron_rest_mass : dim := mkdim 0 1 0 0 0 0 0.
Definition tol_neutron_rest_mass : R := 1e-8.

Definition ref_atomic_mass_constant : R := 1.66053906660e-27.
Definition dim_atomic_mass_constant : dim := mkdim 0 1 0 0 0 0 0.
Definition tol_atomic_mass_constant : R := 1e-8.

Definition ref_fine_structure_constant : R := 7.2973525693e-3.
Definition dim_fine_structure_constant : dim := mkdim 0 0 0 0 0 0 0.
Definition tol_fine_structure_constant : R := 1e-8.

Definition ref_rydberg_constant : R := 10973731.568160.
Definition dim_rydberg_constant : dim := mkdim (-1) 0 0 0 0 0 0.
Definition tol_rydberg_constant : R := 1e-8.

Definition ref_bohr_magneton : R := 9.2740100783e-24.
Definition dim_bohr_magneton : dim := mkdim 2 0 0 1 0 0 0.
Definition tol_bohr_magneton : R := 1e-8.

Definition ref_astronomical_unit : R := 149597870700.
Definition dim_astronomical_unit : dim := mkdim 1 0 0 0 0 0 0.
Definition tol_astronomical_unit : R := 1e-8.

Definition ref_standard_atmosphere : R := 101325.
Definition dim_standard_atmosphere : dim := mkdim (-1) 1 (-2) 0 0 0 0.
Definition tol_standard_atmosphere : R := 1e-8.
