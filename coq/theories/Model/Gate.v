(* Executable model of the dimension gate:
   symplyphysics/core/dimensions/dimensions.py: assert_equivalent_dimension
   symplyphysics/core/quantity_decorator.py:    _assert_expected_unit, validate_input, validate_output(_same) *)
From Coq Require Import List QArith ZArith Bool NArith.
From VP Require Import Base.Util Base.Dim Base.Val Model.CollectQ.
Import ListNotations.

(* what reaches assert_equivalent_dimension as `arg` / `expected_unit`: a Dimension object, or anything else
   (number, quantity, expression) which is then collected *)
Inductive garg := GDim (d : dim) | GExpr (e : qexpr).

(* None = returns normally; Some k = raises error class k *)
Definition verdict := option N.

Definition gate1 (a : garg) (x : garg) : verdict :=
  (* expected side *)
  let xr : result (option dim) :=        (* Ok None = early return (wildcard) *)
    match x with
    | GDim d => Ok (Some d)
    | GExpr e =>
        match collect e with
        | Err k => Err k
        | Ok (f, d) => if is_any f || is_anydim_instance d then Ok None else Ok (Some d)
        end
    end in
  match xr with
  | Err k => Some k
  | Ok None => None
  | Ok (Some xd0) =>
      let xd := erase_angle xd0 in
      let ar : result (option dim) :=
        match a with
        | GDim d => Ok (Some d)
        | GExpr e =>
            match collect e with
            | Err k => Err k
            | Ok (f, d) =>
                if negb (is_number f) then Err E_UNITS
                else if is_any f || is_anydim_instance d then Ok None else Ok (Some d)
            end
        end in
      match ar with
      | Err k => Some k
      | Ok None => None
      | Ok (Some ad0) =>
          let ad := erase_angle ad0 in
          if dimensionless ad && negb (dimensionless xd) then Some E_TYPE
          else if equivalent_dims ad xd then None else Some E_UNITS
      end
  end.

(* _assert_expected_unit: value is one item or a sequence; expectation is one or a tuple *)
Inductive gval := GOne (a : garg) | GSeq (l : list garg).
Inductive gspec := SOne (x : garg) | STuple (l : list garg).

Fixpoint gate_items (items : list garg) (idx : nat) (s : gspec) : verdict :=
  match items with
  | [] => None
  | a :: r =>
      let ex : option garg :=
        match s with
        | SOne x => Some x
        | STuple l => nth_error l idx
        end in
      match ex with
      | None => Some E_OTHER                       (* IndexError *)
      | Some x =>
          match gate1 a x with
          | Some k => Some k
          | None => gate_items r (S idx) s
          end
      end
  end.

Definition gate (v : gval) (s : gspec) : verdict :=
  match s with
  | STuple [] => match v with GSeq [] => None | _ => Some E_OTHER end
  | _ => gate_items (match v with GOne a => [a] | GSeq l => l end) 0 s
  end.

(* ---- decorated call -------------------------------------------------------------------------
   params : parameter names in signature order;  guards : name -> spec;
   a call passes `pos` positionally and `kw` by keyword.  inspect.signature.bind is modelled for plain
   positional-or-keyword parameters without defaults. *)
Definition pname := N.

Fixpoint lookup {A} (n : pname) (l : list (pname * A)) : option A :=
  match l with
  | [] => None
  | (k, v) :: r => if N.eqb k n then Some v else lookup n r
  end.

Fixpoint bind_pos (params : list pname) (pos : list gval) : option (list (pname * gval) * list pname) :=
  match pos, params with
  | [], _ => Some ([], params)
  | _ :: _, [] => None                               (* too many positional arguments *)
  | v :: pr, p :: ps =>
      match bind_pos ps pr with
      | None => None
      | Some (b, rest) => Some ((p, v) :: b, rest)
      end
  end.

Definition mem (n : pname) (l : list pname) : bool := existsb (N.eqb n) l.

Fixpoint nodupb (l : list pname) : bool :=
  match l with [] => true | x :: r => negb (mem x r) && nodupb r end.

Definition bind (params : list pname) (pos : list gval) (kw : list (pname * gval)) : option (list (pname * gval)) :=
  match bind_pos params pos with
  | None => None
  | Some (b, rest) =>
      let kwn := map fst kw in
      if nodupb kwn && forallb (fun k => mem k rest) kwn && forallb (fun p => mem p kwn) rest
      then Some (b ++ kw) else None
  end.

Fixpoint check_params (params : list pname) (guards : list (pname * gspec)) (bound : list (pname * gval)) : verdict :=
  match params with
  | [] => None
  | p :: ps =>
      match lookup p guards with
      | None => check_params ps guards bound
      | Some s =>
          match lookup p bound with
          | None => Some E_OTHER
          | Some v =>
              match gate v s with
              | Some k => Some k
              | None => check_params ps guards bound
              end
          end
      end
  end.

(* validate_input with keyword guards around a function that itself would return `ret`;
   validate_output(out) outermost (as in the catalogue: @validate_input above @validate_output means the
   input check runs first, then the body, then the output check). *)
Definition guarded_call (params : list pname) (guards : list (pname * gspec)) (out : option gspec)
  (pos : list gval) (kw : list (pname * gval)) (ret : gval) : verdict :=
  match bind params pos kw with
  | None => Some E_TYPE
  | Some bound =>
      match check_params params guards bound with
      | Some k => Some k
      | None => match out with
                | None => None
                | Some s => gate ret s
                end
      end
  end.

Definition verdict_eqb (a b : verdict) : bool := N_eqb_opt a b.
