(* Vectors of R^3 as triples of Coq reals, with the products the experimental vector algebra of
   symplyphysics denotes.  Definitions only. *)
From Coq Require Import Reals.
Local Open Scope R_scope.

Record V3 : Type := mkV { vx : R; vy : R; vz : R }.

Definition vzero : V3 := mkV 0 0 0.
Definition vadd (a b : V3) : V3 := mkV (vx a + vx b) (vy a + vy b) (vz a + vz b).
Definition vscale (k : R) (a : V3) : V3 := mkV (k * vx a) (k * vy a) (k * vz a).
Definition vneg (a : V3) : V3 := vscale (-1) a.
Definition vsub (a b : V3) : V3 := vadd a (vneg b).

Definition dot (a b : V3) : R := vx a * vx b + vy a * vy b + vz a * vz b.
Definition cross (a b : V3) : V3 :=
  mkV (vy a * vz b - vz a * vy b) (vz a * vx b - vx a * vz b) (vx a * vy b - vy a * vx b).
(* mixed(a, b, c) = a . (b x c)   (docstring of VectorMixedProduct) *)
Definition mixed (a b c : V3) : R := dot a (cross b c).
Definition norm (a : V3) : R := sqrt (dot a a).
