(* Executable model of symplyphysics/core/vectors/arithmetics.py (Cartesian vector arithmetic) and of its
   refusal rules.  No proofs here (Proofs/CartVecProofs.v).

   Components are real numbers (`R`): a Python component is an arbitrary SymPy expression, a generic symbol of the
   tie stands for an arbitrary real.  Every definition follows the Python text literally (the corresponding source
   line is quoted); the structural characterisations used by the proofs are derived in Proofs/.

   The second half models which calls are refused: a `Vector` carries a `CoordinateSystem` object; that class defines
   no `__eq__`, so `!=` is object identity -- modelled by an identifier `cs_id` -- plus the system type. *)
From Coq Require Import Reals List NArith QArith Bool.
From VP Require Import Base.Util.
Import ListNotations.
Local Open Scope R_scope.

(* ------------------------------------------------------------------------------------------------ *)
(* generic list helpers                                                                               *)

(* [f(l, r) for (l, r) in zip(a, b)]  -- Python's zip stops at the shorter list *)
Fixpoint zip_with {A B C : Type} (f : A -> B -> C) (a : list A) (b : list B) : list C :=
  match a, b with
  | x :: a', y :: b' => f x y :: zip_with f a' b'
  | _, _ => []
  end.

(* list(v.components) + [S.Zero] * (max_size - len(v.components))
   a non-positive repeat count gives [] in Python: a longer vector is NOT trimmed (nat subtraction truncates too) *)
Definition extend_gen {A : Type} (zero : A) (n : nat) (v : list A) : list A :=
  v ++ repeat zero (n - length v).

(* _extend_two_vectors(vector_left, vector_right, max_size=None) *)
Definition extend_two_gen {A : Type} (zero : A) (a b : list A) (max_size : option nat) : list A * list A :=
  let n := match max_size with Some n => n | None => Nat.max (length a) (length b) end in
  (extend_gen zero n a, extend_gen zero n b).

(* ------------------------------------------------------------------------------------------------ *)
(* arithmetic on components                                                                           *)

Definition vec := list R.

Definition extend (n : nat) (v : vec) : vec := extend_gen 0 n v.
Definition extend_two (a b : vec) (max_size : option nat) : vec * vec := extend_two_gen 0 a b max_size.

(* add_two_cartesian_vectors:  [l + r for (l, r) in zip(l_ext, r_ext)] with (l_ext, r_ext) = _extend_two_vectors(left, right) *)
Definition vadd (a b : vec) : vec :=
  let '(l, r) := extend_two a b None in zip_with Rplus l r.

(* add_cartesian_vectors(v, *vs):  result = vectors[0]; for vector in vectors[1:]: result = add_two(result, vector)
   (a single vector is returned as it is) *)
Definition vsum (v : vec) (vs : list vec) : vec := fold_left vadd vs v.

(* scale_vector, Cartesian branch:  [scalar_value * e for e in vector.components] *)
Definition vscale (k : R) (v : vec) : vec := map (fun e => k * e) v.

(* subtract_cartesian_vectors(a, b, *bs) = add(a, scale_vector(-1, add(b, *bs))) *)
Definition vsub_n (a b : vec) (bs : list vec) : vec := vadd a (vscale (-1) (vsum b bs)).
Definition vsub (a b : vec) : vec := vsub_n a b [].

(* _multiply_lists_and_sum:  reduce(add, map(lambda lr: lr[0] * lr[1], zip(l, r)), 0)   (Cartesian dot_vectors) *)
Definition dot (a b : vec) : R := fold_left Rplus (zip_with Rmult a b) 0.

(* vector_magnitude = sqrt(dot_vectors(v, v)) *)
Definition mag2 (v : vec) : R := dot v v.
Definition mag (v : vec) : R := sqrt (dot v v).

(* cross_cartesian_vectors after its checks:
     (l, r) = _extend_two_vectors(left, right, 3); ax, ay, az = l; bx, by, bz = r
     [ay * bz - az * by, az * bx - ax * bz, ax * by - ay * bx]
   the destructuring fails (ValueError) for more than three components; the length check before it refuses those
   calls already, see cross_outcome; `None` stands for that refusal *)
Definition cross_opt (a b : vec) : option vec :=
  match extend_two a b (Some 3%nat) with
  | ([ax; ay; az], [bx; b_y; bz]) => Some [ay * bz - az * b_y; az * bx - ax * bz; ax * b_y - ay * bx]
  | _ => None
  end.
Definition cross (a b : vec) : vec := match cross_opt a b with Some c => c | None => [] end.

(* vector_unit = scale_vector(1 / vector_magnitude(v), v) *)
Definition unit (v : vec) : vec := vscale (1 / mag v) v.

(* project_vector(o, t) = scale_vector(dot(o, t) / dot(t, t), t) *)
Definition project (o t : vec) : vec := vscale (dot o t / dot t t) t.

(* reject_cartesian_vector(o, t) = add(o, scale_vector(-1, project_vector(o, t))) *)
Definition reject (o t : vec) : vec := vadd o (vscale (-1) (project o t)).

(* equal_vectors over exact reals: all components of the two zero-extended lists are equal *)
Definition veq (a b : vec) : Prop :=
  let '(l, r) := extend_two a b None in l = r.

(* equal_vectors, executable over rationals (expr_equals(l, r) is `simplify(l - r) == 0`, exact on rationals):
   for l, r in zip(...): if not expr_equals(l, r): return False;  return True *)
Definition veqbQ (a b : list Q) : bool :=
  let '(l, r) := extend_two_gen 0%Q a b None in
  forallb (fun p => Qeq_bool (fst p) (snd p)) (combine l r).

(* ------------------------------------------------------------------------------------------------ *)
(* refusals                                                                                           *)

Inductive systype := Cartesian | Cylindrical | Spherical.

Record csys := mk_csys { cs_id : N; cs_type : systype }.

(* `a.coordinate_system != b.coordinate_system` is `not (a is b)` *)
Definition same_sys (a b : csys) : bool := N.eqb (cs_id a) (cs_id b).
Definition is_cart (s : csys) : bool := match cs_type s with Cartesian => true | _ => false end.

Inductive outcome := Accept | Refuse (e : N).

Definition outcome_eqb (a b : outcome) : bool :=
  match a, b with
  | Accept, Accept => true
  | Refuse x, Refuse y => N.eqb x y
  | _, _ => false
  end.

Definition bind_outcome (a : outcome) (k : outcome) : outcome :=
  match a with Accept => k | Refuse e => Refuse e end.

(* a vector as the refusal rules see it: its system and its number of components *)
Definition vshape := (csys * nat)%type.

(* add_two_cartesian_vectors: the result carries the LEFT system and max length *)
Definition add2_outcome (l r : vshape) : outcome :=
  if negb (same_sys (fst l) (fst r)) then Refuse E_VALUE
  else if negb (is_cart (fst l)) || negb (is_cart (fst r)) then Refuse E_VALUE
  else Accept.
Definition add2_shape (l r : vshape) : vshape := (fst l, Nat.max (snd l) (snd r)).

(* add_cartesian_vectors( *vectors ) : (outcome, shape of the result) *)
Fixpoint add_fold (acc : vshape) (vs : list vshape) : outcome * vshape :=
  match vs with
  | [] => (Accept, acc)
  | v :: r => match add2_outcome acc v with
              | Accept => add_fold (add2_shape acc v) r
              | Refuse e => (Refuse e, acc)
              end
  end.
Definition add_outcome (vs : list vshape) : outcome * vshape :=
  match vs with
  | [] => (Refuse E_VALUE, (mk_csys 0 Cartesian, 0%nat))
  | v :: r => add_fold v r
  end.

(* scale_vector never refuses and keeps system and length *)

(* subtract_cartesian_vectors *)
Definition sub_outcome (vs : list vshape) : outcome :=
  match vs with
  | v :: ((_ :: _) as rest) =>
      let '(o, s) := add_outcome rest in bind_outcome o (add2_outcome v s)
  | _ => Refuse E_VALUE
  end.

(* dot_vectors: identity check (TypeError); the Cartesian branch zips; the cylindrical / spherical branches extend to
   three and destructure `r, theta, z = ...`, a ValueError for more than three components *)
Definition dot_outcome (l r : vshape) : outcome :=
  if negb (same_sys (fst l) (fst r)) then Refuse E_TYPE
  else if is_cart (fst l) then Accept
  else if (3 <? snd l)%nat || (3 <? snd r)%nat then Refuse E_VALUE
  else Accept.

Definition equal_outcome (l r : vshape) : outcome :=
  if negb (same_sys (fst l) (fst r)) then Refuse E_TYPE else Accept.

Definition cross_outcome (l r : vshape) : outcome :=
  if negb (same_sys (fst l) (fst r)) then Refuse E_TYPE
  else if negb (is_cart (fst l)) then Refuse E_VALUE
  else if negb (is_cart (fst r)) then Refuse E_VALUE
  else if (3 <? snd l)%nat then Refuse E_VALUE
  else if (3 <? snd r)%nat then Refuse E_VALUE
  else Accept.

Definition magnitude_outcome (v : vshape) : outcome := dot_outcome v v.
Definition unit_outcome (v : vshape) : outcome := magnitude_outcome v.
(* project_vector(o, t): dot(o, t), dot(t, t), scale *)
Definition project_outcome (o t : vshape) : outcome :=
  bind_outcome (dot_outcome o t) (dot_outcome t t).
(* reject_cartesian_vector(o, t): project, scale, add(o, .) *)
Definition reject_outcome (o t : vshape) : outcome :=
  bind_outcome (project_outcome o t) (add2_outcome o t).

Inductive binop := OpAdd | OpSub | OpDot | OpCross | OpEqual | OpProject | OpReject.

Definition binop_outcome (op : binop) (l r : vshape) : outcome :=
  match op with
  | OpAdd => fst (add_outcome [l; r])
  | OpSub => sub_outcome [l; r]
  | OpDot => dot_outcome l r
  | OpCross => cross_outcome l r
  | OpEqual => equal_outcome l r
  | OpProject => project_outcome l r
  | OpReject => reject_outcome l r
  end.
