#!/bin/bash
# MANIFEST.setup_cmd: build the static Coq development from files on disk only (offline), then audit it.
set -e
cd /verif
mkdir -p build evidence replays
bash coq/build.sh > coq/setup.log 2>&1 || { tail -40 coq/setup.log; echo "static Coq build failed"; exit 1; }
# audit: nothing in the development may declare an axiom or leave a hole
if grep -rnE '\b(Admitted|admit|Axiom|Axioms|Parameter|Parameters|Conjecture|Admit Obligations)\b|Unset +Guard|bypass_check|type-in-type|impredicative-set' coq/theories --include='*.v' | grep -v '^[^:]*:[0-9]*: *(\*' ; then
  echo "forbidden vernacular found"; exit 1
fi
# optional (VERIF_COQCHK=1, about 30-40 min single-threaded): independent re-check of the compiled property files and
# everything they depend on with coqchk; its axiom summary goes to coq/coqchk.log (a copy of the last run is committed as
# coq/coqchk.summary.txt).  Not part of the default setup: the kernel has already accepted every proof above.
if [ -n "$VERIF_COQCHK" ]; then
  mods=$(cd coq/theories/Properties && ls *.v | sed 's/\.v$//' | sed 's/^/VP.Properties./' | tr '\n' ' ')
  ( cd coq && timeout 7200 coqchk -silent -o -Q theories VP $mods > coqchk.log 2>&1; echo "coqchk exit=$?" >> coqchk.log ) || true
  tail -1 coq/coqchk.log
fi
echo "setup ok: $(find coq/theories -name '*.vo' | wc -l) .vo files"
