#!/bin/bash
# MANIFEST.setup_cmd: build the static Coq development from files on disk only (offline), then audit it.
set -e
cd /verif
mkdir -p build evidence replays
bash coq/build.sh > coq/setup.log 2>&1 || { tail -40 coq/setup.log; echo "static Coq build failed"; exit 1; }
# audit: nothing in the development may declare an axiom or leave a hole
if grep -rnE '\b(Admitted|admit|Axiom|Axioms|Parameter|Parameters|Conjecture|Admit Obligations)\b|Unset +Guard|bypass_check|type-in-type|impredicative-set' coq/theories --include='*.v' | grep -v '^[^:]*:[0-9]*: *(\*' ; then
  echo "forbidden vernacular found"; exit 1
fi
echo "setup ok: $(find coq/theories -name '*.vo' | wc -l) .vo files"
